#!/usr/bin/env python3
"""Regenerate /verif/MANIFEST.json from the property modules that exist under vf/props/."""
import json, os, re, subprocess, sys

ROOT = os.path.dirname(os.path.dirname(os.path.abspath(__file__)))
BASE = json.load(open("/root/.vp/BASELINE.json"))

NA = {
}
PENDING = "solver-based check designed (DESIGN.md section 4) but not yet built in this round"

META = {}
for fn in sorted(os.listdir(os.path.join(ROOT, "vf", "props"))):
    m = re.fullmatch(r"(c\d\d)\.py", fn)
    if not m:
        continue
    src = open(os.path.join(ROOT, "vf", "props", fn)).read()
    META[m.group(1).upper()] = src

props = [json.loads(l) for l in open(os.path.join(ROOT, "properties.jsonl"))]
sys.path.insert(0, ROOT)
checks = []
na = []
for p in props:
    pid = p["id"]
    if pid in META and pid not in NA:
        ns = {}
        # cheap extraction of the module-level strings without importing odc/z3
        def grab(name, default=""):
            mm = re.search(rf"^{name}\s*=\s*\(\s*\n(.*?)^\)", META[pid], re.S | re.M)
            if mm:
                return eval("(" + mm.group(1) + ")")
            mm = re.search(rf"^{name}\s*=\s*(\".*\")\s*$", META[pid], re.M)
            return eval(mm.group(1)) if mm else default
        text = grab("LEVEL_TEXT") or grab("EXPLANATION")
        note = grab("LEVEL_NOTE") or "z3 5.1 (z3-solver wheel) as the deciding solver; the symx engine and the namespace shims/models listed in DESIGN.md 3.2; floats modelled as exact reals unless the obligation says FP-exact; bounds/grids as listed per obligation in the evidence file"
        tech = grab("TECHNIQUE") or "symbolic execution of the real Python functions (symx: operator-overloaded z3 terms, path forking by re-execution) + z3 SMT queries per property atom; counterexamples replayed on the un-shimmed code"
        checks.append({
            "property_id": pid,
            "quick_cmd": f"./check {pid} --tier quick",
            "thorough_cmd": f"./check {pid} --tier thorough",
            "evidence_file": f"/verif/evidence/{pid}.json",
            "replay_cmd_template": f"./check {pid} --replay {{path}}",
            "engine": "symx",
            "level_claimed": {"category": "other", "text": text, "design_ref": f"DESIGN.md section 4 ({pid}), section 2-3"},
            "level_note": note,
            "technique": tech,
        })
    else:
        na.append({"property_id": pid, "reason": NA.get(pid, PENDING)})

man = {
    "version": 1,
    "setup_cmd": "./setup.sh",
    "hooks": {
        "guard": "OPENDATACUBE_ODC_GEO_VERIF",
        "enable": "no source hooks: symbol-aware shims are attached to the imported module objects at run time by the checks (DESIGN.md 3.2); the guard variable is exported by ./check but nothing in /repo reads it",
        "baseline_off_cmd": BASE["cmd"].replace("--junitxml=<file>", "").strip(),
        "source_commits": [],
        "add_only": True,
    },
    "engines": [
        {"name": "symx", "path": "/verif/vf/symx.py", "serves_properties": [c["property_id"] for c in checks],
         "kind_free_text": "shadow symbolic execution of the real odc-geo Python functions over z3 terms (SymInt/SymReal/SymBool), depth-first path exploration by re-execution, z3 5.1 decides every branch feasibility and every property atom; partial-order SMT encoding for thread interleavings (vf/po.py); FP-exact mode (vf/fp.py); CrossHair / z3 4.8 / cvc5 as cross-checks in the thorough tier"},
    ],
    "checks": checks,
    "not_applicable": na,
    "notes": "Exit codes of ./check: 0 held on everything explored (inconclusive obligations are listed in the evidence), 1 VIOLATION (replayed on the real code first), 2 harness error. known_findings.json lists fixed defects (documentation only) and known findings (region predicates).",
}
json.dump(man, open(os.path.join(ROOT, "MANIFEST.json"), "w"), indent=1)
print("claimed:", [c["property_id"] for c in checks])
print("n/a:", [x["property_id"] for x in na])
