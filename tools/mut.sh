#!/bin/bash
# tools/mut.sh <file-in-repo> <old> <new> -- <check args...>
# apply a one-line source mutation to a scratch worktree of /repo (never /repo itself), run the
# check against it (VERIF_REPO), restore the worktree
set -u
f=$1; old=$2; new=$3; shift 4
WT=${MUTWT:-/tmp/wt/mut}
if [ ! -d $WT ]; then mkdir -p /tmp/wt; git -C /repo worktree add -q --detach $WT HEAD || exit 3; fi
git -C $WT checkout -q --detach $(git -C /repo rev-parse HEAD) 2>/dev/null
git -C $WT checkout -q -- .
cd $WT
python3 - "$f" "$old" "$new" <<'PY'
import sys
f,old,new=sys.argv[1:4]
s=open(f).read()
n=s.count(old)
if n!=1:
    print("MUTATION pattern count",n); sys.exit(4)
open(f,'w').write(s.replace(old,new))
PY
rc=$?
if [ $rc -ne 0 ]; then git checkout -q -- .; exit $rc; fi
cd /verif
VERIF_REPO=$WT ./check "$@" 2>&1 | grep -E "^VIOLATION|^SUMMARY|^HARNESS|atom=" | cut -c1-250 | head -8
git -C $WT checkout -q -- .
