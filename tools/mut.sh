#!/bin/bash
# tools/mut.sh <file-in-repo> <python-regex-old> <new> -- <check args...>
# apply a one-line source mutation to /repo, run the check, restore the tree
set -u
f=$1; old=$2; new=$3; shift 4
cd /repo
if ! git diff --quiet; then echo "repo dirty"; exit 3; fi
python3 - "$f" "$old" "$new" <<'PY'
import sys,re
f,old,new=sys.argv[1:4]
s=open(f).read()
n=s.count(old)
if n!=1:
    print("MUTATION pattern count",n); sys.exit(4)
open(f,'w').write(s.replace(old,new))
PY
rc=$?
if [ $rc -ne 0 ]; then git checkout -- .; exit $rc; fi
cd /verif
./check "$@" 2>&1 | grep -E "^VIOLATION|^SUMMARY|^HARNESS|atom=" | cut -c1-250 | head -8
git -C /repo checkout -- .
