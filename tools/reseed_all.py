#!/usr/bin/env python3
"""tools/reseed_all.py [ids...] -- regression of the checks against every stored seeded change:
apply seeded/<id>/patch.diff to a scratch worktree of /repo (never /repo itself), run the quick
check(s) named in meta.json caught_by against it (VERIF_REPO), record VIOLATION / not.
Writes seeded/RESULTS.json and prints a table."""
import glob, json, os, re, subprocess, sys
WT = os.environ.get("RESEED_WT", "/tmp/wt/mut")
OUTF = os.environ.get("RESEED_OUT", "/verif/seeded/RESULTS.json")
head = subprocess.check_output(["git", "-C", "/repo", "rev-parse", "HEAD"], text=True).strip()
if not os.path.isdir(WT):
    subprocess.check_call(["git", "-C", "/repo", "worktree", "add", "-q", "--detach", WT, "HEAD"])
OLD = json.load(open("/verif/seeded/RESULTS.json")).get("seeds", {}) if os.path.exists("/verif/seeded/RESULTS.json") else {}
for _sid in glob.glob("/verif/seeded/C*"):
    _m = json.load(open(_sid + "/meta.json"))
    if _m.get("first_violation") and os.path.basename(_sid) not in OLD:
        OLD[os.path.basename(_sid)] = {"checks": {(_m.get("caught_by") or [_m["breaks_property"]])[0].split(":")[0]: {"first": (_m["first_violation"].get("obligation", "") if isinstance(_m["first_violation"], dict) else str(_m["first_violation"]))}}}
ids = sys.argv[1:] or sorted(os.path.basename(d) for d in glob.glob("/verif/seeded/C*"))
res = {}
for sid in ids:
    d = f"/verif/seeded/{sid}"
    m = json.load(open(d + "/meta.json"))
    props = sorted({c.split(":")[0] for c in m.get("caught_by") or [] if c}) or [m["breaks_property"]]
    subprocess.call(["git", "-C", WT, "reset", "-q", "--hard"])
    subprocess.call(["git", "-C", WT, "checkout", "-q", "--detach", head])
    if subprocess.call(["git", "-C", WT, "apply", d + "/patch.diff"], stderr=subprocess.DEVNULL) != 0:
        # later repairs moved the context: try with less context / three-way
        ok = False
        for extra in (["-C1"], ["-C0", "--unidiff-zero"], ["-3"]):
            subprocess.call(["git", "-C", WT, "reset", "-q", "--hard"])
            if subprocess.call(["git", "-C", WT, "apply", *extra, d + "/patch.diff"], stderr=subprocess.DEVNULL) == 0:
                ok = True
                break
        if not ok:
            res[sid] = {"applies": False}
            print(sid, "PATCH DOES NOT APPLY", flush=True)
            continue
    out = {}
    for p in props:
        # fast path: the obligation that reported it last time, the whole check only if that one is silent now
        hint = ((OLD.get(sid) or {}).get("checks") or {}).get(p, {}).get("first")
        tries = ([["--only", hint.split(" ")[0]]] if hint and hint.split(" ")[0] else []) + [[]]
        for extra in tries:
            r = subprocess.run(["./check", p, *extra], cwd="/verif", env={**os.environ, "VERIF_REPO": WT}, capture_output=True, text=True)
            v = len(re.findall(r"^VIOLATION", r.stdout, re.M))
            if v:
                break
        fm = re.search(r"obligation=(\S+) atom=(.+?) param=", r.stdout)
        out[p] = {"exit": r.returncode, "violations": v, "first": (fm.group(1) + " " + fm.group(2)) if fm else None, "only": bool(extra)}
    caught = any(o["violations"] > 0 for o in out.values())
    res[sid] = {"applies": True, "expected_detected": m.get("detected_by_checks"), "caught": caught, "checks": out}
    print(sid, "CAUGHT" if caught else "not reported", {p: o["violations"] for p, o in out.items()}, flush=True)
subprocess.call(["git", "-C", WT, "reset", "-q", "--hard"])
prev = {}
if os.path.exists(OUTF) and sys.argv[1:]:
    prev = json.load(open(OUTF)).get("seeds", {})
prev.update(res)
json.dump({"repo_head": head, "seeds": prev}, open(OUTF, "w"), indent=1)
bad = [s for s, r in res.items() if r.get("applies") and r.get("expected_detected") and not r.get("caught")]
print("regressions (expected detected, not reported now):", bad)
