#!/usr/bin/env python3
"""tools/reseed_all.py [ids...] -- regression of the checks against every stored seeded change:
apply seeded/<id>/patch.diff to a scratch worktree of /repo (never /repo itself), run the quick
check(s) named in meta.json caught_by against it (VERIF_REPO), record VIOLATION / not.
Writes seeded/RESULTS.json and prints a table."""
import glob, json, os, re, subprocess, sys
WT = "/tmp/wt/mut"
head = subprocess.check_output(["git", "-C", "/repo", "rev-parse", "HEAD"], text=True).strip()
if not os.path.isdir(WT):
    subprocess.check_call(["git", "-C", "/repo", "worktree", "add", "-q", "--detach", WT, "HEAD"])
ids = sys.argv[1:] or sorted(os.path.basename(d) for d in glob.glob("/verif/seeded/C*"))
res = {}
for sid in ids:
    d = f"/verif/seeded/{sid}"
    m = json.load(open(d + "/meta.json"))
    props = sorted({c.split(":")[0] for c in m.get("caught_by") or [] if c}) or [m["breaks_property"]]
    subprocess.call(["git", "-C", WT, "reset", "-q", "--hard"])
    subprocess.call(["git", "-C", WT, "checkout", "-q", "--detach", head])
    if subprocess.call(["git", "-C", WT, "apply", d + "/patch.diff"]) != 0:
        res[sid] = {"applies": False}
        print(sid, "PATCH DOES NOT APPLY")
        continue
    out = {}
    for p in props:
        r = subprocess.run(["./check", p], cwd="/verif", env={**os.environ, "VERIF_REPO": WT}, capture_output=True, text=True)
        v = len(re.findall(r"^VIOLATION", r.stdout, re.M))
        fm = re.search(r"obligation=(\S+) atom=(.+?) param=", r.stdout)
        out[p] = {"exit": r.returncode, "violations": v, "first": (fm.group(1) + " " + fm.group(2)) if fm else None}
    caught = any(o["violations"] > 0 for o in out.values())
    res[sid] = {"applies": True, "expected_detected": m.get("detected_by_checks"), "caught": caught, "checks": out}
    print(sid, "CAUGHT" if caught else "not reported", {p: o["violations"] for p, o in out.items()}, flush=True)
subprocess.call(["git", "-C", WT, "reset", "-q", "--hard"])
prev = {}
if os.path.exists("/verif/seeded/RESULTS.json") and sys.argv[1:]:
    prev = json.load(open("/verif/seeded/RESULTS.json")).get("seeds", {})
prev.update(res)
json.dump({"repo_head": head, "seeds": prev}, open("/verif/seeded/RESULTS.json", "w"), indent=1)
bad = [s for s, r in res.items() if r.get("applies") and r.get("expected_detected") and not r.get("caught")]
print("regressions (expected detected, not reported now):", bad)
