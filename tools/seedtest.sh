#!/bin/bash
# tools/seedtest.sh <worktree-with-_seed> <seed-id> <check ids...>
# 1. confirms demo.py fails with the patch and passes without (in the worktree)
# 2. confirms the baseline stable_pass set still passes with the patch (in the worktree)
# 3. applies the patch to /repo, runs the given checks, restores /repo
set -u
WT=$1; ID=$2; shift 2
S=$WT/${SEED:-_seed}
[ -f $S/patch.diff ] || { echo "no patch"; exit 3; }
cd $WT
# (no git stash: refs/stash is shared between worktrees)
git checkout -q -- odc 2>/dev/null
PYTHONPATH=$WT /venv/bin/python $S/demo.py >/tmp/seed_demo_clean.log 2>&1; c0=$?
git apply $S/patch.diff || { echo "patch does not apply in worktree"; exit 3; }
PYTHONPATH=$WT /venv/bin/python $S/demo.py >/tmp/seed_demo_patched.log 2>&1; c1=$?
echo "demo: clean exit=$c0 patched exit=$c1"
OUT=$(mktemp /tmp/junit.XXXXXX.xml)
PYTHONPATH=$WT /venv/bin/python -m pytest -ra -q -p no:cacheprovider --timeout=900 --continue-on-collection-errors --junitxml=$OUT >/dev/null 2>&1
python3 - "$OUT" <<'PY'
import sys, json, xml.etree.ElementTree as ET
b = json.load(open('/root/.vp/BASELINE.json'))
t = ET.parse(sys.argv[1]).getroot()
res = {}
for tc in t.iter('testcase'):
    name = f"{tc.get('classname')}::{tc.get('name')}"
    bad = any(ch.tag in ('failure', 'error') for ch in tc)
    res[name] = 'fail' if bad else 'pass'
missing = [n for n in b['stable_pass'] if res.get(n) != 'pass']
print('suite with patch: stable_pass not passing:', len(missing), missing[:5])
PY
rm -f $OUT
# the worktree (patch applied) is analysed in place of /repo, so that /repo stays untouched
# while other runs are using it; the patch is known to apply to /repo's HEAD (same commit)
[ "$(git -C $WT rev-parse HEAD)" = "$(git -C /repo rev-parse HEAD)" ] || echo "WARNING: worktree is not at /repo HEAD"
cd /verif
for c in "$@"; do
  VERIF_REPO=$WT ./check $c > /tmp/seedtest_check.$$ 2>&1
  echo "violations: $(grep -c '^VIOLATION' /tmp/seedtest_check.$$) nonreproducing: $(grep -c '^NONREPRO' /tmp/seedtest_check.$$) inconclusive: $(grep -c '^INCONCLUSIVE' /tmp/seedtest_check.$$)"
  grep -E "^VIOLATION" -A1 /tmp/seedtest_check.$$ | cut -c1-260 | head -4
  grep -E "^SUMMARY|^HARNESS" /tmp/seedtest_check.$$ | cut -c1-260
  rm -f /tmp/seedtest_check.$$
done
git -C $WT checkout -q -- odc
