#!/usr/bin/env python3
"""tools/cost_table.py <quick-log> <thorough-log> -- the cost table of DESIGN 3.9 from the SUMMARY lines of
one sequential run of every quick command and one of every thorough command"""
import re, sys
def parse(fn):
    out = {}
    for l in open(fn):
        m = re.search(r"SUMMARY property=(C\d+) tier=(\w+) obligations=(\d+) discharged=(\d+) paths=(\d+) atoms_proved=(\d+) queries=(\d+) solver_s=([\d.]+) wall_s=([\d.]+) violations=(\d+) inconclusive=(\d+)", l)
        if m:
            out[m.group(1)] = dict(ob=int(m.group(3)), dis=int(m.group(4)), paths=int(m.group(5)), atoms=int(m.group(6)), q=int(m.group(7)), wall=float(m.group(9)), inc=int(m.group(11)))
    return out
q, t = parse(sys.argv[1]), parse(sys.argv[2])
print("| prop | obligations | quick wall | quick paths / atoms proved | thorough wall | thorough paths / queries | thorough inconclusive |")
print("|------|-------------|------------|----------------------------|---------------|--------------------------|-----------------------|")
for p in sorted(set(q) | set(t)):
    a, b = q.get(p), t.get(p)
    print(f"| {p} | {a['ob'] if a else '-'} | {a['wall']:.0f} s | {a['paths']} / {a['atoms']} | " + (f"{b['wall']:.0f} s | {b['paths']} / {b['q']} | {b['inc']} |" if b else "- | - | - |"))
if q: print(f"\nquick total {sum(v['wall'] for v in q.values())/60:.1f} min; " + (f"thorough total {sum(v['wall'] for v in t.values())/60:.1f} min" if t else ""))
