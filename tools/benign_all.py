#!/usr/bin/env python3
"""tools/benign_all.py [ids...] -- the opposite of reseed_all.py: apply every stored behaviour-preserving
refactoring (benign/<id>/patch.diff) to a scratch worktree of /repo (never /repo itself) and run the quick
check of its property against it: a VIOLATION here is a false alarm of the check."""
import glob, json, os, re, subprocess, sys
WT = os.environ.get("RESEED_WT", "/tmp/wt/mut")
head = subprocess.check_output(["git", "-C", "/repo", "rev-parse", "HEAD"], text=True).strip()
if not os.path.isdir(WT):
    subprocess.check_call(["git", "-C", "/repo", "worktree", "add", "-q", "--detach", WT, "HEAD"])
ids = sys.argv[1:] or sorted(os.path.basename(d) for d in glob.glob("/verif/benign/C*"))
bad = []
for bid in ids:
    d = f"/verif/benign/{bid}"
    m = json.load(open(d + "/meta.json"))
    subprocess.call(["git", "-C", WT, "reset", "-q", "--hard"])
    subprocess.call(["git", "-C", WT, "checkout", "-q", "--detach", head])
    if subprocess.call(["git", "-C", WT, "apply", d + "/patch.diff"], stderr=subprocess.DEVNULL) != 0:
        print(bid, "PATCH DOES NOT APPLY", flush=True)
        continue
    r = subprocess.run(["./check", m["property"]], cwd="/verif", env={**os.environ, "VERIF_REPO": WT}, capture_output=True, text=True)
    v = len(re.findall(r"^VIOLATION", r.stdout, re.M))
    nr = len(re.findall(r"^NONREPRODUCING", r.stdout, re.M))
    print(bid, "FALSE ALARM" if v else "silent", {"violations": v, "nonreproducing": nr, "exit": r.returncode}, flush=True)
    if v:
        bad.append(bid)
subprocess.call(["git", "-C", WT, "reset", "-q", "--hard"])
print("false alarms:", bad)
sys.exit(1 if bad else 0)
