#!/usr/bin/env python3
"""tools/seedhist.py <seed-id> <text> -- add a 'history' note (initial miss + strengthening) to a saved seed"""
import json, sys
p = f"/verif/seeded/{sys.argv[1]}/meta.json"
m = json.load(open(p))
m["history"] = sys.argv[2]
json.dump(m, open(p, "w"), indent=1)
