#!/bin/bash
# Run the repository's pinned test suite (guard off) and compare with BASELINE.json's stable_pass.
OUT=$(mktemp /tmp/junit.XXXXXX.xml)
cd /repo && env -u OPENDATACUBE_ODC_GEO_VERIF /venv/bin/python -m pytest -ra -q -p no:cacheprovider --timeout=900 --continue-on-collection-errors --junitxml=$OUT >/dev/null 2>&1
python3 - "$OUT" <<'PY'
import sys, json, xml.etree.ElementTree as ET
b = json.load(open('/root/.vp/BASELINE.json'))
t = ET.parse(sys.argv[1]).getroot()
res = {}
for tc in t.iter('testcase'):
    name = f"{tc.get('classname')}::{tc.get('name')}"
    bad = any(ch.tag in ('failure', 'error') for ch in tc)
    skipped = any(ch.tag == 'skipped' for ch in tc)
    res[name] = 'fail' if bad else ('skip' if skipped else 'pass')
missing = [n for n in b['stable_pass'] if res.get(n) != 'pass']
print('passed', sum(1 for v in res.values() if v == 'pass'), 'failed', sum(1 for v in res.values() if v == 'fail'),
      'stable_pass not passing:', len(missing))
for n in missing[:20]: print('  ', n, res.get(n))
sys.exit(1 if missing else 0)
PY
rc=$?
rm -f $OUT
exit $rc
