import sys, time
sys.path.insert(0,'/verif')
from vf import symx, shims
import importlib
mod = importlib.import_module('vf.props.'+sys.argv[1])
import z3
mod.setup()
orig = symx.Ctx.check
def chk(self, *extra, timeout_ms=None):
    t=time.time(); r = orig(self, *extra, timeout_ms=timeout_ms); dt=time.time()-t
    if dt > 2 or r[0]=='unknown':
        print('SLOW', round(dt,2), r[0], 'pc=', [str(p) for p in self.pc], 'extra=', [str(e) for e in extra])
    return r
symx.Ctx.check = chk
fn = getattr(mod, sys.argv[2])
import json
param = json.loads(sys.argv[3]) if len(sys.argv)>3 else {}
res = symx.explore(lambda: fn(**param), timeout_ms=int(sys.argv[4]) if len(sys.argv)>4 else 6000, max_paths=int(sys.argv[5]) if len(sys.argv)>5 else 1000)
print('paths',res.paths, 'viol', res.violations[:1], 'inc', res.inconclusive[:3], 'q', res.queries, 'solver_s', round(res.solver_s,2), 'wall', round(res.wall_s,2))
