#!/usr/bin/env python3
"""tools/saveseed.py <worktree> <seed-id> <property> <caught_by csv> <detected yes|no> -- store a confirmed seeded change under /verif/seeded/<id>/"""
import json, os, shutil, subprocess, sys
wt, sid, prop, caught, detected = sys.argv[1:6]
sd = os.environ.get("SEED", "_seed")
d = f"/verif/seeded/{sid}"
os.makedirs(d, exist_ok=True)
shutil.copy(f"{wt}/{sd}/patch.diff", f"{d}/patch.diff")
shutil.copy(f"{wt}/{sd}/demo.py", f"{d}/demo.py")
notes = open(f"{wt}/{sd}/notes.txt").read() if os.path.exists(f"{wt}/{sd}/notes.txt") else ""
meta = {
    "id": sid,
    "breaks_property": prop,
    "author": "independent sub-agent given only the property text and a scratch worktree (nothing from /verif)",
    "what_it_needs_to_manifest": notes.strip(),
    "confirmed_by_me": {
        "demo": "tools/seedtest.sh: demo.py exits 0 on the clean worktree and 1 with the patch",
        "suite": "tools/seedtest.sh: every BASELINE stable_pass test still passes with the patch applied",
        "checks_run_against_it": f"git -C /repo apply patch.diff; ./check <id> --tier quick for {caught}; git -C /repo checkout -- .",
    },
    "detected_by_checks": detected == "yes",
    "caught_by": [c for c in caught.split(",") if c],
    "base_commit": subprocess.check_output(["git", "-C", "/repo", "rev-parse", "--short", "HEAD"], text=True).strip(),
}
json.dump(meta, open(f"{d}/meta.json", "w"), indent=1)
print("saved", d)
