#!/bin/bash
# tools/save3.sh <P> <k> <caught_by> <yes|no> [history]   -- save a batch-3 seed from /tmp/wt/c<P>/_seed<k>
P=$1; k=$2; by=$3; det=$4; hist=${5:-}
n=$(ls -d /verif/seeded/$P-* | wc -l); id=$P-$((n+1))
SEED=_seed$k python3 /verif/tools/saveseed.py /tmp/wt/c$P $id $P "$by" $det | tail -1
python3 - "$id" "$P" "$k" "$hist" <<'PY'
import json,sys,re,os
sid,P,k,hist=sys.argv[1:5]
p=f"/verif/seeded/{sid}/meta.json"; m=json.load(open(p))
m["origin"]=f"batch 3, sub-agent for {P}, change {k}"
f=f"/tmp/seedres/b3_{P}_{k}.txt"
if os.path.exists(f):
    mm=re.search(r"obligation=(\S+) atom=(\S+)",open(f).read())
    if mm: m["first_violation"]={"obligation":mm.group(1),"atom":mm.group(2).strip("'\"")}
if hist: m["history"]=hist
json.dump(m,open(p,"w"),indent=1)
PY
