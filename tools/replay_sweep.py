#!/usr/bin/env python3
"""tools/replay_sweep.py [CNN ...] -- cross-validation of the encoding against the real code: the
path witnesses recorded in evidence/CNN.json (satisfying assignments of feasible paths on which
every atom was PROVED) are pushed through the concrete replay of their obligation on the current
tree.  A replay that fails there is either an unsound concrete atom / stand-in of the replay, or a
disagreement between the symbolic run and the real code -- both have to be looked at."""
import glob, json, os, sys
sys.path.insert(0, "/verif")
from vf.runner import replay_file, ROOT  # noqa: E402

ids = sys.argv[1:] or sorted(os.path.basename(f)[:-5] for f in glob.glob("/verif/evidence/C*.json"))
from concurrent.futures import ThreadPoolExecutor  # noqa: E402

jobs = []
for pid in ids:
    ev = json.load(open(f"/verif/evidence/{pid}.json"))
    for i, sm in enumerate(ev.get("coverage", {}).get("samples", [])):
        if "witness" in sm:
            jobs.append((pid, i, sm))


def one(job):
    pid, i, sm = job
    fn = os.path.join(ROOT, "replays", f"{pid}_sweep_{i}.json")
    os.makedirs(os.path.dirname(fn), exist_ok=True)
    json.dump(dict(property=pid, obligation=sm["obligation"], param=sm["param"], label="", models=[sm["witness"]]), open(fn, "w"), indent=1)
    return job, replay_file(pid, fn)


KNOWN_OBS = {(k.get("property"), k.get("obligation")) for k in json.load(open("/verif/known_findings.json"))["findings"] if k.get("status") == "known"}
bad = []
with ThreadPoolExecutor(max_workers=int(os.environ.get("SWEEP_JOBS", "12"))) as ex:
    for (pid, i, sm), rep in ex.map(one, jobs):
        tried = rep.get("tried") or [rep]
        exc = tried[0].get("exception") if tried else None
        if rep.get("reproduced") and (pid, sm["obligation"]) in KNOWN_OBS:
            print("known    ", pid, sm["obligation"], "(a listed known finding shows on this witness)", flush=True)
        elif rep.get("reproduced"):
            bad.append((pid, sm["obligation"]))
            print("DISAGREES", pid, sm["obligation"], json.dumps(sm["param"])[:160], rep.get("failed_atoms"), str(rep.get("exception"))[:300], flush=True)
        elif exc:
            print("stopped  ", pid, sm["obligation"], f"{exc[0]}: {exc[1][:100]}", flush=True)
print(f"{len(jobs)} witnesses replayed, {len(bad)} disagreements")
sys.exit(1 if bad else 0)
