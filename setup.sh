#!/bin/bash
# Build the overlay venv used by every check: /venv's interpreter and site-packages (the
# repository's own environment, untouched) + z3-solver and crosshair-tool from the offline
# wheelhouse.  Idempotent; safe to call concurrently (mkdir lock).
set -euo pipefail
cd "$(dirname "$0")"
V=.venv
if [ -x "$V/bin/python" ] && "$V/bin/python" -c 'import z3, numpy, affine' 2>/dev/null; then
  exit 0
fi
LOCK=.venv.lock
while ! mkdir "$LOCK" 2>/dev/null; do sleep 1; done
trap 'rmdir "$LOCK" 2>/dev/null || true' EXIT
if [ -x "$V/bin/python" ] && "$V/bin/python" -c 'import z3, numpy, affine' 2>/dev/null; then
  exit 0
fi
rm -rf "$V"
/venv/bin/python -m venv "$V"
SP=$("$V/bin/python" -c 'import sysconfig; print(sysconfig.get_paths()["purelib"])')
echo "import site; site.addsitedir('/venv/lib/python3.12/site-packages')" > "$SP/_base.pth"
PIP_NO_INDEX=1 "$V/bin/pip" install -q --no-index --find-links /opt/veriftools/wheels z3-solver crosshair-tool >/dev/null
"$V/bin/python" -c 'import z3, numpy, affine; print("overlay venv ready: z3", z3.get_version_string())'
