"""Obligation registry, parallel job execution, replay, known findings, evidence."""
from __future__ import annotations

import dataclasses
import importlib
import json
import multiprocessing as mp
import os
import random
import re
import subprocess
import sys
import time
import traceback
from typing import Any, Callable, Dict, List, Optional

ROOT = os.path.dirname(os.path.dirname(os.path.abspath(__file__)))
EXIT_OK, EXIT_VIOLATION, EXIT_HARNESS = 0, 1, 2
MAX_REPLAYS = int(os.environ.get("VERIF_MAX_REPLAYS", "12"))


@dataclasses.dataclass
class Ob:
    """One proof obligation: a harness run on every feasible path for every parameter point."""

    name: str
    fn: Callable[..., Any]
    params: Callable[[str, random.Random], List[dict]]  # (tier, rng) -> list of JSON-able dicts
    descr: str = ""
    functions: tuple = ()  # real functions executed
    bounds: str = ""  # symbolic variables / grids / counts, in words
    stubs: tuple = ()
    setup: Optional[Callable[[], None]] = None
    timeout_ms: int = 10000
    max_paths: int = 20000
    deadline_s: Optional[float] = 600.0
    expected_exc: tuple = ()
    custom: Optional[Callable[[dict, str], dict]] = None  # non-symx obligations (po encoding, fp)
    custom_replay: Optional[Callable[[dict, dict], Any]] = None
    min_paths: int = 1
    fresh_only: bool = False  # non-linear real arithmetic: skip the incremental core, use nlsat
    allow_unreached: tuple = ()


def fixed(*plist):
    """params helper: the same list for both tiers"""

    def gen(tier, rng):
        return [dict(p) for p in plist] if plist else [{}]

    return gen


def tiered(quick, thorough):
    def gen(tier, rng):
        return [dict(p) for p in (quick if tier == "quick" else thorough)]

    return gen


# ----------------------------------------------------------------------------------------------
def load_prop(pid: str):
    return importlib.import_module(f"vf.props.{pid.lower()}")


def _job(args):
    pid, ob_name, pidx, param, tier, known = args
    t0 = time.time()
    try:
        mod = load_prop(pid)
        ob = next(o for o in mod.OBLIGATIONS if o.name == ob_name)
        from . import symx

        if ob.setup is not None:
            ob.setup()
        if ob.custom is not None:
            r = ob.custom(param, tier)
        else:
            symx.KNOWN_REGIONS = [k for k in known if k.get("obligation") in (None, ob_name)]
            if tier == "thorough" and os.environ.get("VERIF_XCHECK", "1") != "0":
                xd = os.path.join(ROOT, ".xcheck", pid)
                os.makedirs(xd, exist_ok=True)
                symx.XCHECK.update(dir=xd, rate=0.02, max=3, n=0, rng=random.Random(hash((pid, ob_name, pidx)) & 0xFFFF), tag=f"{ob_name}_{pidx}")
            res = symx.explore(
                lambda: ob.fn(**param),
                timeout_ms=ob.timeout_ms,
                max_paths=ob.max_paths,
                expected_exc=ob.expected_exc,
                deadline_s=ob.deadline_s,
                fresh_only=ob.fresh_only,
            )
            r = res.as_dict()
        r.update(ob=ob_name, param=param, pidx=pidx, job_wall_s=time.time() - t0, error=None)
        return r
    except BaseException as e:  # noqa: BLE001
        return dict(
            ob=ob_name,
            param=param,
            pidx=pidx,
            error=f"{type(e).__name__}: {e}\n{traceback.format_exc()[-3000:]}",
            job_wall_s=time.time() - t0,
        )


def load_known() -> List[dict]:
    p = os.path.join(ROOT, "known_findings.json")
    if not os.path.exists(p):
        return []
    with open(p) as f:
        data = json.load(f)
    return data.get("findings", [])


def replay_file(pid: str, path: str) -> dict:
    """Replay a stored counterexample on the un-shimmed real code in a fresh interpreter."""
    pp = os.environ.get("PYTHONPATH", "")
    env = dict(os.environ, VF_CONCRETE="1", PYTHONPATH=pp if ROOT in pp.split(":") else (ROOT + (":" + pp if pp else "")))
    p = subprocess.run(
        [sys.executable, "-m", "vf.main", pid, "--replay-internal", path],
        cwd=ROOT,
        env=env,
        capture_output=True,
        text=True,
        timeout=600,
    )
    out = p.stdout.strip().splitlines()
    for line in reversed(out):
        if line.startswith("{"):
            try:
                return json.loads(line)
            except json.JSONDecodeError:
                continue
    return {"reproduced": False, "error": (p.stderr or p.stdout)[-2000:]}


def replay_internal(pid: str, path: str) -> dict:
    """(runs with VF_CONCRETE=1) execute the harness with the model's plain values."""
    from . import symx

    with open(path) as f:
        rec = json.load(f)
    mod = load_prop(pid)
    ob = next(o for o in mod.OBLIGATIONS if o.name == rec["obligation"])
    param = rec["param"]
    tried = []
    for model in rec["models"]:
        if ob.custom_replay is not None:
            out = ob.custom_replay(param, model)
            tried.append(out)
            if out.get("reproduced"):
                return out
            continue
        failures, exc = symx.run_concrete(
            lambda: ob.fn(**param), {**model, "__atom__": rec.get("label")}, expected_exc=ob.expected_exc
        )
        # an interface error of a harness stand-in (it lacks a method or a keyword the code under
        # test uses) is not a reproduction: the obligation stays inconclusive
        standin = bool(exc) and len(exc) > 3 and exc[3] == "stand-in"
        out = {"reproduced": bool(failures or (exc and exc[0] != "abort" and not standin)), "failed_atoms": failures, "exception": exc, "model": model,
               **({"note": "exception raised by an incomplete harness stand-in, not by the library"} if standin else {})}
        tried.append(out)
        if out["reproduced"]:
            return out
    return {"reproduced": False, "tried": tried}


def run_property(pid: str, tier: str, seed: int, jobs: int = 16, only: Optional[str] = None) -> int:
    t0 = time.time()
    mod = load_prop(pid)
    rng = random.Random(seed)
    known_all = load_known()
    known = [k for k in known_all if k.get("status") == "known" and k.get("property") == pid]
    work = []
    obs = [o for o in mod.OBLIGATIONS if only is None or o.name == only]
    for ob in obs:
        plist = ob.params(tier, rng)
        for i, p in enumerate(plist):
            work.append((pid, ob.name, i, p, tier, known))
    if not work:
        print(f"HARNESS-ERROR property={pid}: no obligations for tier {tier}")
        return EXIT_HARNESS
    # pre-flight self checks (model vs numpy etc.)
    pre = getattr(mod, "preflight", None)
    if pre is not None:
        try:
            pre()
        except Exception as e:  # noqa: BLE001
            print(f"HARNESS-ERROR property={pid}: preflight failed: {e}\n{traceback.format_exc()}")
            return EXIT_HARNESS
    results = []
    ctxm = mp.get_context("fork")
    nproc = max(1, min(jobs, len(work)))
    with ctxm.Pool(processes=nproc, maxtasksperchild=1) as pool:
        for r in pool.imap_unordered(_job, work, chunksize=1):
            results.append(r)
    results.sort(key=lambda r: (r["ob"], r["pidx"]))

    # ---- assemble verdicts
    os.makedirs(os.path.join(ROOT, "replays"), exist_ok=True)
    violations = 0
    harness_errors = 0
    known_hits = []
    nonrepro = []
    per_ob: Dict[str, dict] = {}
    samples = []
    tot = dict(paths=0, nontrivial=0, queries=0, solver_s=0.0, unsat=0, sat=0, unknown=0, atoms=0)
    obmap = {o.name: o for o in obs}
    n_replayed = 0
    suppressed = 0
    for r in results:
        o = per_ob.setdefault(
            r["ob"],
            dict(jobs=0, paths=0, nontrivial_paths=0, queries=0, solver_s=0.0, atoms_proved=0,
                 inconclusive=0, violations=0, known=0, errors=0, wall_s=0.0, exhausted=True,
                 unreached=[]),
        )
        o["jobs"] += 1
        o["wall_s"] += r.get("job_wall_s", 0.0)
        if r.get("error"):
            o["errors"] += 1
            harness_errors += 1
            print(f"HARNESS-ERROR property={pid} obligation={r['ob']} param={json.dumps(r['param'])}: {r['error']}")
            continue
        o["paths"] += r["paths"]
        o["nontrivial_paths"] += r["nontrivial_paths"]
        o["queries"] += r["queries"]
        o["solver_s"] += r["solver_s"]
        o["atoms_proved"] += r["atoms_proved"]
        o["inconclusive"] += len(r["inconclusive"])
        o["exhausted"] = o["exhausted"] and r.get("exhausted", True)
        for u in r.get("unreached", []):
            if u not in o["unreached"]:
                o["unreached"].append(u)
        tot["paths"] += r["paths"]
        tot["nontrivial"] += r["nontrivial_paths"]
        tot["queries"] += r["queries"]
        tot["solver_s"] += r["solver_s"]
        tot["unsat"] += r.get("unsat", 0)
        tot["sat"] += r.get("sat", 0)
        tot["unknown"] += r.get("unknown", 0)
        tot["atoms"] += r["atoms_proved"]
        # path witnesses (one per job, at most 48 per property): evidence of what was explored, and the
        # input of tools/replay_sweep.py, which pushes them through the concrete replay on the real code
        for s in r.get("samples", [])[:1]:
            if len(samples) < 48:
                samples.append({"obligation": r["ob"], "param": r["param"], **s})
        ob = obmap[r["ob"]]
        if r["paths"] < ob.min_paths and not r["violations"]:
            harness_errors += 1
            print(f"HARNESS-ERROR property={pid} obligation={r['ob']} param={json.dumps(r['param'])}: vacuous (only {r['paths']} feasible paths)")
        for inc in r["inconclusive"]:
            print(f"INCONCLUSIVE property={pid} obligation={r['ob']} param={json.dumps(r['param'])} {json.dumps(inc)[:300]}")
        for k in r.get("known_hits", []):
            known_hits.append((r["ob"], k, None))
        for vi, v in enumerate(r["violations"]):
            if violations >= 1 and n_replayed >= MAX_REPLAYS:
                # the verdict (exit 1) is already settled by a confirmed violation
                suppressed += 1
                continue
            n_replayed += 1
            rec = dict(property=pid, obligation=r["ob"], param=r["param"], label=v["label"],
                       models=v["models"], kind=v.get("kind"), traceback=v.get("traceback"),
                       schedule=v.get("schedule"))
            fn = os.path.join(ROOT, "replays", f"{pid}_{r['ob']}_{r['pidx']}_{vi}.json")
            with open(fn, "w") as f:
                json.dump(rec, f, indent=1, default=str)
            rep = replay_file(pid, fn)
            rec["replay"] = rep
            with open(fn, "w") as f:
                json.dump(rec, f, indent=1, default=str)
            if rep.get("reproduced"):
                kf = _match_known(known, r["ob"], v, rep)
                if kf is not None:
                    o["known"] += 1
                    known_hits.append((r["ob"], kf, v["label"]))
                else:
                    violations += 1
                    o["violations"] += 1
                    print(f"VIOLATION property={pid} replay={fn}")
                    print(f"  obligation={r['ob']} atom={v['label']!r} param={json.dumps(r['param'])}")
                    print(f"  model={json.dumps(rep.get('model', v['models'][0]))[:600]}")
                    print(f"  replay: failed_atoms={rep.get('failed_atoms')} exception={str(rep.get('exception'))[:300]}")
            else:
                nonrepro.append(fn)
                o["inconclusive"] += 1
                print(f"NONREPRODUCING property={pid} obligation={r['ob']} atom={v['label']!r} replay={fn} (model did not reproduce on the real code in binary64; obligation inconclusive)")
    if suppressed:
        print(f"NOTE property={pid}: {suppressed} further counterexample candidates were not replayed (cap {MAX_REPLAYS}); the obligations they belong to count as inconclusive")
    seen = set()
    for obn, kf, hit_label in known_hits:
        key = kf.get("id") or kf.get("what")
        if key in seen:
            continue
        seen.add(key)
        note = ""
        w = kf.get("witness")
        if w:
            # the listed witness is replayed on the real code on every run: the finding is only
            # reported as known while it still reproduces
            fn = os.path.join(ROOT, "replays", f"{pid}_{obn}_known_witness.json")
            with open(fn, "w") as f:
                json.dump(dict(property=pid, obligation=obn, param=w["param"], label=hit_label or kf.get("label_re", "").strip("^$"), models=[w["model"]]), f, indent=1)
            rep = replay_file(pid, fn)
            note = " [witness reproduces on the real code]" if rep.get("reproduced") else " [witness NO LONGER reproduces: the entry in known_findings.json is stale]"
        print(f"KNOWN-FINDING: property={pid} {kf.get('what')}{note}")

    xcheck = None
    if tier == "thorough" and os.environ.get("VERIF_XCHECK", "1") != "0":
        xcheck = second_solver_stage(pid, seed)
        for obn in xcheck.get("disagreements_by_obligation", {}):
            if obn in per_ob:
                per_ob[obn]["inconclusive"] += 1
    n_ob = len(per_ob)
    discharged = sum(
        1 for o in per_ob.values()
        if not o["violations"] and not o["inconclusive"] and not o["errors"] and not o["known"] and o["exhausted"]
    )
    wall = time.time() - t0
    ev = {
        "property_id": pid,
        "tier": tier,
        "seed": seed,
        "level": "other",
        "coverage": {
            "explanation": getattr(mod, "EXPLANATION", "") + (
                " Verdicts: every feasible symbolic path of the real functions is executed; each property atom is"
                " decided by z3 (unsat = holds for all values driving that path). Counts below are measured on this run."
            ),
            "obligations": n_ob,
            "discharged": discharged,
            "inconclusive_obligations": sorted(k for k, o in per_ob.items() if o["inconclusive"] or not o["exhausted"]),
            "evaluations": tot["paths"],
            "distinct_nontrivial": tot["nontrivial"],
            "rule": "one evaluation = one feasible symbolic path (distinct decision sequence with satisfiable path condition) "
                    "through the real code for one grid point; non-trivial = at least one property atom on that path needed a solver "
                    "query and came back unsat (atoms that simplify to True syntactically are not counted)",
            "atoms_proved": tot["atoms"],
            "queries": tot["queries"],
            "queries_unsat": tot["unsat"],
            "queries_sat": tot["sat"],
            "queries_unknown": tot["unknown"],
            "solver_s": round(tot["solver_s"], 2),
            "solver": "z3 " + _z3v(),
            "per_obligation": {
                k: {**{kk: (round(vv, 2) if isinstance(vv, float) else vv) for kk, vv in o.items()},
                    "descr": obmap[k].descr, "functions": list(obmap[k].functions),
                    "bounds": obmap[k].bounds, "stubs": list(obmap[k].stubs)}
                for k, o in per_ob.items()
            },
            "slowest_jobs": [
                {"obligation": r["ob"], "param": r["param"], "wall_s": round(r.get("job_wall_s", 0.0), 1), "paths": r.get("paths")}
                for r in sorted(results, key=lambda r: -r.get("job_wall_s", 0.0))[:5]
            ],
            "samples": samples or [{"note": "no path with a non-empty path condition"}],
            "second_solver": xcheck,
            "nonreproducing_models": nonrepro,
            "known_findings_hit": [kf.get("what") for _, kf, _l in known_hits],
            "exhaustive": all(o["exhausted"] for o in per_ob.values()) and harness_errors == 0,
        },
        "assumptions": list(getattr(mod, "ASSUMPTIONS", [])),
        "wall_s": round(wall, 2),
        "violations": violations,
    }
    evdir = "evidence" if not os.environ.get("VERIF_REPO") else "evidence-scratch"  # never mix scratch runs into the evidence
    os.makedirs(os.path.join(ROOT, evdir), exist_ok=True)
    with open(os.path.join(ROOT, evdir, f"{pid}.json"), "w") as f:
        json.dump(ev, f, indent=1, default=str)
    print(
        f"SUMMARY property={pid} tier={tier} obligations={n_ob} discharged={discharged} "
        f"paths={tot['paths']} atoms_proved={tot['atoms']} queries={tot['queries']} "
        f"solver_s={tot['solver_s']:.1f} wall_s={wall:.1f} violations={violations} "
        f"inconclusive={sum(1 for o in per_ob.values() if o['inconclusive'])} harness_errors={harness_errors}"
    )
    if violations:
        return EXIT_VIOLATION
    if harness_errors:
        return EXIT_HARNESS
    return EXIT_OK


def second_solver_stage(pid: str, seed: int, limit: int = 48) -> dict:
    """DESIGN 3.7/5: re-decide a seeded sample of the dumped atom queries with /usr/bin/z3 4.8.12
    and the cvc5 1.0.3 binary.  A definite answer that contradicts ours makes the obligation
    inconclusive (printed prominently); `(error` lines and timeouts are only counted."""
    import glob
    import shutil

    xd = os.path.join(ROOT, ".xcheck", pid)
    files = sorted(glob.glob(os.path.join(xd, "*.smt2")))
    rng = random.Random(seed + 7)
    rng.shuffle(files)
    files = files[:limit]
    out = dict(sampled=len(files), z3_4_8_agree=0, cvc5_agree=0, z3_4_8_other=0, cvc5_other=0, errors=0, disagreements=[], disagreements_by_obligation={})
    solvers = []
    if shutil.which("/usr/bin/z3"):
        solvers.append(("z3_4_8", ["/usr/bin/z3", "-T:20"]))
    if shutil.which("cvc5"):
        solvers.append(("cvc5", ["cvc5", "--tlimit=20000", "--lang=smt2"]))

    def run_one(args):
        name, cmd, fn = args
        try:
            p = subprocess.run(cmd + [fn], capture_output=True, text=True, timeout=40)
            txt = (p.stdout + p.stderr).strip()
        except subprocess.TimeoutExpired:
            txt = "timeout"
        return name, fn, txt

    tasks = [(n, c, f) for f in files for n, c in solvers]
    from concurrent.futures import ThreadPoolExecutor

    with ThreadPoolExecutor(max_workers=16) as ex:
        results = list(ex.map(run_one, tasks))
    for name, fn, txt in results:
        with open(fn) as f:
            expected = f.readline().split(":")[-1].strip()
        first = txt.splitlines()[0].strip() if txt else ""
        if "(error" in txt:
            out["errors"] += 1
            out[name + "_other"] += 1
        elif first in ("sat", "unsat"):
            if first == expected:
                out[name + "_agree"] += 1
            else:
                obn = os.path.basename(fn).rsplit("_", 2)[0]
                out["disagreements"].append({"file": fn, "solver": name, "ours": expected, "theirs": first})
                out["disagreements_by_obligation"][obn] = out["disagreements_by_obligation"].get(obn, 0) + 1
                print(f"SOLVER-DISAGREEMENT property={pid} obligation={obn} solver={name} ours={expected} theirs={first} query={fn} (obligation counted as inconclusive)")
        else:
            out[name + "_other"] += 1
    shutil.rmtree(xd, ignore_errors=True)
    print(f"SECOND-SOLVER property={pid}: {out['sampled']} sampled atom queries; z3 4.8.12 agrees on {out['z3_4_8_agree']} (no answer {out['z3_4_8_other']}), cvc5 1.0.3 agrees on {out['cvc5_agree']} (no answer {out['cvc5_other']}), disagreements {len(out['disagreements'])}")
    return out


def _z3v():
    try:
        import z3

        return z3.get_version_string()
    except Exception:  # noqa: BLE001
        return "?"


def _match_known(known, ob_name, v, rep) -> Optional[dict]:
    """A reproduced violation is a known finding only if an entry lists this obligation and the
    model lies inside the entry's region (a Python predicate over the model's variables)."""
    model = rep.get("model") or (v["models"][0] if v.get("models") else {})
    for k in known:
        if k.get("obligation") not in (None, ob_name):
            continue
        # what the real code showed in the replay decides: the atoms that failed there (all of them
        # must be listed), else the label of the symbolic candidate
        labels = [a for a in (rep.get("failed_atoms") or []) if isinstance(a, str)] or [v["label"]]
        if k.get("label_re") and not all(re.search(k["label_re"], lb) for lb in labels):
            continue
        region = k.get("region")
        if region:
            try:
                from fractions import Fraction

                env = {}
                for n, val in model.items():
                    env[n] = Fraction(val) if isinstance(val, str) and re.fullmatch(r"-?\d+(/\d+)?", val) else val
                if not eval(region, {"__builtins__": {}, "abs": abs, "min": min, "max": max}, env):  # noqa: S307
                    continue
            except Exception:  # noqa: BLE001
                continue
        return k
    return None
