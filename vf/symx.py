r"""symx -- shadow symbolic execution of real Python functions over z3 terms.

Symbolic values (SymInt / SymReal / SymBool) are ordinary Python objects wrapping z3 terms.
Arithmetic on them builds terms; truth-testing a symbolic condition is a *fork*: the explorer asks
z3 which outcomes are feasible under the current path condition, follows one and queues the other
(depth first, by re-execution with a recorded decision prefix).  A harness is a plain Python
function that creates inputs with Int()/Real()/Bool()/const(), calls the real code and states the
property with prove(label, cond): z3 decides  path /\ assumptions /\ not cond.

The same harness runs in *concrete mode* (replay): Int()/Real() return the model's plain Python
values, prove() evaluates an ordinary bool -- against the un-shimmed real modules.
"""
from __future__ import annotations

import fractions
import math
import os
import time
from typing import Any, Callable, Dict, List, Optional

import z3

F = fractions.Fraction


class Abort(BaseException):
    """The engine cannot represent what the code did on this path: path is inconclusive."""


class Unsupported(Abort):
    """A model/fake was asked for something it does not implement."""


class HarnessBug(BaseException):
    """a mistake in the harness itself (never a verdict): propagates to a harness error, exit 2"""


class _PathDone(BaseException):
    """Raised by prove()/fail() to end a path early after a violation was recorded."""


# ----------------------------------------------------------------------------------------------
# context
# ----------------------------------------------------------------------------------------------
class Ctx:
    cur: Optional["Ctx"] = None

    def __init__(self, timeout_ms=10000, max_paths=20000, model_vals=None):
        self.concrete = model_vals is not None
        self.model_vals = model_vals or {}
        self.timeout_ms = timeout_ms
        self.max_paths = max_paths
        self.solver = None
        self.incr_timeout_ms = min(timeout_ms, 4000)
        self.n_fallback = 0
        self.fresh_only = False
        if not self.concrete:
            self.solver = z3.Solver()
            self.solver.set("timeout", self.incr_timeout_ms)
        self.prefix: List[bool] = []
        self.trace: List[bool] = []
        self.pc: List[Any] = []
        self.pending: List[List[bool]] = []
        self.vars: Dict[str, Any] = {}
        self.var_kinds: Dict[str, str] = {}
        self.fresh_n = 0
        # statistics
        self.nqueries = 0
        self.solver_s = 0.0
        self.n_unsat = 0
        self.n_sat = 0
        self.n_unknown = 0
        self.n_bvint = 0
        self.bitops = False
        self.atoms_proved = 0
        self.atoms_trivial = 0
        self.path_atoms = 0
        self.path_nontrivial = False
        self.notes: List[str] = []
        self.depth = 0
        # concrete-mode outcome
        self.concrete_failures: List[str] = []
        # reachability of implication antecedents: label -> bool
        self.reach: Dict[str, bool] = {}
        self.known_hits: List[dict] = []
        self.floors: List[Any] = []  # (base term, constant, to_int term) of this path, see _to_int

    # -- solver plumbing -----------------------------------------------------------------------
    def _push(self, term):
        self.solver.push()
        self.solver.add(term)
        self.depth += 1

    def reset_path(self):
        if self.solver is not None:
            while self.depth > 0:
                self.solver.pop()
                self.depth -= 1
        self.trace = []
        self.pc = []
        self.floors = []
        self.vars = {}
        self.var_kinds = {}
        self.fresh_n = 0
        self.bitops = False
        self.path_atoms = 0
        self.path_nontrivial = False

    def check(self, *extra, timeout_ms=None):
        """Satisfiability of path condition /\\ extra.  Returns ('sat'|'unsat'|'unknown', model)."""
        self.nqueries += 1
        t = time.time()
        s = self.solver
        if timeout_ms is not None:
            s.set("timeout", min(timeout_ms, self.incr_timeout_ms))
        s.push()
        for e in extra:
            s.add(e)
        if self.bitops:
            # bit operators on integers: the mixed integer/bit-vector query is re-encoded in wide
            # bit-vectors (vf/bvint.py; exactness is itself checked there)
            r, m = self._check_bitops(extra, timeout_ms)
        else:
            r, m = z3.unknown, None
        if r != z3.unknown:
            pass
        elif self.fresh_only:
            r, m = z3.unknown, None
        else:
            r = s.check()
            m = s.model() if r == z3.sat else None
        s.pop()
        if timeout_ms is not None:
            s.set("timeout", self.incr_timeout_ms)
        if r == z3.unknown:
            # the incremental core is weak on non-linear arithmetic; a fresh, non-incremental
            # solver runs z3's full tactic pipeline (nlsat for polynomial real arithmetic)
            self.n_fallback += 1
            s2 = z3.Solver()
            s2.set("timeout", timeout_ms if timeout_ms is not None else self.timeout_ms)
            for p in self.pc:
                s2.add(p)
            for e in extra:
                s2.add(e)
            r = s2.check()
            m = s2.model() if r == z3.sat else None
        self.solver_s += time.time() - t
        rs = str(r)
        if rs == "sat":
            self.n_sat += 1
        elif rs == "unsat":
            self.n_unsat += 1
        else:
            self.n_unknown += 1
        return rs, m

    def _check_bitops(self, extra, timeout_ms):
        from . import bvint

        terms = list(self.pc) + list(extra)
        if not bvint.has_bitops(terms):
            return z3.unknown, None
        got = bvint.decide(terms, timeout_ms if timeout_ms is not None else self.timeout_ms)
        if got is None:
            return z3.unknown, None
        self.n_bvint += 1
        if got[0] == "unsat":
            return z3.unsat, None
        # integer values of the variables from the bit-vector model: confirmed by the integer
        # solver with the variables pinned
        s2 = z3.Solver()
        s2.set("timeout", 20000)
        s2.add(*terms)
        for nm, v in got[1].items():
            s2.add(z3.Int(nm) == v)
        if s2.check() == z3.sat:
            return z3.sat, s2.model()
        return z3.unknown, None

    def add(self, term):
        """Add an assumption / decided branch to the path condition."""
        self.pc.append(term)
        self._push(term)

    def add_axiom(self, term):
        """Defining equations of a fresh variable introduced by a model (sqrt, Cholesky, ...).
        A model must never make the path infeasible: that would prove everything vacuously."""
        self.add(term)
        r, _ = self.check()
        if r == "unsat":
            raise HarnessBug(f"model axiom made the path infeasible: {str(term)[:200]}")

    def decide(self, cond) -> bool:
        cond = z3.simplify(cond)
        if z3.is_true(cond):
            return True
        if z3.is_false(cond):
            return False
        i = len(self.trace)
        if i < len(self.prefix):
            d = self.prefix[i]
        else:
            rt, _ = self.check(cond)
            if rt == "unknown":
                raise Abort("solver unknown at branch")
            if rt == "unsat":
                d = False  # path condition is satisfiable by construction, so not-cond is feasible
            else:
                rf, _ = self.check(z3.Not(cond))
                if rf == "unknown":
                    raise Abort("solver unknown at branch")
                d = True
                if rf == "sat":
                    self.pending.append(self.trace + [False])
        self.trace.append(d)
        self.add(cond if d else z3.Not(cond))
        return d


def ctx() -> Ctx:
    c = Ctx.cur
    if c is None:
        raise RuntimeError("no symx context active")
    return c


def active() -> bool:
    return Ctx.cur is not None


def concrete_mode() -> bool:
    c = Ctx.cur
    return c is not None and c.concrete


# ----------------------------------------------------------------------------------------------
# lifting
# ----------------------------------------------------------------------------------------------
def _z(x):
    if isinstance(x, Sym):
        return x.t
    if isinstance(x, bool):
        return z3.BoolVal(x)
    if isinstance(x, int):
        return z3.IntVal(x)
    if isinstance(x, float):
        if x != x or x in (math.inf, -math.inf):
            raise Abort("non-finite float literal meets symbolic value")
        return z3.RealVal(str(F(x)))
    if isinstance(x, F):
        return z3.RealVal(str(x))
    try:
        import numpy as _np

        if isinstance(x, _np.integer):
            return z3.IntVal(int(x))
        if isinstance(x, _np.floating):
            return _z(float(x))
        if isinstance(x, _np.bool_):
            return z3.BoolVal(bool(x))
    except ImportError:  # pragma: no cover
        pass
    raise TypeError(f"cannot lift {type(x)}")


def _is_int(t):
    return t.sort() == z3.IntSort()


def _coerce(a, b):
    a, b = _z(a), _z(b)
    if z3.is_bool(a):
        a = z3.If(a, z3.IntVal(1), z3.IntVal(0))
    if z3.is_bool(b):
        b = z3.If(b, z3.IntVal(1), z3.IntVal(0))
    if _is_int(a) and not _is_int(b):
        a = z3.ToReal(a)
    if _is_int(b) and not _is_int(a):
        b = z3.ToReal(b)
    return a, b


def wrap(t):
    if z3.is_bool(t):
        return SymBool(z3.simplify(t))
    t = z3.simplify(t)
    return SymInt(t) if _is_int(t) else SymReal(t)


def is_sym(x) -> bool:
    return isinstance(x, Sym)


class Sym:
    def __deepcopy__(self, memo):  # symbolic values are immutable: a clone shares the term
        return self

    def __copy__(self):
        return self

    __slots__ = ("t",)

    def __init__(self, t):
        self.t = t

    def __hash__(self):
        raise TypeError("unhashable symbolic value")

    def __repr__(self):
        return f"<{type(self).__name__} {self.t}>"

    __str__ = __repr__

    def __format__(self, spec):
        return f"<sym {self.t}>"


class SymBool(Sym):
    __slots__ = ()

    def __bool__(self):
        return ctx().decide(self.t)

    def __and__(self, o):
        if isinstance(o, (bool, SymBool)):
            return SymBool(z3.simplify(z3.And(self.t, _z(o))))
        return NotImplemented

    def __or__(self, o):
        if isinstance(o, (bool, SymBool)):
            return SymBool(z3.simplify(z3.Or(self.t, _z(o))))
        return NotImplemented

    def __xor__(self, o):
        if isinstance(o, (bool, SymBool)):
            return SymBool(z3.simplify(z3.Xor(self.t, _z(o))))
        return NotImplemented

    def __invert__(self):
        return SymBool(z3.simplify(z3.Not(self.t)))

    __rand__ = __and__
    __ror__ = __or__
    __rxor__ = __xor__

    def __eq__(self, o):
        if isinstance(o, (bool, SymBool)):
            return SymBool(z3.simplify(self.t == _z(o)))
        if isinstance(o, (int, SymInt)):
            return self._as_int() == o
        return False

    def __ne__(self, o):
        r = self.__eq__(o)
        return ~r if isinstance(r, SymBool) else not r

    def _as_int(self):
        return SymInt(z3.If(self.t, z3.IntVal(1), z3.IntVal(0)))

    # bools take part in arithmetic as 0/1 (``keep = mask0 * mask1`` in roi_from_points)
    def __mul__(self, o):
        if isinstance(o, SymBool):
            return self & o
        if isinstance(o, bool):
            return self & o
        return self._as_int() * o

    __rmul__ = __mul__

    def __add__(self, o):
        return self._as_int() + o

    __radd__ = __add__

    __hash__ = Sym.__hash__


def _floordiv_int(a, b):
    # Python floor division on ints; z3 div is Euclidean (remainder always >= 0)
    q = a / b
    return z3.If(b > 0, q, z3.If(a % b == 0, q, q - 1))


def _lin_over_ints(t):
    """If the real term t is  c0 + sum c_i * to_real(n_i)  with rational c_i and int-sorted n_i,
    return (dict{int-term -> Fraction}, c0) else None."""
    k = t.decl().kind()
    if z3.is_rational_value(t):
        return {}, F(t.numerator_as_long(), t.denominator_as_long())
    if k == z3.Z3_OP_TO_REAL:
        return {t.arg(0): F(1)}, F(0)
    if k == z3.Z3_OP_UMINUS:
        r = _lin_over_ints(t.arg(0))
        if r is None:
            return None
        return {x: -c for x, c in r[0].items()}, -r[1]
    if k == z3.Z3_OP_ADD or k == z3.Z3_OP_SUB:
        acc, c0 = {}, F(0)
        for idx, ch in enumerate(t.children()):
            r = _lin_over_ints(ch)
            if r is None:
                return None
            sign = -1 if (k == z3.Z3_OP_SUB and idx > 0) else 1
            for x, c in r[0].items():
                key = next((y for y in acc if y.eq(x)), x)
                acc[key] = acc.get(key, F(0)) + sign * c
            c0 += sign * r[1]
        return acc, c0
    if k == z3.Z3_OP_MUL:
        ch = t.children()
        consts = [c for c in ch if z3.is_rational_value(c)]
        rest = [c for c in ch if not z3.is_rational_value(c)]
        if len(rest) != 1:
            return None
        r = _lin_over_ints(rest[0])
        if r is None:
            return None
        m = F(1)
        for c in consts:
            m *= F(c.numerator_as_long(), c.denominator_as_long())
        return {x: c * m for x, c in r[0].items()}, r[1] * m
    return None


def _split_const(t):
    """t == base + k with k a rational numeral (k = 0 when there is none)"""
    if z3.is_rational_value(t):
        return None
    if t.decl().kind() == z3.Z3_OP_ADD:
        k, rest = F(0), []
        for ch in t.children():
            if z3.is_rational_value(ch):
                k += F(ch.numerator_as_long(), ch.denominator_as_long())
            else:
                rest.append(ch)
        if not rest:
            return None
        return (z3.simplify(z3.Sum(rest)) if len(rest) > 1 else rest[0]), k
    return t, F(0)


def _to_int(t):
    """to_int(t), plus the lemma z3 does not find by itself: two floors whose arguments differ by
    a constant d differ by floor(d) or floor(d)+1 (a tautology, added to the path condition)."""
    ti = z3.ToInt(t)
    c = Ctx.cur
    if c is None or c.concrete or c.solver is None:
        return ti
    sp = _split_const(t)
    if sp is None:
        return ti
    base, k = sp
    for b2, k2, ti2 in c.floors:
        if b2.eq(base):
            if k2 == k:
                return ti2
            d = k - k2
            fl = d.numerator // d.denominator
            c.add(ti - ti2 == fl if d.denominator == 1 else z3.And(ti - ti2 >= fl, ti - ti2 <= fl + 1))
    c.floors.append((base, k, ti))
    return ti


def _floor_core(t):
    # floor(x / q) == floor(x) div q for a positive integer q: one canonical to_int(x) per x
    if t.decl().kind() == z3.Z3_OP_MUL and t.num_args() == 2:
        c, u = t.arg(0), t.arg(1)
        if z3.is_rational_value(u):
            c, u = u, c
        if z3.is_rational_value(c) and c.numerator_as_long() == 1 and c.denominator_as_long() > 1:
            return _floor_real(u) / c.denominator_as_long()
    return _to_int(t)


def _floor_real(t):
    """floor of a real term.  A rational-affine combination of integer terms becomes an integer
    division by a constant (z3 decides `div` by constants well, and to_int of to_real badly)."""
    t = z3.simplify(t)
    r = _lin_over_ints(t)
    if r is None and t.decl().kind() == z3.Z3_OP_ADD:
        # integer addends come out of the floor: floor(n + x) = n + floor(x)
        ipart, rest = [], []
        for ch in t.children():
            if z3.is_rational_value(ch):
                # numeral: whole part comes out, the fractional part in [0,1) stays (canonical)
                q = F(ch.numerator_as_long(), ch.denominator_as_long())
                n = q.numerator // q.denominator
                if n != 0:
                    ipart.append(z3.IntVal(n))
                if q - n != 0:
                    rest.append(z3.RealVal(str(q - n)))
                continue
            rr = _lin_over_ints(ch)
            if rr is not None and all(c.denominator == 1 for c in rr[0].values()) and rr[1].denominator == 1:
                e = z3.IntVal(int(rr[1]))
                for x, c in rr[0].items():
                    e = e + int(c) * x
                ipart.append(e)
            else:
                rest.append(ch)
        if ipart and rest:
            rs = z3.simplify(z3.Sum(rest)) if len(rest) > 1 else rest[0]
            return z3.simplify(z3.Sum(ipart) + _floor_core(rs))
    if r is None:
        return _floor_core(t)
    if r is not None and r[0]:
        coeffs, c0 = r
        Q = 1
        for c in list(coeffs.values()) + [c0]:
            Q = Q * c.denominator // math.gcd(Q, c.denominator)
        e = z3.IntVal(int(c0 * Q))
        for x, c in coeffs.items():
            e = e + int(c * Q) * x
        if Q == 1:
            return z3.simplify(e)
        return e / Q  # z3 int division is floor for a positive divisor
    return z3.ToInt(t)


def _ceil_real(t):
    f = _floor_real(t)
    return z3.If(z3.ToReal(f) == t, f, f + 1)


class SymNum(Sym):
    __slots__ = ()

    def _bin(self, o, f, rev=False):
        try:
            a, b = _coerce(self, o)
        except TypeError:
            return NotImplemented
        if rev:
            a, b = b, a
        return wrap(f(a, b))

    def __add__(self, o):
        return self._bin(o, lambda a, b: a + b)

    def __radd__(self, o):
        return self._bin(o, lambda a, b: a + b, True)

    def __sub__(self, o):
        return self._bin(o, lambda a, b: a - b)

    def __rsub__(self, o):
        return self._bin(o, lambda a, b: a - b, True)

    def __mul__(self, o):
        return self._bin(o, lambda a, b: a * b)

    def __rmul__(self, o):
        return self._bin(o, lambda a, b: a * b, True)

    def __neg__(self):
        return wrap(-self.t)

    def __pos__(self):
        return self

    def __abs__(self):
        return wrap(z3.If(self.t >= 0, self.t, -self.t))

    def _div(self, o, rev=False):
        try:
            a, b = _z(self), _z(o)
            if z3.is_bool(a) or z3.is_bool(b):
                a, b = _coerce(self, o)
        except TypeError:
            return NotImplemented
        if rev:
            a, b = b, a
        if _is_int(b) and not z3.is_int_value(z3.simplify(b)):
            # a symbolic integer divisor whose value is forced by the path condition (e.g. a
            # read-shrink factor int(k + eps)) is replaced by that value: keeps x / n linear
            c = ctx()
            r0, m0 = c.check()
            if r0 == "sat":
                v = m0.eval(b, model_completion=True)
                r1, _ = c.check(b != v)
                if r1 == "unsat":
                    b = v
        if _is_int(a):
            a = z3.ToReal(a)
        if _is_int(b):
            b = z3.ToReal(b)
        if ctx().decide(b == 0):
            raise ZeroDivisionError("division by zero")
        # reciprocal parametrisation: 1/(1/u) == u (u != 0 was decided when 1/u was formed)
        a = z3.simplify(a)
        bs = z3.simplify(b)
        if z3.is_rational_value(a) and bs.decl().kind() == z3.Z3_OP_DIV:
            num, den = bs.arg(0), bs.arg(1)
            if z3.is_rational_value(num) and num.numerator_as_long() != 0:
                return wrap(a * den / num)
        return wrap(a / b)

    def __truediv__(self, o):
        return self._div(o)

    def __rtruediv__(self, o):
        return self._div(o, True)

    def _fdiv(self, o, rev=False):
        try:
            a, b = _coerce(self, o)
        except TypeError:
            return NotImplemented
        if rev:
            a, b = b, a
        if ctx().decide(b == 0):
            raise ZeroDivisionError("integer division or modulo by zero")
        if _is_int(a):
            return wrap(_floordiv_int(a, b))
        return wrap(z3.ToReal(_floor_real(a / b)))

    def __floordiv__(self, o):
        return self._fdiv(o)

    def __rfloordiv__(self, o):
        return self._fdiv(o, True)

    def _mod(self, o, rev=False):
        try:
            a, b = _coerce(self, o)
        except TypeError:
            return NotImplemented
        if rev:
            a, b = b, a
        if ctx().decide(b == 0):
            raise ZeroDivisionError("integer division or modulo by zero")
        if _is_int(a):
            return wrap(a - b * _floordiv_int(a, b))
        return wrap(a - b * z3.ToReal(_floor_real(a / b)))

    def __mod__(self, o):
        return self._mod(o)

    def __rmod__(self, o):
        return self._mod(o, True)

    def __divmod__(self, o):
        return self // o, self % o

    def __pow__(self, o):
        if isinstance(o, int) and not isinstance(o, bool) and 0 <= o <= 4:
            r = 1
            for _ in range(o):
                r = r * self
            return r
        if o == -1:
            return 1.0 / self
        if o == 0.5:
            return s_sqrt(self)
        if o == -0.5:
            return 1.0 / s_sqrt(self)
        raise Abort("pow with unsupported exponent")

    def __rpow__(self, o):
        # 2 ** n for small symbolic n: case split through __index__
        if isinstance(self, SymInt) and isinstance(o, int):
            n = self.__index__()
            return o**n
        raise Abort("rpow")

    def _cmp(self, o, f):
        try:
            a, b = _coerce(self, o)
        except TypeError:
            return NotImplemented
        return SymBool(z3.simplify(f(a, b)))

    def __lt__(self, o):
        return self._cmp(o, lambda a, b: a < b)

    def __le__(self, o):
        return self._cmp(o, lambda a, b: a <= b)

    def __gt__(self, o):
        return self._cmp(o, lambda a, b: a > b)

    def __ge__(self, o):
        return self._cmp(o, lambda a, b: a >= b)

    def __eq__(self, o):
        if o is None:
            return False
        r = self._cmp(o, lambda a, b: a == b)
        return False if r is NotImplemented else r

    def __ne__(self, o):
        if o is None:
            return True
        r = self._cmp(o, lambda a, b: a != b)
        return True if r is NotImplemented else r

    def __bool__(self):
        return ctx().decide(self.t != 0)

    __hash__ = Sym.__hash__


class SymInt(SymNum):
    __slots__ = ()

    def __index__(self):
        return _sym_index(self)

    def __floor__(self):
        return self

    def __ceil__(self):
        return self

    def __trunc__(self):
        return self

    def __round__(self, nd=None):
        return self

    def __int__(self):
        # CPython insists on a real int here: realise by case split (small ranges only)
        return _sym_index(self)

    def __lshift__(self, o):
        if isinstance(o, int):
            return self * (1 << o)
        raise Abort("lshift by symbolic")

    # bitwise operators on non-negative integers below 2^64 (through 64-bit bit-vectors)
    def _bitop(self, o, f):
        if isinstance(o, SymInt):
            b = o.t
        elif isinstance(o, int) and not isinstance(o, bool):
            b = z3.IntVal(o)
        else:
            return NotImplemented
        c = ctx()
        if c.decide(z3.Or(self.t < 0, self.t >= 2**64, b < 0, b >= 2**64)):
            raise Abort("bitwise operator outside 0 .. 2^64-1")
        c.bitops = True
        return SymInt(z3.BV2Int(f(z3.Int2BV(self.t, 64), z3.Int2BV(b, 64))))

    def __or__(self, o):
        return self._bitop(o, lambda a, b: a | b)

    __ror__ = __or__

    def __and__(self, o):
        return self._bitop(o, lambda a, b: a & b)

    __rand__ = __and__

    def __xor__(self, o):
        return self._bitop(o, lambda a, b: a ^ b)

    __rxor__ = __xor__

    def bit_length(self):
        """int.bit_length for |x| < 2^64 (one ite per bit)"""
        t = self.t
        c = ctx()
        if c.decide(z3.Or(t >= 2**64, t <= -(2**64))):
            raise Abort("bit_length beyond 64 bits")
        a = z3.If(t >= 0, t, -t)
        r = z3.IntVal(64)
        for k in range(63, -1, -1):
            r = z3.If(a < 2**k, z3.IntVal(k), r)
        return SymInt(z3.simplify(r))

    def __rlshift__(self, o):
        n = self.__index__()
        return o << n

    def __rshift__(self, o):
        if isinstance(o, int):
            return self // (1 << o)
        raise Abort("rshift by symbolic")


class SymReal(SymNum):
    __slots__ = ()

    def __floor__(self):
        return SymInt(z3.simplify(_floor_real(self.t)))

    def __ceil__(self):
        # fork on integrality instead of an ite term (results feed clamps and further floors)
        f = _floor_real(self.t)
        fs = z3.simplify(z3.ToReal(f) == self.t)
        if z3.is_true(fs):
            return SymInt(z3.simplify(f))
        if CEIL_FORKS:
            if ctx().decide(fs):
                return SymInt(z3.simplify(f))
            return SymInt(z3.simplify(f + 1))
        return wrap(_ceil_real(self.t))

    def __trunc__(self):
        return s_trunc(self)

    def __round__(self, nd=None):
        if nd is not None and nd != 0:
            raise Abort("round(x, ndigits) on symbolic real")
        t = self.t
        f = _floor_real(t)
        h = _floor_real(t + z3.RealVal("1/2"))
        r = z3.If(t != z3.ToReal(f) + z3.RealVal("1/2"), h, z3.If(f % 2 == 0, f, f + 1))
        # round(x, 0) is the same number as a float
        return wrap(z3.simplify(z3.ToReal(r))) if nd == 0 else wrap(r)

    def __float__(self):
        raise Abort("float() on symbolic real reached a C boundary")

    def is_integer(self):
        return SymBool(z3.simplify(z3.ToReal(z3.ToInt(self.t)) == self.t))


def _sym_index(x: SymInt) -> int:
    """Concretisation by case split: feasible values of x are enumerated (<= 64) and the run
    forks once per value."""
    c = ctx()
    t = z3.simplify(x.t)
    if z3.is_int_value(t):
        return t.as_long()
    for _ in range(65):
        i = len(c.trace)
        if i < len(c.prefix):
            # replaying: the candidate value is part of the recorded decision (models are not
            # reproducible between runs, the decision sequence must be)
            v, d = c.prefix[i]
            c.trace.append((v, d))
            c.add(t == v if d else t != v)
            if d:
                return v
            continue
        r, m = c.check()
        if r != "sat":
            raise Abort("index(): path infeasible/unknown")
        v = m.eval(t, model_completion=True).as_long()
        rf, _ = c.check(t != v)
        if rf == "unknown":
            raise Abort("solver unknown at index()")
        if rf == "sat":
            c.pending.append(c.trace + [(v, False)])
        c.trace.append((v, True))
        c.add(t == v)
        return v
    raise Abort("index() on symbolic int with more than 64 feasible values")


# ----------------------------------------------------------------------------------------------
# symbol-aware replacements for builtins / math
# ----------------------------------------------------------------------------------------------
def s_floor(x):
    if isinstance(x, Sym):
        return x.__floor__()
    return math.floor(x)


def s_ceil(x):
    if isinstance(x, Sym):
        return x.__ceil__()
    return math.ceil(x)


def _int_term(t):
    """If the real-sorted term t is integral by construction (built from to_real(...) and integer
    numerals with + - *), return the equivalent int-sorted term, else None."""
    k = t.decl().kind()
    if k == z3.Z3_OP_TO_REAL:
        return t.arg(0)
    if z3.is_rational_value(t):
        if t.denominator_as_long() == 1:
            return z3.IntVal(t.numerator_as_long())
        return None
    if k in (z3.Z3_OP_ADD, z3.Z3_OP_MUL, z3.Z3_OP_SUB, z3.Z3_OP_UMINUS):
        args = [_int_term(a) for a in t.children()]
        if any(a is None for a in args):
            return None
        if k == z3.Z3_OP_ADD:
            return z3.Sum(args)
        if k == z3.Z3_OP_MUL:
            return z3.Product(args)
        if k == z3.Z3_OP_SUB:
            r = args[0]
            for a in args[1:]:
                r = r - a
            return r
        return -args[0]
    return None


def s_trunc(x):
    if isinstance(x, SymInt):
        return x
    if isinstance(x, SymReal):
        it = _int_term(z3.simplify(x.t))
        if it is not None:
            return SymInt(z3.simplify(it))
        # fork on the sign instead of an ite around to_int; keep ONE canonical to_int(x) term per
        # x (z3 relates to_int(x) and to_int(-x) badly): trunc(x) for x < 0 is ceil(x)
        f = _floor_real(x.t)
        if ctx().decide(x.t >= 0):
            return SymInt(z3.simplify(f))
        if ctx().decide(x.t == z3.ToReal(f)):
            return SymInt(z3.simplify(f))
        return SymInt(z3.simplify(f + 1))
    return math.trunc(x)


def _s_int(x=0, *a):
    if isinstance(x, SymInt):
        return x
    if isinstance(x, SymReal):
        return s_trunc(x)
    if isinstance(x, SymBool):
        return x._as_int()
    return int(x, *a)


def _s_float(x=0.0):
    if isinstance(x, SymInt):
        return wrap(z3.ToReal(x.t))
    if isinstance(x, SymReal):
        return x
    if isinstance(x, SymBool):
        return wrap(z3.ToReal(x._as_int().t))
    if isinstance(x, F):
        if active() and not concrete_mode():
            return SymReal(z3.RealVal(str(x)))
        return float(x)
    return float(x)


class _IntMeta(type):
    def __instancecheck__(cls, x):
        return isinstance(x, (int, SymInt))

    def __call__(cls, *a):
        return _s_int(*a)


class s_int(metaclass=_IntMeta):
    """Stands in for the builtin ``int`` inside instrumented modules."""


class _FloatMeta(type):
    def __instancecheck__(cls, x):
        return isinstance(x, (float, SymReal))

    def __call__(cls, *a):
        return _s_float(*a)


class s_float(metaclass=_FloatMeta):
    """Stands in for the builtin ``float`` inside instrumented modules."""


def s_isfinite(x):
    if isinstance(x, Sym):
        return True  # symbolic reals/ints are finite by construction
    return math.isfinite(x)


def s_fmod(x, y):
    if isinstance(x, Sym) or isinstance(y, Sym):
        a, b = _coerce(x, y)
        if _is_int(a):
            a, b = z3.ToReal(a), z3.ToReal(b)
        if ctx().decide(b == 0):
            raise ValueError("math domain error")
        q = z3.simplify(a / b)
        tr = s_trunc(SymReal(q))
        return wrap(a - b * z3.ToReal(tr.t))
    return math.fmod(x, y)


class Log2Of(Sym):
    """log2(n) for a symbolic integer n: only ceil() of it is modelled (1 <= n <= 2^40)."""

    __slots__ = ("n",)

    def __init__(self, n):
        self.n = n
        self.t = None

    def __ceil__(self):
        """ceil of the DOUBLE that math.log2(n) returns.  For 2^k < n < 2^(k+1) with d = n - 2^k:
        d/2^k >= 2^-44: the excess over k is many ulps -- k+1 (the exact answer; every n <= 2^40);
        k >= 53 and d <= 2^(k-53): n itself becomes the double 2^k (round to nearest, ties to even),
        its log2 is exactly k -- k, one too few;
        in between: the last place of the logarithm decides -- either (a free Boolean)."""
        n = self.n.t
        c = ctx()
        if c.decide(z3.Or(n < 1, n > 2**63)):
            raise Abort("ceil(log2(n)) outside the modelled range 1..2^63")
        c.fresh_n += 1
        flip = z3.Bool(f"_log2_last_place_{c.fresh_n}")
        _register(f"_log2_last_place_{c.fresh_n}", flip, "bool")
        r = z3.IntVal(63)
        for k in range(62, -1, -1):
            hi = 2 ** (k + 1)
            d = n - 2**k
            if k <= 43:
                inner = z3.IntVal(k + 1)  # d >= 1 >= 2^(k-44)
            else:
                sure_right = d * 2**44 >= 2**k
                sure_wrong = z3.And(k >= 53, d <= 2 ** max(k - 53, 0)) if k >= 53 else z3.BoolVal(False)
                inner = z3.If(sure_right, z3.IntVal(k + 1), z3.If(sure_wrong, z3.IntVal(k), z3.If(flip, z3.IntVal(k), z3.IntVal(k + 1))))
            r = z3.If(n < hi, inner, r) if k > 0 else z3.If(n <= 1, z3.IntVal(0), z3.If(n < hi, inner, r))
        # exact powers of two are exact
        for k in range(0, 64):
            r = z3.If(n == 2**k, z3.IntVal(k), r)
        return SymInt(z3.simplify(r))

    def __floor__(self):
        raise Abort("floor(log2(n)) not modelled")


def s_log2(x):
    if isinstance(x, SymInt):
        return Log2Of(x)
    if isinstance(x, Sym):
        raise Abort("log2 of symbolic real")
    return math.log2(x)


def s_sqrt(x):
    if isinstance(x, Sym):
        c = ctx()
        a, _ = _coerce(x, 0.0)
        if c.decide(a < 0):
            raise ValueError("math domain error")
        c.fresh_n += 1
        r = z3.Real(f"_sqrt{c.fresh_n}")
        c.add_axiom(z3.And(r >= 0, r * r == a))
        return SymReal(r)
    return math.sqrt(x)


def s_hypot(*xs):
    """math.hypot: sqrt of the sum of squares (exact when the sum is the square of a rational)"""
    if not any(isinstance(x, Sym) for x in xs):
        return math.hypot(*xs)
    tot = 0
    for x in xs:
        tot = tot + x * x
    if isinstance(tot, Sym):
        v = z3.simplify(tot.t)
        if z3.is_rational_value(v):
            from fractions import Fraction

            q = Fraction(v.numerator_as_long(), v.denominator_as_long())
            rn, rd = math.isqrt(q.numerator), math.isqrt(q.denominator)
            if rn * rn == q.numerator and rd * rd == q.denominator:
                return SymReal(z3.RealVal(Fraction(rn, rd)))
    return s_sqrt(tot)


def s_copysign(x, y):
    """math.copysign for reals (a zero second argument counts as positive: -0.0 is not modelled)"""
    if not isinstance(x, Sym) and not isinstance(y, Sym):
        return math.copysign(x, y)
    ax = abs(x)
    return ax if bool(y >= 0) else -ax  # forks


_real_isinstance = isinstance


def s_isinstance(x, cls):
    if not _real_isinstance(cls, tuple):
        cls = (cls,)
    out = []
    for c in cls:
        if c is int or c is s_int:
            out += [int, SymInt]
        elif c is float or c is s_float:
            out += [float, SymReal]
        elif c is bool:
            out += [bool, SymBool]
        else:
            out.append(c)
    return _real_isinstance(x, tuple(out))


def _flat_args(a):
    if len(a) == 1:
        a = tuple(a[0])
    return a


def m_min(*a):
    """merging min: one ite term, no fork"""
    a = _flat_args(a)
    r = a[0]
    for x in a[1:]:
        p, q = _coerce(r, x)
        r = wrap(z3.If(q < p, q, p))
    return r


def m_max(*a):
    a = _flat_args(a)
    r = a[0]
    for x in a[1:]:
        p, q = _coerce(r, x)
        r = wrap(z3.If(q > p, q, p))
    return r


def m_min_shim(*a, **kw):
    if kw:
        return min(*a, **kw)
    a = _flat_args(a)
    if not any(isinstance(x, Sym) for x in a):
        return min(a)
    return m_min(a)


def m_max_shim(*a, **kw):
    if kw:
        return max(*a, **kw)
    a = _flat_args(a)
    if not any(isinstance(x, Sym) for x in a):
        return max(a)
    return m_max(a)


def _any_real(a):
    # (anything symbolic that is not an integer -- reals, and the floating-point values of vf/fp.py --
    # is compared the way the builtin would)
    return any(isinstance(x, (SymReal, float, F)) or (isinstance(x, Sym) and not isinstance(x, (SymInt, SymBool))) for x in a)


def s_min(*a, **kw):
    """min as injected into the repo's modules: integers merge into one ite term (pure LIA, keeps
    path counts low); reals fork like the builtin would, because real results usually flow into
    floor/ceil and an ite under to_int is what z3 cannot digest."""
    if kw:
        return min(*a, **kw)
    a = _flat_args(a)
    if not any(isinstance(x, Sym) for x in a):
        return min(a)
    if _any_real(a):
        r = a[0]
        for x in a[1:]:
            if x < r:
                r = x
        return r
    return m_min(a)


def s_max(*a, **kw):
    if kw:
        return max(*a, **kw)
    a = _flat_args(a)
    if not any(isinstance(x, Sym) for x in a):
        return max(a)
    if _any_real(a):
        r = a[0]
        for x in a[1:]:
            if x > r:
                r = x
        return r
    return m_max(a)


def s_abs(x):
    return abs(x)


def s_round(x, nd=None):
    if isinstance(x, Sym):
        return x.__round__(nd)
    return round(x, nd) if nd is not None else round(x)


def s_any(it):
    for x in it:
        if x:
            return True
    return False


def s_all(it):
    for x in it:
        if not x:
            return False
    return True


def s_sum(it, start=0):
    r = start
    for x in it:
        r = r + x
    return r


class MathShim:
    """Replacement for the ``math`` module object inside instrumented modules."""

    floor = staticmethod(s_floor)
    ceil = staticmethod(s_ceil)
    trunc = staticmethod(s_trunc)
    isfinite = staticmethod(s_isfinite)
    fmod = staticmethod(s_fmod)
    log2 = staticmethod(s_log2)
    sqrt = staticmethod(s_sqrt)
    hypot = staticmethod(s_hypot)
    copysign = staticmethod(s_copysign)

    def __getattr__(self, k):
        return getattr(math, k)


SHIMS = {
    "floor": s_floor,
    "ceil": s_ceil,
    "int": s_int,
    "float": s_float,
    "isfinite": s_isfinite,
    "fmod": s_fmod,
    "log2": s_log2,
    "sqrt": s_sqrt,
    "hypot": s_hypot,
    "copysign": s_copysign,
    "isinstance": s_isinstance,
    "min": s_min,
    "max": s_max,
    "round": s_round,
    "sum": s_sum,
}


# ----------------------------------------------------------------------------------------------
# harness API
# ----------------------------------------------------------------------------------------------
def _register(name, v, kind):
    c = ctx()
    if name in c.vars:
        raise HarnessBug(f"duplicate symbolic variable {name}")
    c.vars[name] = v
    c.var_kinds[name] = kind


def Int(name, lo=None, hi=None):
    c = ctx()
    if c.concrete:
        # a variable the counterexample path never created (the violation came earlier) takes a
        # default inside its declared range
        v = c.model_vals.get(name, lo if isinstance(lo, int) else (hi if isinstance(hi, int) else 0))
        v = int(v)
        return v
    v = z3.Int(name)
    _register(name, v, "int")
    r = SymInt(v)
    if lo is not None:
        c.add(v >= _z(lo) if not isinstance(lo, Sym) else v >= lo.t)
    if hi is not None:
        c.add(v <= _z(hi) if not isinstance(hi, Sym) else v <= hi.t)
    return r


def Real(name, lo=None, hi=None):
    c = ctx()
    if c.concrete:
        return float(_parse_num(c.model_vals.get(name, 0)))
    v = z3.Real(name)
    _register(name, v, "real")
    if lo is not None:
        c.add(v >= _coerce(v_as(v), lo)[1])
    if hi is not None:
        c.add(v <= _coerce(v_as(v), hi)[1])
    return SymReal(v)


def v_as(v):
    return SymReal(v)


def fresh_extreme(vals, kind):
    """min/max of many real terms as ONE fresh variable m with  m <=/>= every term  and
    m == some term  -- exact, no forking and no ite under a later floor (for long vertex lists)"""
    c = ctx()
    if c.concrete or not any(isinstance(v, Sym) for v in vals):
        return (min if kind == "min" else max)(vals)
    ts = [_coerce(SymReal(z3.RealVal(0)), v)[1] if not isinstance(v, Sym) else (z3.ToReal(v.t) if _is_int(v.t) else v.t) for v in vals]
    n = sum(1 for k in c.vars if k.startswith("_ext"))
    m = z3.Real(f"_ext{n}_{kind}")
    _register(f"_ext{n}_{kind}", m, "real")
    c.add(z3.And(*[(m <= t) if kind == "min" else (m >= t) for t in ts]))
    c.add(z3.Or(*[m == t for t in ts]))
    return SymReal(m)


def Bool(name):
    c = ctx()
    if c.concrete:
        return bool(c.model_vals.get(name, False))
    v = z3.Bool(name)
    _register(name, v, "bool")
    return SymBool(v)


def _parse_num(x):
    if isinstance(x, (int, float, F)):
        return x
    if isinstance(x, str):
        return F(x)
    raise TypeError(x)


def const(x):
    """A concrete value as an *exact* symbolic constant (keeps later arithmetic exact).  In
    concrete mode: the plain Python number the real code would be given (ints stay ints,
    rationals become floats)."""
    if isinstance(x, str):
        x = F(x)
        if x.denominator == 1 and "/" not in str(x) and "." not in str(x):
            pass
    c = Ctx.cur
    if c is None or c.concrete:
        if isinstance(x, bool) or isinstance(x, int):
            return x
        if isinstance(x, F):
            return float(x)
        return x
    if isinstance(x, bool):
        return x
    if isinstance(x, int):
        return SymInt(z3.IntVal(x))
    if isinstance(x, float):
        return SymReal(z3.RealVal(str(F(x))))
    return SymReal(z3.RealVal(str(F(x))))


def rconst(x):
    """Exact *real* constant even for integral values (a float like 2.0 in the real API)."""
    x = F(x) if not isinstance(x, F) else x
    c = Ctx.cur
    if c is None or c.concrete:
        return float(x)
    return SymReal(z3.RealVal(str(x)))


def ex(x):
    """Exact value for harness-side arithmetic: identity on symbolic values; in concrete mode the
    exact rational value of the float/int (so that property atoms are not blurred by rounding in
    the harness itself)."""
    if isinstance(x, Sym):
        return x
    if isinstance(x, bool):
        return x
    if isinstance(x, int):
        return x
    if isinstance(x, float):
        if x != x or x in (math.inf, -math.inf):
            return x
        return F(x)
    if isinstance(x, F):
        return x
    try:
        import numpy as _np

        if isinstance(x, _np.integer):
            return int(x)
        if isinstance(x, _np.floating):
            return ex(float(x))
    except ImportError:  # pragma: no cover
        pass
    return x


def assume(cond):
    c = ctx()
    if c.concrete:
        if not cond:
            raise _PathDone("assumption false in concrete replay")
        return
    if isinstance(cond, bool):
        if not cond:
            raise _Infeasible()
        return
    t = _z(cond)
    r, _ = c.check(t)
    if r == "unsat":
        raise _Infeasible()
    if r == "unknown":
        raise Abort("solver unknown at assume")
    c.add(t)


class _Infeasible(BaseException):
    pass


def feasible(cond) -> Optional[bool]:
    """Is cond satisfiable together with the path condition? (no fork)"""
    c = ctx()
    if c.concrete:
        return bool(cond)
    if isinstance(cond, bool):
        return cond
    r, _ = c.check(_z(cond))
    return None if r == "unknown" else r == "sat"


class Violation(Exception):
    pass


def And(*a):
    if any(isinstance(x, Sym) for x in a):
        return SymBool(z3.simplify(z3.And(*[_z(x) for x in a])))
    return all(a)


def Or(*a):
    if any(isinstance(x, Sym) for x in a):
        return SymBool(z3.simplify(z3.Or(*[_z(x) for x in a])))
    return any(a)


def Not(a):
    if isinstance(a, Sym):
        return ~a
    return not a


def Implies(a, b):
    if isinstance(a, Sym) or isinstance(b, Sym):
        return SymBool(z3.simplify(z3.Implies(_z(a), _z(b))))
    return (not a) or b


def ite(c, a, b):
    if isinstance(c, Sym):
        x, y = _coerce(a, b)
        return wrap(z3.If(c.t, x, y))
    return a if c else b


def prove(label: str, cond, *, when=None):
    """Property atom.  ``when`` (optional) is the antecedent of an implication-shaped atom; its
    satisfiability is recorded for the reachability report."""
    c = ctx()
    if c.concrete:
        if when is not None and not when:
            return
        if not cond:
            c.concrete_failures.append(label)
        return
    c.path_atoms += 1
    if when is not None:
        if isinstance(when, bool):
            if not when:
                c.reach.setdefault(label, False)
                return
            pre = None
        else:
            pre = _z(when)
            r, _ = c.check(pre)
            if r == "unsat":
                c.reach.setdefault(label, False)
                return
            if r == "sat":
                c.reach[label] = True
    else:
        pre = None
    if when is None or isinstance(when, bool):
        c.reach[label] = True
    if isinstance(cond, bool) or not isinstance(cond, Sym):
        if cond:
            c.atoms_trivial += 1
            return
        neg = z3.BoolVal(True)
    else:
        neg = z3.Not(cond.t)
    extra = [neg] if pre is None else [pre, neg]
    r, m, extra = _solve_excluding_known(c, extra, label)
    if r == "unsat":
        c.atoms_proved += 1
        c.path_nontrivial = True
        _maybe_dump(c, extra, label, "unsat")
        return
    if r == "unknown":
        raise _Inconclusive(label)
    raise _Refuted(label, m, extra)


def fail(label: str):
    """Unconditional violation on this path (e.g. an unexpected exception)."""
    prove(label, False)


XCHECK = {"dir": None, "rate": 0.0, "max": 0, "n": 0, "rng": None, "tag": ""}


def _maybe_dump(c: Ctx, extra, label, expected):
    """second-solver cross-check (thorough tier): a seeded sample of the discharged atom queries is
    written as SMT-LIB2 (path condition + negated atom) to be re-decided by other solvers"""
    x = XCHECK
    if not x["dir"] or x["n"] >= x["max"]:
        return
    if x["rng"].random() >= x["rate"]:
        return
    s2 = z3.Solver()
    for p in c.pc:
        s2.add(p)
    for e in extra:
        s2.add(e)
    txt = s2.to_smt2()
    if "FloatingPoint" in txt or "RoundingMode" in txt:
        return  # FP queries are too slow for the other back ends here
    x["n"] += 1
    fn = os.path.join(x["dir"], f"{x['tag']}_{x['n']}.smt2")
    with open(fn, "w") as f:
        f.write(f"; expected: {expected}\n; atom: {label[:100]}\n(set-logic ALL)\n" + txt.replace("(set-logic ALL)\n", ""))


class _Inconclusive(BaseException):
    def __init__(self, label):
        self.label = label


CEIL_FORKS = False
KNOWN_REGIONS: List[dict] = []  # set by the runner: entries of known_findings.json for this job


def _region_term(c: Ctx, expr: str):
    env = {}
    for n, v in c.vars.items():
        env[n] = wrap(v) if not z3.is_bool(v) else SymBool(v)
    try:
        r = eval(expr, {"__builtins__": {}, "abs": abs, "min": s_min, "max": s_max, "And": And, "Or": Or, "Not": Not}, env)  # noqa: S307
    except NameError:
        return None
    if isinstance(r, bool):
        return z3.BoolVal(r)
    return r.t


def _solve_excluding_known(c: Ctx, extra, label: str):
    """sat-check that steps over the regions listed as known findings: a model inside a listed
    region is recorded as a hit, the region is excluded and the query is solved again."""
    extra = list(extra)
    while True:
        r, m = c.check(*extra)
        if r != "sat" or not KNOWN_REGIONS:
            return r, m, extra
        hit = None
        for k in KNOWN_REGIONS:
            if k.get("label_re"):
                import re as _re

                if not _re.search(k["label_re"], label):
                    continue
            if not k.get("region"):
                continue
            t = _region_term(c, k["region"])
            if t is None:
                continue
            if z3.is_true(m.eval(t, model_completion=True)):
                hit = (k, t)
                break
        if hit is None:
            return r, m, extra
        c.known_hits.append(hit[0])
        extra.append(z3.Not(hit[1]))


class _Refuted(BaseException):
    def __init__(self, label, model, extra):
        self.label, self.model, self.extra = label, model, extra


# ----------------------------------------------------------------------------------------------
# model extraction
# ----------------------------------------------------------------------------------------------
def model_value(m, v):
    x = m.eval(v, model_completion=True)
    if z3.is_int_value(x):
        return x.as_long()
    if z3.is_rational_value(x):
        fr = F(x.numerator_as_long(), x.denominator_as_long())
        return str(fr)
    if z3.is_algebraic_value(x):
        return str(F(x.approx(30).as_fraction()))
    if z3.is_true(x):
        return True
    if z3.is_false(x):
        return False
    if z3.is_fp_value(x):
        if x.isNaN():
            return "nan"
        if x.isInf():
            return "-inf" if x.isNegative() else "inf"
        try:
            v = float(eval(str(x).replace("+oo", "float('inf')"), {"__builtins__": {}}, {"float": float}))  # noqa: S307
        except Exception:  # noqa: BLE001
            v = float(x.as_decimal(40).rstrip("?")) if hasattr(x, "as_decimal") else 0.0
        if x.isNegative() and v == 0:
            v = -0.0
        return repr(v)
    return str(x)


def _nice_model(c: Ctx, extra):
    """Try to move a counterexample onto values that are exactly representable as doubles
    (multiples of 1/1024, moderate magnitude) so that the binary64 replay sees the same thing."""
    reals = [(n, v) for n, v in c.vars.items() if c.var_kinds[n] == "real"]
    if not reals:
        return None
    for denom, bound in ((8, 8 * 64), (1024, 1024 * 4096), (1024, 2**30), (2**20, 2**45)):
        cons = []
        for n, v in reals:
            k = z3.Int(f"_k_{n}")
            cons.append(v * denom == z3.ToReal(k))
            cons.append(z3.And(k >= -bound, k <= bound))
        r, m = c.check(*extra, *cons, timeout_ms=min(c.timeout_ms, 5000))
        if r == "sat":
            return m
    return None


# ----------------------------------------------------------------------------------------------
# exploration
# ----------------------------------------------------------------------------------------------
class Result:
    def __init__(self):
        self.paths = 0
        self.nontrivial_paths = 0
        self.violations: List[dict] = []
        self.inconclusive: List[dict] = []
        self.queries = 0
        self.solver_s = 0.0
        self.unsat = 0
        self.sat = 0
        self.unknown = 0
        self.atoms_proved = 0
        self.atoms_trivial = 0
        self.wall_s = 0.0
        self.exhausted = True
        self.samples: List[dict] = []
        self.unreached: List[str] = []
        self.known_hits: List[dict] = []

    def as_dict(self):
        return dict(self.__dict__)


def explore(
    harness: Callable[[], Any],
    timeout_ms: int = 10000,
    max_paths: int = 20000,
    max_violations: int = 3,
    expected_exc: tuple = (),
    deadline_s: Optional[float] = None,
    nsamples: int = 2,
    fresh_only: bool = False,
) -> Result:
    """Run ``harness`` on every feasible path.  The harness states its property with prove().
    An exception escaping the harness (other than engine-internal ones) is a violation candidate."""
    res = Result()
    t0 = time.time()
    c = Ctx(timeout_ms=timeout_ms, max_paths=max_paths)
    c.fresh_only = fresh_only
    prev = Ctx.cur
    Ctx.cur = c
    c.pending.append([])
    try:
        while c.pending:
            if res.paths >= max_paths or (deadline_s is not None and time.time() - t0 > deadline_s):
                res.exhausted = False
                res.inconclusive.append(
                    {"reason": "path/time budget exhausted", "pending": len(c.pending)}
                )
                break
            c.prefix = c.pending.pop()
            c.reset_path()
            res.paths += 1
            try:
                harness()
            except _Infeasible:
                res.paths -= 1
                continue
            except _PathDone:
                pass
            except _Refuted as e:
                m = e.model
                nm = _nice_model(c, e.extra)
                models = []
                for mm in ([nm] if nm is not None else []) + [m]:
                    models.append({n: model_value(mm, v) for n, v in c.vars.items()})
                res.violations.append(
                    {"label": e.label, "models": models, "trace": list(c.trace), "kind": "atom"}
                )
            except _Inconclusive as e:
                res.inconclusive.append(
                    {"reason": "solver unknown at atom", "label": e.label, "trace": list(c.trace)}
                )
            except Abort as e:
                res.inconclusive.append(
                    {"reason": f"abort: {e}", "trace": list(c.trace)}
                )
            except RecursionError as e:  # pragma: no cover
                res.inconclusive.append({"reason": f"recursion: {e}", "trace": list(c.trace)})
            except z3.Z3Exception as e:
                # the engine built a term z3 refuses (sort mismatch, ...): its own limit
                res.inconclusive.append({"reason": f"engine: z3 refused a term: {e}"[:300], "trace": list(c.trace)})
            except Exception as e:  # noqa: BLE001 - an exception from the real code is an outcome
                if isinstance(e, expected_exc):
                    pass
                else:
                    lbl = f"unexpected {type(e).__name__}: {e}"[:300]
                    r, m, xtra = _solve_excluding_known(c, [], lbl)
                    if r == "unsat" and xtra:
                        pass  # only reachable inside known-finding regions
                    elif r == "sat":
                        nm = _nice_model(c, xtra)
                        models = []
                        for mm in ([nm] if nm is not None else []) + [m]:
                            models.append({n: model_value(mm, v) for n, v in c.vars.items()})
                        import traceback

                        tb = traceback.format_exc(limit=-6)
                        res.violations.append(
                            {
                                "label": f"unexpected {type(e).__name__}: {e}"[:300],
                                "models": models,
                                "trace": list(c.trace),
                                "kind": "exception",
                                "traceback": tb[-1500:],
                            }
                        )
                    else:
                        res.inconclusive.append(
                            {"reason": f"exception {type(e).__name__} on path of unknown feasibility"}
                        )
            if c.path_nontrivial:
                res.nontrivial_paths += 1
            if len(res.samples) < nsamples and c.pc:
                r, m = c.check()
                if r == "sat":
                    res.samples.append(
                        {
                            "path_condition": [str(p)[:200] for p in c.pc[:8]],
                            "witness": {n: model_value(m, v) for n, v in list(c.vars.items())[:64]},
                            "atoms_on_path": c.path_atoms,
                        }
                    )
            if len(res.violations) >= max_violations:
                res.exhausted = False
                break
    finally:
        c.reset_path()
        Ctx.cur = prev
    res.queries = c.nqueries
    res.solver_s = c.solver_s
    res.unsat, res.sat, res.unknown = c.n_unsat, c.n_sat, c.n_unknown
    res.atoms_proved, res.atoms_trivial = c.atoms_proved, c.atoms_trivial
    res.unreached = sorted(k for k, v in c.reach.items() if not v)
    seen = []
    for k in c.known_hits:
        if k not in seen:
            seen.append(k)
    res.known_hits = seen
    res.wall_s = time.time() - t0
    return res


def _harness_callable_names(here, frames):
    """(kept for callers) names of module-level callables of the harness"""
    return _HarnessNames(here)


class _HarnessNames:
    """`name in obj` : is `name` (the 'X.y' in front of '()' in a signature-mismatch TypeError) the
    qualified name of a function defined in the harness?  Local classes and closures included: every
    live function object whose code comes from a file under vf/ is looked at."""

    def __init__(self, here):
        self.here = here
        self._q = None

    def _names(self):
        if self._q is None:
            import gc
            import types

            q = set()
            for o in gc.get_objects():
                if isinstance(o, types.FunctionType):
                    try:
                        if os.path.abspath(o.__code__.co_filename).startswith(self.here):
                            q.add(o.__qualname__)
                    except Exception:  # noqa: BLE001
                        pass
            self._q = q
        return self._q

    def __iter__(self):
        return iter(n + "(" for n in self._names())


def run_concrete(harness: Callable[[], Any], model_vals: dict, expected_exc: tuple = ()):
    """Replay: run the harness with plain Python values.  Returns (failed_labels, exception)."""
    c = Ctx(model_vals=model_vals)
    prev = Ctx.cur
    Ctx.cur = c
    exc = None
    try:
        try:
            harness()
        except _PathDone:
            pass
        except Abort as e:
            exc = ("abort", str(e))
        except Exception as e:  # noqa: BLE001
            if not isinstance(e, expected_exc):
                import traceback

                # where was it raised?  An interface error (TypeError / AttributeError / ...) raised
                # INSIDE a stand-in of the harness, or by the library calling a stand-in with a
                # signature it does not know, says the stand-in is incomplete -- not that the
                # library failed
                frames = traceback.extract_tb(e.__traceback__)
                last = frames[-1].filename if frames else ""
                here = os.path.dirname(os.path.abspath(__file__))
                in_harness = os.path.abspath(last).startswith(here)
                sig_mismatch = isinstance(e, TypeError) and ("unexpected keyword argument" in str(e) or "positional argument" in str(e)) and any(
                    nm in str(e) for nm in _harness_callable_names(here, frames)
                )
                origin = "stand-in" if (isinstance(e, (TypeError, AttributeError, NotImplementedError)) and (in_harness or sig_mismatch)) else "library"
                exc = (type(e).__name__, str(e)[:300], traceback.format_exc(limit=-5)[-1200:], origin)
    finally:
        Ctx.cur = prev
    return c.concrete_failures, exc
