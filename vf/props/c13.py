"""C13 -- chunked reprojection equals whole-array reprojection (graph construction, per-chunk
work and fill resolution; GDAL's warper enters as a recorded call with a stated pixel rule)."""
from __future__ import annotations

from fractions import Fraction as F

from .. import shims, symx
from ..runner import Ob, fixed, tiered
from ..symx import And, Bool, Int, Not, Or, Real, assume, ex, prove, rconst

EXPLANATION = (
    "The real _dask_rio_reproject builds its task graph for a fake dask array (symbolic chunk sizes, dask.array.Array and "
    "HighLevelGraph replaced by recorders); for a symbolic destination pixel the task of its chunk -- the real "
    "_do_chunked_reproject with GeoboxTiles.clip, BlockAssembler.extract over the recording numpy model and the real "
    "_rio_reproject -- is executed, and the real rio_reproject is executed on the whole array. rasterio.warp.reproject is "
    "a recorder in both; its result at the probed pixel is defined by the pixel-centre nearest-neighbour rule on the "
    "transforms it was handed and by rasterio's initialisation rule (destination nodata, else source nodata, else 0). "
    "z3 decides that both routes sample the same pixel of the same source block, reach a source pixel for the same "
    "destination pixels, and leave the statement's fill value elsewhere -- also in chunks built as constants."
)
ASSUMPTIONS = [
    "GDAL enters only as a recorded call: nearest-neighbour = the source pixel containing the image of the destination pixel centre under the transforms handed over; destination initialised with dst_nodata, else src_nodata, else 0 (rasterio.warp.reproject with init_dest_nodata=True, read from its source); a valid source value equal to the dst_nodata handed over is moved to the neighbouring value (GDAL's AvoidNoData), so both routes must hand over the same one; replayed with real GDAL and real dask",
    "same CRS, relative scale from a grid (1, 2, 3, 1/2, 3/2, mirrored or not), translation, image sizes, chunk sizes and the probed pixel symbolic; quick tier factors the axes (one axis symbolic, the other a single identical chunk)",
    "source: 1..3 chunks along the symbolic axis (regular with a symbolic remainder, or irregular with symbolic sizes), destination: 1..2 chunks; one optional leading band axis of 2 planes in one or two chunks",
    "pixel types that reach GDAL unchanged (uint8, int16, float32, float64); the int8/bool detours are obligation P6 of C10",
    "execution order of tasks: each task is a pure function of its blocks (no shared state is written: the recorder sees every write) -- dask's scheduler itself is outside the claim",
    "different CRSs / rotated pairs: only the fill rule and the graph shape are decided (V3), the dependency sets come from PROJ/shapely footprints (C12)",
]

PIN = 5  # size of the pinned axis: one chunk, identical grids
T = 2  # planes of the optional leading axis


# ---- recorders ------------------------------------------------------------------------------
class _FakeGraph:
    def __init__(self, name, dsk, dependencies):
        self.name, self.dsk, self.dependencies = name, dsk, tuple(dependencies)


class _FakeHLG:
    @staticmethod
    def from_collections(name, dsk, dependencies=()):
        return _FakeGraph(name, dsk, dependencies)


class _FakeDaArray:
    def __init__(self, dsk, name, chunks=None, dtype=None, shape=None, **kw):
        self.dsk, self.name, self.chunks, self.dtype, self.shape, self.kw = dsk, name, chunks, dtype, shape, kw


class _FakeDa:
    Array = _FakeDaArray


def _keys(name, counts, prefix=()):
    if not counts:
        return (name, *prefix)
    return [_keys(name, counts[1:], prefix + (i,)) for i in range(counts[0])]


class _FakeSrc:
    """what _dask_rio_reproject reads of a dask array"""

    def __init__(self, chunks, chunksize, dtype):
        import numpy as real_np

        self.chunks = chunks
        self.shape = tuple(symx.s_sum(c) for c in chunks)
        self.chunksize = chunksize
        self.dtype = real_np.dtype(dtype)
        self.ndim = len(chunks)

    def __dask_keys__(self):
        return _keys("src", tuple(len(c) for c in self.chunks))


class _WarpNP:
    """numpy as odc.geo.warp sees it: the real module, except that array-reshaping helpers accept
    the recording arrays (view-or-copy rule of numpy kept, see npmodel.MovedView)"""

    def __getattr__(self, k):
        import numpy as real_np

        return getattr(real_np, k)

    @staticmethod
    def moveaxis(a, source, destination):
        from ..npmodel import NP

        return NP.moveaxis(a, source, destination)


def _np13():
    from .. import npmodel

    class NP13(type(npmodel._np_singleton)):
        @staticmethod
        def zeros(shape, dtype=None, **kw):
            return npmodel.RecArray(shape, 0, dtype)

        @staticmethod
        def full(shape, fill_value, dtype=None, **kw):
            return npmodel.RecArray(shape, fill_value, dtype)

    return NP13()


def setup():
    from .c04 import setup as setup_blocks
    from .c12 import setup_range

    setup_range()
    setup_blocks()
    if symx.concrete_mode():
        return
    import odc.geo._dask as dk
    import odc.geo.warp as warp

    import odc.geo._blocks as blk

    shims.instrument(dk)
    dk.np = blk.np = _np13()
    dk.da = _FakeDa
    dk.HighLevelGraph = _FakeHLG
    shims.instrument(warp, names=["isinstance"], scan=False)
    warp.np = _WarpNP()


NODATA = {
    "uint8": (255, 250),
    "int16": (-9999, -1),
    "float32": (-9999.0, -1.0),
    "float64": (-9999.0, -1.0),
}


def _nodata(dtype, mode):
    s, d = NODATA[dtype]
    return {"none": (None, None), "src": (s, None), "dst": (None, d), "both": (s, d), "zero": (None, 0)}[mode]


def _same_value(a, b):
    if a is None or b is None:
        return a is None and b is None
    if a != a or b != b:
        return a != a and b != b
    return a == b


def _want_fill(dtype, sn, dn):
    if dn is not None:
        return dn
    if sn is not None:
        return sn
    return float("nan") if dtype.startswith("float") else 0


def _init_value(kw):
    """what rasterio.warp.reproject leaves in destination pixels no source pixel reaches"""
    if kw.get("dst_nodata") is not None:
        return kw["dst_nodata"]
    if kw.get("src_nodata") is not None:
        return kw["src_nodata"]
    return 0


def _nudged(kw):
    """the value GDAL's warp kernel moves a *valid* source pixel away from: the destination nodata
    it was given (gdalwarpkernel AvoidNoData: a result equal to it becomes the neighbouring value);
    NaN never equals a pixel"""
    v = kw.get("dst_nodata")
    return None if v is None or v != v else v


def _src_coord(kw, lx, ly):
    st, dt = kw["src_transform"], kw["dst_transform"]
    wx, wy = dt * (lx + F(1, 2), ly + F(1, 2))
    return (~st) * (wx, wy)


def _plane_of(obj, ydim):
    """(base array, plane index or None) of what was handed to the warper"""
    from ..npmodel import RecView

    if isinstance(obj, RecView):
        roi = obj.roi if isinstance(obj.roi, tuple) else (obj.roi,)
        lead = [r for r in roi[:ydim]]
        return obj.base, (lead[0] if lead else None)
    return obj, None


def _grids(k, mx, axis, Ns, Nd, t, o):
    from affine import Affine

    import odc.geo.geobox as gbx

    kf = F(k)
    if axis == "x":
        src_g = gbx.GeoBox((PIN, Ns), Affine(rconst(10), 0.0, o, 0.0, rconst(-10), rconst(500)), "epsg:3857")
        dst_g = gbx.GeoBox((PIN, Nd), Affine(rconst(10 * kf * mx), 0.0, o + 10 * t, 0.0, rconst(-10), rconst(500)), "epsg:3857")
    else:
        src_g = gbx.GeoBox((Ns, PIN), Affine(rconst(10), 0.0, rconst(500), 0.0, rconst(-10), o), "epsg:3857")
        dst_g = gbx.GeoBox((Nd, PIN), Affine(rconst(10), 0.0, rconst(500), 0.0, rconst(-10 * kf * mx), o - 10 * t), "epsg:3857")
    return src_g, dst_g


def h_chunked(k, mx, fam, c_src, n_src, n_dst, axis, extra, dtype, nodata, dchunks="explicit"):
    import numpy as real_np

    import odc.geo._dask as dk
    import odc.geo.warp as warp

    conc = symx.concrete_mode()
    kf = F(k)
    if dchunks == "default":
        assert fam == "regular"
        n_dst = n_src
    if fam == "regular":
        last = Int("last", 1, n_src)
        ch = (n_src,) * (c_src - 1) + (last,)
    else:
        ch = tuple(Int(f"ch{i}", 1, 4 * n_src) for i in range(c_src))
    Ns = symx.s_sum(ch)
    Nd = Int("Nd", 1, 2 * n_dst)
    t = Real("t")
    o = Real("o")
    src_g, dst_g = _grids(k, mx, axis, Ns, Nd, t, o)
    sn, dn = _nodata(dtype, nodata)
    if dn is None:
        dn = sn  # as _xr_reproject_da does before it takes either route
    ydim = 0 if extra == "none" else 1
    lead_chunks = () if extra == "none" else (((T,),) if extra == "lead1" else (((1,) * T),))
    yx_chunks = ((PIN,), ch) if axis == "x" else (ch, (PIN,))
    full_chunks = (*lead_chunks, *yx_chunks)
    sym_ax = ydim + (1 if axis == "x" else 0)  # position of the symbolic axis in the array
    pin_ax = ydim + (0 if axis == "x" else 1)
    if dchunks == "default":
        chunks_arg = None
        dst_tile = (PIN, n_src) if axis == "x" else (n_src, PIN)
    else:
        dst_tile = (8, n_dst) if axis == "x" else (n_dst, 8)
        chunks_arg = dst_tile
    lead_shape = () if extra == "none" else (T,)
    dst_yx = (PIN, Nd) if axis == "x" else (Nd, PIN)
    dst_full_shape = (*lead_shape, *dst_yx)
    PS = Int("PS", 0)  # probed destination pixel along the symbolic axis
    assume(PS < Nd)
    PP = Int("PP", 0, PIN - 1)  # ... along the pinned axis
    P = Int("P", 0, T - 1) if extra != "none" else 0

    if conc:
        import dask.array as da

        shape = tuple(sum(c) for c in full_chunks)
        n = 1
        for s in shape:
            n *= s
        data = (real_np.arange(n).reshape(shape) % 200 + 1).astype(dtype)
        if sn is not None:
            data[..., ::2, 1::3] = sn  # missing pixels in the source: the warper turns them into the destination nodata
        if not dtype.startswith("float"):
            data[..., 1::2, ::3] = 0  # zero is a pixel value like any other
        ref = real_np.empty(dst_full_shape, dtype=dtype)
        warp.rio_reproject(data, ref, src_g, dst_g, "nearest", src_nodata=sn, dst_nodata=dn, ydim=ydim)
        dd = da.from_array(data, chunks=full_chunks)
        got = dk._dask_rio_reproject(dd, src_g, dst_g, "nearest", src_nodata=sn, dst_nodata=dn, ydim=ydim, chunks=chunks_arg)
        got = got.compute(scheduler="synchronous")
        prove("chunked_result_equals_whole_array_result", bool(real_np.array_equal(ref, got, equal_nan=dtype.startswith("float"))))
        return

    from ..npmodel import FakeBlock, RecArray, RecView

    chunksize = tuple((max(c) if all(isinstance(v, int) for v in c) else (n_src if fam == "regular" else None)) for c in full_chunks)
    src = _FakeSrc(full_chunks, chunksize, dtype)
    calls = []
    real_reproject = warp.rasterio.warp.reproject

    def fake_reproject(source, destination=None, **kw):  # rasterio.warp.reproject's own parameter names
        calls.append((source, destination, kw))

    warp.rasterio.warp.reproject = fake_reproject
    try:
        # ---- whole-array route
        whole_src = FakeBlock("whole", src.shape, dtype)
        whole_dst = RecArray(dst_full_shape, None, real_np.dtype(dtype))
        warp.rio_reproject(whole_src, whole_dst, src_g, dst_g, "nearest", src_nodata=sn, dst_nodata=dn, ydim=ydim)
        ref_calls = list(calls)
        calls.clear()
        # ---- chunked route: the graph
        out = dk._dask_rio_reproject(src, src_g, dst_g, "nearest", src_nodata=sn, dst_nodata=dn, ydim=ydim, chunks=chunks_arg)
        prove("no_warp_while_building_the_graph", len(calls) == 0)
        prove("output_shape", len(out.shape) == len(dst_full_shape) and And(*[a == b for a, b in zip(out.shape, dst_full_shape)]))
        prove("output_dtype", out.dtype == real_np.dtype(dtype))
        graph = out.dsk
        prove("graph_depends_on_the_source", isinstance(graph, _FakeGraph) and graph.name == out.name and len(graph.dependencies) == 1 and graph.dependencies[0] is src)
        dsk = graph.dsk
        oc = out.chunks
        prove("output_chunk_table_has_one_entry_per_axis", len(oc) == len(dst_full_shape))
        for i, c in enumerate(lead_chunks):
            prove("leading_axis_keeps_its_chunks", tuple(oc[i]) == tuple(c))
        prove("pinned_axis_is_one_chunk", tuple(oc[pin_ax]) == (PIN,))
        cs = oc[sym_ax]
        for i, c in enumerate(cs):
            lo = i * n_dst
            prove(f"destination_chunk{i}_size", And(c >= 1, c == symx.m_min(n_dst, Nd - lo)))
        prove("destination_chunks_cover_the_image", symx.s_sum(cs) == Nd)
        counts = tuple(len(c) for c in oc)
        want_keys = set(_flat(_keys(out.name, counts)))
        prove("one_task_per_output_chunk", set(dsk.keys()) == want_keys)

        # ---- the probed pixel
        R = PS // n_dst
        Rv = R.__index__() if isinstance(R, symx.Sym) else R
        Pv = P.__index__() if isinstance(P, symx.Sym) else P
        lead_idx = () if extra == "none" else ((0,) if extra == "lead1" else (Pv,))
        yx_idx = (0, Rv) if axis == "x" else (Rv, 0)
        key = (out.name, *lead_idx, *yx_idx)
        task = dsk[key]
        # whole-array route at the probed pixel
        rc = [c for c in ref_calls if _plane_of(c[1], ydim)[1] in (None, Pv)]
        prove("whole_array_route_warps_each_plane_once", len(ref_calls) == (1 if extra == "none" else T) and len(rc) == 1)
        r_src, r_dst, r_kw = rc[0]
        prove("whole_array_route_warps_the_arrays_it_was_given", _plane_of(r_src, ydim)[0] is whole_src and _plane_of(r_dst, ydim)[0] is whole_dst and _plane_of(r_src, ydim)[1] == _plane_of(r_dst, ydim)[1])
        own_s = mx * kf * (PS + F(1, 2)) + ex(t)  # harness's own parameters
        own_p = PP + F(1, 2)
        px, py = (PS, PP) if axis == "x" else (PP, PS)
        rsx, rsy = _src_coord(r_kw, px, py)
        r_s, r_p = (rsx, rsy) if axis == "x" else (rsy, rsx)
        prove("whole_array_route_hands_over_the_grids", And(r_s == own_s, r_p == own_p))
        inside = And(0 <= own_s, own_s < Ns)
        want = _want_fill(dtype, sn, dn)
        prove("whole_array_route_fill_value", _same_value(_init_value(r_kw), want), when=Not(inside))

        if task[0] is dk.np.full:
            _, b_shape, fill_value, b_dtype = task
            csz = cs[Rv]
            want_shape = list(dst_full_shape)
            want_shape[sym_ax] = csz
            if extra == "lead2":
                want_shape[0] = 1
            prove("constant_chunk_shape", len(b_shape) == len(want_shape) and And(*[a == b for a, b in zip(b_shape, want_shape)]))
            prove("constant_chunk_dtype", real_np.dtype(b_dtype) == real_np.dtype(dtype))
            prove("constant_chunk_holds_the_fill_value", _same_value(fill_value.item() if hasattr(fill_value, "item") else fill_value, want))
            prove("constant_chunk_only_where_no_source_pixel_lands", Not(inside))
            return

        proc, yx, *bkeys = task
        prove("task_is_for_its_own_chunk", tuple(yx) == tuple(yx_idx))
        blocks = []
        for bk in bkeys:
            prove("dependency_is_a_source_block", bk[0] == "src" and len(bk) == 1 + len(full_chunks))
            idx = bk[1:]
            prove("dependency_is_in_the_same_band_chunk", tuple(idx[:ydim]) == tuple(lead_idx))
            bshape = tuple(full_chunks[d][i] for d, i in enumerate(idx))
            blocks.append(FakeBlock(tuple(idx), bshape, dtype))
        prove("dependencies_are_distinct", len({b.name for b in blocks}) == len(blocks))
        res = proc(yx, *blocks)
        prove("chunk_is_a_fresh_array", isinstance(res, RecArray))
        csz = cs[Rv]
        want_shape = list(dst_full_shape)
        want_shape[sym_ax] = csz
        if extra == "lead2":
            want_shape[0] = 1
        prove("chunk_shape", len(res.shape) == len(want_shape) and And(*[a == b for a, b in zip(res.shape, want_shape)]))
        prove("chunk_dtype", real_np.dtype(res.dtype) == real_np.dtype(dtype))
        prove("blocks_are_only_read", len(res.writes) == 0)
        planes_here = 1 if extra in ("none", "lead2") else T
        prove("one_warp_per_plane_of_the_chunk", len(calls) == planes_here)
        p_local = None if extra == "none" else (0 if extra == "lead2" else Pv)
        cc = [c for c in calls if _plane_of(c[1], ydim)[1] == p_local]
        prove("the_probed_plane_is_warped_once", len(cc) == 1)
        c_src_, c_dst, c_kw = cc[0]
        prove("warp_writes_into_the_chunk", _plane_of(c_dst, ydim)[0] is res)
        if isinstance(c_dst, RecView):
            roi = c_dst.roi
            prove("warp_writes_a_whole_plane", all(r == slice(None) for r in roi[ydim:]) and len(roi) == len(res.shape))
        prove("same_source_nodata_on_both_routes", _same_value(c_kw.get("src_nodata"), r_kw.get("src_nodata")))
        prove("same_resampling_on_both_routes", c_kw.get("resampling") == r_kw.get("resampling"))
        prove("a_valid_pixel_equal_to_the_destination_nodata_is_treated_alike_on_both_routes", _same_value(_nudged(c_kw), _nudged(r_kw)))
        prove("same_crs_on_both_routes", c_kw.get("src_crs") == r_kw.get("src_crs") and c_kw.get("dst_crs") == r_kw.get("dst_crs"))
        prove("unreached_pixel_of_a_warped_chunk_holds_the_fill_value", _same_value(_init_value(c_kw), want), when=Not(inside))
        extras_c = {k_: v for k_, v in c_kw.items() if k_ not in ("src_transform", "dst_transform", "gcps", "src_crs", "dst_crs", "resampling", "src_nodata", "dst_nodata")}
        extras_r = {k_: v for k_, v in r_kw.items() if k_ not in ("src_transform", "dst_transform", "gcps", "src_crs", "dst_crs", "resampling", "src_nodata", "dst_nodata")}
        prove("same_warp_options_on_both_routes", extras_c == extras_r)
        # the source handed to the warper: the assembled window
        prove("warp_reads_an_assembled_window", isinstance(c_src_, RecArray) and c_src_.ndim == 2)
        win = c_src_
        wshape = [s for i, s in enumerate(win.shape) if i not in (win.squeezed or ())]
        ls = PS - Rv * n_dst
        lx, ly = (ls, PP) if axis == "x" else (PP, ls)
        csx, csy = _src_coord(c_kw, lx, ly)
        c_s, c_p = (csx, csy) if axis == "x" else (csy, csx)
        w_s, w_p = (wshape[1], wshape[0]) if axis == "x" else (wshape[0], wshape[1])
        inside_c = And(0 <= c_s, c_s < w_s, 0 <= c_p, c_p < w_p)
        prove("chunk_reaches_a_source_pixel_where_the_whole_array_does", inside_c, when=inside)
        prove("chunk_reaches_no_source_pixel_where_the_whole_array_does_not", Not(inside_c), when=Not(inside))
        if inside:  # forks
            G = symx.s_floor(own_s)
            j_s, j_p = symx.s_floor(c_s), symx.s_floor(c_p)
            offs = [0]
            for v in ch:
                offs.append(offs[-1] + v)
            covs = []
            a_s = ydim + (1 if axis == "x" else 0)
            a_p = ydim + (0 if axis == "x" else 1)
            for d_roi, b, s_roi in win.writes:
                ds, dp = d_roi[a_s], d_roi[a_p]
                ss, sp = s_roi[a_s], s_roi[a_p]
                ds0 = 0 if ds.start is None else ds.start
                dp0 = 0 if dp.start is None else dp.start
                cov = And(ds0 <= j_s, j_s < ds.stop, dp0 <= j_p, j_p < dp.stop)
                bi = b.name[a_s]
                L = f"block{bi}"
                prove(L + ":sampled_pixel_is_the_one_the_whole_array_route_samples", And(offs[bi] + ss.start + (j_s - ds0) == G, sp.start + (j_p - dp0) == PP), when=cov)
                if extra == "lead1":
                    prove(L + ":same_plane", And(s_roi[0].start == Pv, s_roi[0].stop == Pv + 1), when=cov)
                elif extra == "lead2":
                    prove(L + ":same_plane", b.name[0] == Pv, when=cov)
                covs.append(cov)
            prove("sampled_pixel_comes_from_a_source_block", Or(*covs) if covs else False)
    finally:
        warp.rasterio.warp.reproject = real_reproject


def _flat(x):
    if isinstance(x, list):
        for y in x:
            yield from _flat(y)
    else:
        yield x


# ---- V3: per-chunk work for any set of needed source tiles (the non-linear route) ---------------
def h_chunk_any_selection(nsel, extra):
    """_do_chunked_reproject with a dependency list that is not a rectangle of tiles (what rotated
    grids and other CRSs produce): the window handed to the warper is the block spanned by the
    listed tiles, georeferenced as that crop of the source, every pixel of a listed tile sits in
    it where the crop says, from the block that was handed over for that tile"""
    import numpy as real_np

    import odc.geo._dask as dk
    import odc.geo.geobox as gbx
    import odc.geo.warp as warp
    from affine import Affine

    conc = symx.concrete_mode()
    chy = tuple(Int(f"cy{i}", 1, 40) for i in range(3))
    chx = tuple(Int(f"cx{i}", 1, 40) for i in range(3))
    NY, NX = symx.s_sum(chy), symx.s_sum(chx)
    src_g = gbx.GeoBox((NY, NX), Affine(rconst(10), 0.0, Real("c"), 0.0, rconst(-10), Real("f")), "epsg:3857")
    dst_g = gbx.GeoBox((6, 8), Affine(rconst(7), rconst(2), Real("dc"), rconst(-2), rconst(-7), Real("df")), "epsg:3857")
    src_gbt = gbx.GeoboxTiles(src_g, (chy, chx))
    dst_gbt = gbx.GeoboxTiles(dst_g, (6, 8))
    sel = []
    for k_ in range(nsel):
        r, c = Int(f"r{k_}", 0, 2), Int(f"q{k_}", 0, 2)
        for r2, c2 in sel:
            assume(Or(r != r2, c != c2))
        sel.append((r, c))
    selv = [(r.__index__() if isinstance(r, symx.Sym) else r, c.__index__() if isinstance(c, symx.Sym) else c) for r, c in sel]
    ydim = 0 if extra == "none" else 1
    lead = () if extra == "none" else (T,)
    offy, offx = [0], [0]
    for v in chy:
        offy.append(offy[-1] + v)
    for v in chx:
        offx.append(offx[-1] + v)
    # probed source pixel inside the k-th listed tile
    kk = Int("kk", 0, nsel - 1)
    kv = kk.__index__() if isinstance(kk, symx.Sym) else kk
    tr, tc_ = selv[kv]
    I, J = Int("I"), Int("J")
    assume(And(offy[tr] <= I, I < offy[tr + 1], offx[tc_] <= J, J < offx[tc_ + 1]))
    if conc:
        shape = (*lead, NY, NX)
        n = 1
        for s_ in shape:
            n *= s_
        data = (real_np.arange(n).reshape(shape) % 250 + 1).astype("int16")
        blocks = [data[(..., slice(offy[r], offy[r + 1]), slice(offx[c], offx[c + 1]))] for r, c in selv]
        seen = []
        real_rr = dk._rio_reproject

        def rec(src_, dst_, s_gbox, d_gbox, resampling=None, src_nodata=None, dst_nodata=None, **kw):  # the signature of _rio_reproject
            seen.append((real_np.array(src_), s_gbox, d_gbox))
            return dst_

        dk._rio_reproject = rec
        try:
            dk._do_chunked_reproject({(0, 0): selv}, src_gbt, dst_gbt, (0, 0), *blocks, axis=ydim)
        finally:
            dk._rio_reproject = real_rr
        win, sg, dg = seen[0]
        x0, y0 = (~src_g.affine) * (sg.affine * (0, 0))
        i, j = I - int(round(y0)), J - int(round(x0))
        ok = 0 <= i < win.shape[0] and 0 <= j < win.shape[1] and win[i, j] == data[(*([0] * len(lead)), I, J)]
        prove("window_holds_the_pixel_where_the_crop_says", bool(ok))
        prove("destination_grid_is_the_chunk", dg == dst_g)
        return

    from ..npmodel import FakeBlock, RecArray

    blocks = [FakeBlock((r, c), (*lead, chy[r], chx[c]), "int16") for r, c in selv]
    calls = []
    real_reproject = warp.rasterio.warp.reproject
    warp.rasterio.warp.reproject = lambda source, destination=None, **kw: calls.append((source, destination, kw))
    try:
        res = dk._do_chunked_reproject({(0, 0): selv}, src_gbt, dst_gbt, (0, 0), *blocks, axis=ydim)
    finally:
        warp.rasterio.warp.reproject = real_reproject
    prove("one_warp_per_plane", len(calls) == (1 if extra == "none" else T))
    prove("chunk_has_the_destination_shape", isinstance(res, RecArray) and tuple(res.shape) == (*lead, 6, 8))
    win, c_dst, kw = calls[0]
    prove("warp_reads_an_assembled_window", isinstance(win, RecArray) and win.ndim == 2)
    st, dt = kw["src_transform"], kw["dst_transform"]
    prove("destination_transform_is_the_chunks", And(*[ex(a) == ex(b) for a, b in zip(tuple(dt)[:6], tuple(dst_g.affine)[:6])]))
    # the crop: pixel (0,0) of the window is source pixel (X0, Y0), same pixel size
    x0, y0 = (~src_g.affine) * (st * (0, 0))
    prove("window_has_the_source_pixel_size", And(ex(st.a) == 10, ex(st.e) == -10, ex(st.b) == 0, ex(st.d) == 0))
    prove("window_starts_on_a_source_pixel", And(ex(x0) == symx.s_floor(ex(x0)), ex(y0) == symx.s_floor(ex(y0))))
    i, j = I - ex(y0), J - ex(x0)
    wshape = [s_ for a, s_ in enumerate(win.shape) if a not in (win.squeezed or ())]
    prove("listed_tile_pixel_is_inside_the_window", And(0 <= i, i < wshape[0], 0 <= j, j < wshape[1]))
    covs = []
    for d_roi, b, s_roi in win.writes:
        dy, dx = d_roi[ydim], d_roi[ydim + 1]
        sy, sx = s_roi[ydim], s_roi[ydim + 1]
        dy0 = 0 if dy.start is None else dy.start
        dx0 = 0 if dx.start is None else dx.start
        cov = And(dy0 <= i, i < dy.stop, dx0 <= j, j < dx.stop)
        br, bc = b.name
        prove(f"tile{br}{bc}:pixel_comes_from_its_own_block_at_its_own_offset",
              And(br == tr, bc == tc_, sy.start + (i - dy0) == I - offy[tr], sx.start + (j - dx0) == J - offx[tc_]), when=cov)
        covs.append(cov)
    prove("listed_tile_pixel_is_written_into_the_window", Or(*covs) if covs else False)
    prove("each_block_is_used_once", len(win.writes) == nsel)


# ---- V5: a source georeferenced by control points ------------------------------------------------
class _MapStub:
    """stands for a fitted GCPMapping: only its CRS is looked at on this route"""

    def __init__(self):
        from odc.geo.crs import CRS

        self.crs = CRS("epsg:4326")

    def __dask_tokenize__(self):
        return ("gcp-mapping-stub",)


def h_gcp_source(nsel):
    """a dask-backed raster georeferenced by control points goes through the same graph: no
    refusal, the chunk's task assembles the crop spanned by the needed tiles and warps it with the
    control-point grid of that crop (which tiles are needed comes from footprints through PROJ:
    here a prepared list)"""
    import numpy as real_np

    import odc.geo._dask as dk
    import odc.geo.geobox as gbx
    from affine import Affine
    from odc.geo.gcp import GCPGeoBox

    conc = symx.concrete_mode()
    if conc:
        import dask.array as da

        from odc.geo import geom
        from odc.geo.gcp import GCPMapping
        from odc.geo.xr import wrap_xr, xr_reproject

        gbox0 = gbx.GeoBox.from_bbox([0, 0, 20, 10], crs="epsg:4326", resolution=1)
        px, py = gbox0.boundary(4).T
        pix = geom.multipoint([(float(x), float(y)) for x, y in zip(px.tolist(), py.tolist())], None)
        gg = GCPGeoBox(gbox0.shape, GCPMapping(pix, gbox0.project(pix)))
        data = (real_np.arange(200).reshape(10, 20) % 200 + 1).astype("uint8")
        ra = xr_reproject(wrap_xr(data, gg, nodata=255), gbox0.pad(2)).values
        rb = xr_reproject(wrap_xr(da.from_array(data, chunks=(5, 5)), gg, nodata=255), gbox0.pad(2), chunks=(7, 7)).values
        prove("chunked_result_equals_whole_array_result", bool(real_np.array_equal(ra, rb)))
        return

    from ..npmodel import FakeBlock, RecArray

    chy = tuple(Int(f"cy{i}", 1, 40) for i in range(3))
    chx = tuple(Int(f"cx{i}", 1, 40) for i in range(3))
    NY, NX = symx.s_sum(chy), symx.s_sum(chx)
    mp = _MapStub()
    src_g = GCPGeoBox((NY, NX), mp)
    dst_g = gbx.GeoBox((6, 8), Affine(rconst(7), rconst(2), Real("dc"), rconst(-2), rconst(-7), Real("df")), "epsg:3857")
    sel = []
    for k_ in range(nsel):
        r, c = Int(f"r{k_}", 0, 2), Int(f"q{k_}", 0, 2)
        for r2, c2 in sel:
            assume(Or(r != r2, c != c2))
        sel.append((r, c))
    selv = [(r.__index__() if isinstance(r, symx.Sym) else r, c.__index__() if isinstance(c, symx.Sym) else c) for r, c in sel]
    offy, offx = [0], [0]
    for v in chy:
        offy.append(offy[-1] + v)
    for v in chx:
        offx.append(offx[-1] + v)
    kk = Int("kk", 0, nsel - 1)
    kv = kk.__index__() if isinstance(kk, symx.Sym) else kk
    tr, tc_ = selv[kv]
    I, J = Int("I"), Int("J")
    assume(And(offy[tr] <= I, I < offy[tr + 1], offx[tc_] <= J, J < offx[tc_ + 1]))
    src = _FakeSrc((chy, chx), (40, 40), "uint8")
    saved_gi = gbx.GeoboxTiles.grid_intersect
    saved_rr = dk._rio_reproject
    seen = []

    def rec(src_, dst_, s_gbox, d_gbox, resampling=None, src_nodata=None, dst_nodata=None, **kw):  # the signature of _rio_reproject
        seen.append((src_, dst_, s_gbox, d_gbox, dict(kw, resampling=resampling, src_nodata=src_nodata, dst_nodata=dst_nodata)))
        return dst_

    gbx.GeoboxTiles.grid_intersect = lambda self, other: {(0, 0): list(selv)}
    dk._rio_reproject = rec
    try:
        try:
            out = dk._dask_rio_reproject(src, src_g, dst_g, "nearest", src_nodata=255, dst_nodata=255, chunks=(6, 8))
        except AssertionError:
            prove("a_control_point_source_is_not_refused", False)
            return
        task = out.dsk.dsk[(out.name, 0, 0)]
        proc, yx, *bkeys = task
        prove("dependencies_are_the_needed_tiles_in_order", [tuple(b[1:]) for b in bkeys] == selv)
        blocks = [FakeBlock(tuple(b[1:]), (chy[b[1]], chx[b[2]]), "uint8") for b in bkeys]
        res = proc(yx, *blocks)
    finally:
        gbx.GeoboxTiles.grid_intersect = saved_gi
        dk._rio_reproject = saved_rr
    prove("one_warp", len(seen) == 1)
    win, c_dst, sg, dg, kw = seen[0]
    prove("warped_into_the_chunk", isinstance(res, RecArray) and (c_dst is res or getattr(c_dst, "base", None) is res) and tuple(res.shape) == (6, 8))
    prove("destination_grid_is_the_chunk", dg == dst_g if not isinstance(dg.affine.c, symx.Sym) else And(*[ex(a) == ex(b) for a, b in zip(tuple(dg.affine)[:6], tuple(dst_g.affine)[:6])]))
    prove("source_grid_is_a_crop_of_the_control_point_grid", isinstance(sg, GCPGeoBox) and sg._mapping is mp)
    A_ = sg._affine
    x0, y0 = A_ * (0, 0)
    prove("crop_is_a_whole_pixel_shift", And(ex(A_.a) == 1, ex(A_.e) == 1, ex(A_.b) == 0, ex(A_.d) == 0, ex(x0) == symx.s_floor(ex(x0)), ex(y0) == symx.s_floor(ex(y0))))
    i, j = I - ex(y0), J - ex(x0)
    prove("window_has_the_crop_shape", And(win.shape[0] == sg.shape.y, win.shape[1] == sg.shape.x))
    prove("needed_tile_pixel_is_inside_the_window", And(0 <= i, i < win.shape[0], 0 <= j, j < win.shape[1]))
    covs = []
    for d_roi, b, s_roi in win.writes:
        dy, dx = d_roi[0], d_roi[1]
        sy, sx = s_roi[0], s_roi[1]
        dy0 = 0 if dy.start is None else dy.start
        dx0 = 0 if dx.start is None else dx.start
        cov = And(dy0 <= i, i < dy.stop, dx0 <= j, j < dx.stop)
        br, bc = b.name
        prove(f"tile{br}{bc}:pixel_comes_from_its_own_block_at_its_own_offset",
              And(br == tr, bc == tc_, sy.start + (i - dy0) == I - offy[tr], sx.start + (j - dx0) == J - offx[tc_]), when=cov)
        covs.append(cov)
    prove("needed_tile_pixel_is_written_into_the_window", Or(*covs) if covs else False)
    prove("nodata_handed_on", kw.get("src_nodata") == 255 and kw.get("dst_nodata") == 255)


# ---- V4: graph names ------------------------------------------------------------------------------
def _inj_token(*args, **kw):
    """injective stand-in for dask.base.tokenize: equal tokens only for structurally equal arguments"""

    def norm(x):
        if hasattr(x, "__dask_tokenize__"):
            return ("T", norm(x.__dask_tokenize__()))
        if isinstance(x, (tuple, list)):
            return tuple(norm(v) for v in x)
        if isinstance(x, dict):
            return tuple(sorted((str(k_), norm(v)) for k_, v in x.items()))
        if isinstance(x, symx.Sym):
            return ("sym", str(x.t))
        if x is None or isinstance(x, (int, float, str, bool)):
            return x
        if hasattr(x, "tolist"):
            return ("arr", norm(x.tolist()))
        if hasattr(x, "name") and hasattr(x, "value"):
            return ("enum", str(x))
        return ("id", id(x))

    return "tok" + repr(norm((args, kw)))


def h_graph_names(vary):
    """two reprojection requests that differ in one parameter never share task keys (dask would
    hand the result of one to the other when they are computed together)"""
    import numpy as real_np

    import odc.geo._dask as dk

    conc = symx.concrete_mode()
    Ns, Nd = 8, 5
    t = Real("t")
    assume(And(t >= 1, t <= 2))
    src_g, dst_g = _grids("1", 1, "x", Ns, Nd, t, Real("o"))
    a = dict(src_nodata=None, dst_nodata=None, resampling="nearest", chunks=(8, 3), d=dst_g)
    b = dict(a)
    if vary == "dst_nodata":
        b["dst_nodata"] = -1
    elif vary == "src_nodata":
        b["src_nodata"] = -9999
    elif vary == "both_nodata":
        a.update(src_nodata=-9999)
        b.update(src_nodata=-9999, dst_nodata=0)
    elif vary == "resampling":
        b["resampling"] = "bilinear"
    elif vary == "chunks":
        b["chunks"] = (8, 4)
    elif vary == "grid":
        b["d"] = dst_g.translate_pix(1, 0) if conc else _grids("1", 1, "x", Ns, Nd, t + 1, src_g.affine.c)[1]
    if conc:
        import dask.array as da

        src = da.from_array(real_np.ones((PIN, Ns), dtype="int16"), chunks=(PIN, 4))
    else:
        ch = (Ns,)
        src = _FakeSrc(((PIN,), ch), (PIN, 8), "int16")
        for nm in ("tokenize",):
            if hasattr(dk, nm):
                setattr(dk, nm, _inj_token)
        import dask.base as db

        saved_tok = db.tokenize
        db.tokenize = _inj_token
    try:
        outs = [dk._dask_rio_reproject(src, src_g, p_["d"], p_["resampling"], src_nodata=p_["src_nodata"], dst_nodata=p_["dst_nodata"], ydim=0, chunks=p_["chunks"]) for p_ in (a, b)]
    finally:
        if not conc:
            db.tokenize = saved_tok
    prove("requests_that_differ_have_different_graph_names", outs[0].name != outs[1].name)
    if conc:
        k0 = set(map(str, outs[0].__dask_graph__().keys()))
        k1 = set(map(str, outs[1].__dask_graph__().keys()))
        own0 = {k_ for k_ in k0 if k_.startswith("('reproject")}
        own1 = {k_ for k_ in k1 if k_.startswith("('reproject")}
        prove("requests_that_differ_share_no_reproject_task", not (own0 & own1))


# ---- V1: fill value ---------------------------------------------------------------------------
# ---- V6: the in-memory route over arrays with more than two dimensions ---------------------------
LAYOUTS = {
    # name: (axes before y, axes after x, ydim argument)
    "tyx": ((2,), (), 1),
    "tyx_default": ((2,), (), None),
    "yxb": ((), (3,), 0),
    "tyxb": ((2,), (3,), 1),
    "abyx": ((2, 3), (), None),
    "tyxb1": ((2,), (1,), 1),
    "t1yxb": ((1,), (3,), 1),
}


def h_in_memory_planes(layout, dtype="int16"):
    """rio_reproject(src, dst, ...) on N-d arrays: every 2-D plane of the caller's source is warped
    once into the same plane of the caller's destination, with the same grids and options"""
    import numpy as real_np

    import odc.geo.warp as warp

    before, after, ydim = LAYOUTS[layout]
    yd = len(before)
    Hs, Ws, Hd, Wd = Int("Hs", 1, 4096), Int("Ws", 1, 4096), Int("Hd", 1, 4096), Int("Wd", 1, 4096)
    t, o = Real("t"), Real("o")
    from affine import Affine

    import odc.geo.geobox as gbx

    src_g = gbx.GeoBox((Hs, Ws), Affine(rconst(10), 0.0, o, 0.0, rconst(-10), rconst(500)), "epsg:3857")
    dst_g = gbx.GeoBox((Hd, Wd), Affine(rconst(20), 0.0, o + 10 * t, 0.0, rconst(-20), rconst(480)), "epsg:3857")
    sn, dn = NODATA[dtype] if dtype in NODATA else (None, None)
    if symx.concrete_mode():
        shape_s, shape_d = (*before, Hs, Ws, *after), (*before, Hd, Wd, *after)
        n = 1
        for v in shape_s:
            n *= v
        data = (real_np.arange(n).reshape(shape_s) * 7 % 199 + 1).astype(dtype)
        out = real_np.empty(shape_d, dtype=dtype)
        out[...] = 77
        got = warp.rio_reproject(data, out, src_g, dst_g, "nearest", src_nodata=sn, dst_nodata=dn, ydim=ydim)
        prove("returns_the_callers_destination", got is out)
        ok = True
        for idx in real_np.ndindex(*before, *after):
            roi = (*idx[:yd], slice(None), slice(None), *idx[yd:])
            ref = real_np.empty((Hd, Wd), dtype=dtype)
            warp.rio_reproject(real_np.ascontiguousarray(data[roi]), ref, src_g, dst_g, "nearest", src_nodata=sn, dst_nodata=dn)
            ok = ok and bool(real_np.array_equal(out[roi], ref))
        prove("every_plane_of_the_destination_is_the_warp_of_the_same_plane_of_the_source", ok)
        return
    from ..npmodel import FakeBlock, RecArray, RecView

    src = FakeBlock("whole", (*before, Hs, Ws, *after), dtype)
    dst = RecArray((*before, Hd, Wd, *after), None, real_np.dtype(dtype))
    calls = []
    real_reproject = warp.rasterio.warp.reproject

    def fake_reproject(source, destination=None, **kw):  # rasterio.warp.reproject's own parameter names
        calls.append((source, destination, kw))

    warp.rasterio.warp.reproject = fake_reproject
    try:
        got = warp.rio_reproject(src, dst, src_g, dst_g, "nearest", src_nodata=sn, dst_nodata=dn, ydim=ydim)
    finally:
        warp.rasterio.warp.reproject = real_reproject
    prove("returns_the_callers_destination", got is dst)
    planes = list(real_np.ndindex(*before, *after))
    prove("one_warp_per_plane", len(calls) == len(planes))

    def _roi_of(v):
        r = v.roi if isinstance(v.roi, tuple) else (v.roi,)
        return tuple(int(x) if isinstance(x, (int, real_np.integer)) else x for x in r)

    for idx in planes:
        roi = (*idx[:yd], slice(None), slice(None), *idx[yd:])
        mine = [c for c in calls if isinstance(c[1], RecView) and _roi_of(c[1]) == roi]
        prove(f"plane{list(idx)}_warped_once_into_its_place", len(mine) == 1)
        if len(mine) != 1:
            continue
        c_src, c_dst, kw = mine[0]
        prove(f"plane{list(idx)}_lands_in_the_callers_destination", c_dst.base is dst)
        prove(f"plane{list(idx)}_reads_the_same_plane_of_the_callers_source", isinstance(c_src, RecView) and (c_src.base is src or getattr(c_src.base, "copy_of", None) is src) and _roi_of(c_src) == roi)
        prove(f"plane{list(idx)}_grids_and_nodata", kw.get("src_transform") == src_g.transform and kw.get("dst_transform") == dst_g.transform and _same_value(kw.get("src_nodata"), sn) and _same_value(kw.get("dst_nodata"), dn))


def h_fill_value(dtype):
    import numpy as real_np

    import odc.geo._dask as dk

    s, d = NODATA.get(dtype, (1, 0))
    if dtype == "bool":
        s, d = True, False
    has_s, has_d = Bool("has_src_nodata"), Bool("has_dst_nodata")
    sn = s if has_s else None
    dn = d if has_d else None
    got = dk.resolve_fill_value(dn, sn, dtype)
    prove("fill_has_the_array_dtype", real_np.asarray(got).dtype == real_np.dtype(dtype))
    if dn is not None:
        prove("destination_nodata_first", bool(got == real_np.dtype(dtype).type(dn)))
    elif sn is not None:
        prove("then_source_nodata", bool(got == real_np.dtype(dtype).type(sn)))
    elif real_np.dtype(dtype).kind == "f":
        prove("nan_for_floats", bool(got != got))
    else:
        prove("zero_otherwise", bool(got == 0))


def _grid(tier):
    q = []

    def add(**kw):
        base = dict(k="1", mx=1, fam="regular", c_src=2, n_src=4, n_dst=3, axis="x", extra="none", dtype="int16", nodata="none", dchunks="explicit")
        base.update(kw)
        q.append(base)

    # scale / mirroring / chunk families on both axes
    add()
    add(k="2", axis="y", fam="irregular", c_src=3, dtype="float32")
    add(k="1/2", mx=-1, nodata="src", dtype="uint8")
    add(k="3/2", axis="y", c_src=3, nodata="dst", dtype="float64")
    add(k="1", fam="irregular", c_src=2, extra="lead1", nodata="both", dtype="float32")
    add(k="1", dchunks="default", c_src=3, extra="lead2", dtype="uint8", nodata="zero")
    add(k="3", mx=-1, axis="y", fam="irregular", c_src=2, nodata="none", dtype="float64")
    if tier == "quick":
        return q
    for k in ("1", "2", "3", "1/2", "3/2", "1/3"):
        for mx in (1, -1):
            for fam, c_src in (("regular", 1), ("regular", 3), ("irregular", 2), ("irregular", 3)):
                for axis in ("x", "y"):
                    i = len(q)
                    add(k=k, mx=mx, fam=fam, c_src=c_src, axis=axis, extra=("none", "lead1", "lead2")[i % 3],
                        dtype=("uint8", "int16", "float32", "float64")[i % 4], nodata=("none", "src", "dst", "both", "zero")[i % 5],
                        dchunks=("default" if (fam == "regular" and i % 2) else "explicit"), n_src=(4, 3, 7)[i % 3], n_dst=(3, 5, 2)[(i // 2) % 3])
    return q


V2 = dict(
    functions=("odc.geo._dask._dask_rio_reproject", "odc.geo._dask._do_chunked_reproject", "odc.geo._dask.resolve_fill_value", "odc.geo.warp.rio_reproject", "odc.geo.warp._rio_reproject",
               "odc.geo.geobox.GeoboxTiles.grid_intersect", "odc.geo.geobox.GeoboxTiles.clip", "odc.geo._blocks.BlockAssembler.extract", "odc.geo._blocks.BlockAssembler.planes_yx"),
    bounds="relative scale, mirroring, chunk family/count, tile sizes, pixel type and nodata mode from the parameter grid; source chunk sizes, destination size (<= 2 chunks), translation, origin, probed pixel and plane symbolic",
    stubs=("rasterio.warp.reproject recorder + pixel-centre rule", "dask.array.Array / HighLevelGraph recorders", "NumpyModel (recording full/zeros/copyto)", "range stand-in"),
    setup=setup, timeout_ms=20000, max_paths=6000, deadline_s=900.0,
)

OBLIGATIONS = [
    Ob("V1_fill_value", h_fill_value, fixed(*[dict(dtype=d) for d in ("uint8", "int16", "float32", "float64", "bool")]),
       descr="fill value: destination nodata, else source nodata, else NaN for floats, else zero, in the array's dtype", functions=("odc.geo._dask.resolve_fill_value",), setup=setup),
    Ob("V3_chunk_work_any_selection", h_chunk_any_selection, tiered([dict(nsel=2, extra="none"), dict(nsel=2, extra="lead")], [dict(nsel=n, extra=e) for n in (1, 2, 3) for e in ("none", "lead")]),
       descr="_do_chunked_reproject with a dependency list that is not a rectangle of tiles (rotated grids / other CRSs): the window is the crop of the source spanned by the listed tiles, every pixel of a listed tile sits where the crop says, from the block handed over for that tile",
       functions=("odc.geo._dask._do_chunked_reproject", "odc.geo.geobox.GeoboxTiles.clip", "odc.geo.roi.clip_tiles", "odc.geo._blocks.BlockAssembler.extract", "odc.geo.warp._rio_reproject"),
       bounds="3x3 source tiling with symbolic chunk sizes (1..40), 1..3 distinct listed tiles at symbolic positions, symbolic probed pixel; destination chunk rotated/sheared (fixed linear part), symbolic origins",
       stubs=("rasterio.warp.reproject recorder", "NumpyModel (recording full/zeros/copyto)"), setup=setup, timeout_ms=20000, deadline_s=900.0),
    Ob("V5_gcp_source", h_gcp_source, tiered([dict(nsel=2)], [dict(nsel=1), dict(nsel=2), dict(nsel=3)]),
       descr="a dask-backed raster georeferenced by control points: not refused; the chunk's task assembles the crop spanned by the needed tiles and warps it with the control-point grid of that crop",
       functions=("odc.geo._dask._dask_rio_reproject", "odc.geo._dask._do_chunked_reproject", "odc.geo.geobox.GeoboxTiles.clip", "odc.geo.gcp.GCPGeoBox.__getitem__", "odc.geo._blocks.BlockAssembler.extract"),
       bounds="3x3 source tiling with symbolic chunk sizes, 1..3 needed tiles at symbolic positions, symbolic probed pixel", stubs=("GeoboxTiles.grid_intersect returns the prepared list (PROJ footprints are outside)", "_rio_reproject recorded", "mapping stand-in"), setup=setup, timeout_ms=20000),
    Ob("V4_graph_names", h_graph_names, fixed(*[dict(vary=v) for v in ("dst_nodata", "src_nodata", "both_nodata", "resampling", "chunks", "grid")]),
       descr="two requests on the same source that differ in nodata, resampling, destination chunking or destination grid never share task keys",
       functions=("odc.geo._dask._dask_rio_reproject",), bounds="offset between the grids symbolic (fixed sizes); the differing parameter from a list", stubs=("dask.base.tokenize replaced by an injective stand-in", "dask.array.Array / HighLevelGraph recorders"), setup=setup),
    Ob("V6_in_memory_planes", h_in_memory_planes, fixed(*[dict(layout=l) for l in LAYOUTS]),
       descr="the whole-array route over arrays with more than two dimensions (axes before y, after x, or both; ydim given or defaulted): every 2-D plane of the caller's source is warped once into the same plane of the caller's destination (no plane lands in a temporary), same grids and nodata for every plane; replay against plane-by-plane 2-D reprojection with real GDAL",
       functions=("odc.geo.warp.rio_reproject", "odc.geo.warp._rio_reproject"), bounds="image sizes 1..4096 symbolic; extra axes of length 1..3 from a list of layouts; relative offset symbolic",
       stubs=("rasterio.warp.reproject recorder", "recording arrays (indexing, moveaxis/reshape with numpy's view-or-copy rule)"), setup=setup, timeout_ms=20000),
    Ob("V2_chunked_equals_whole", h_chunked, lambda tier, rng: _grid(tier),
       descr="for a symbolic destination pixel the chunked route and the whole-array route sample the same source pixel, reach a source pixel for the same pixels, and leave the same (the statement's) fill value elsewhere; graph shape, keys, chunk table",
       **V2),
]
