"""C14 -- a GridSpec tiles the plane without gaps or overlaps."""
from __future__ import annotations

import math
from fractions import Fraction as F

from .. import shims, symx
from ..runner import Ob, fixed, tiered
from ..symx import (And, Bool, Implies, Int, Not, Or, Real, assume, const, ex, ite, prove,
                    rconst, s_max, s_min)

EXPLANATION = (
    "The real GridSpec / Bin1D code run with symbolic origins, tile indices (any sign), points and query boxes; tile "
    "shape and resolution (either sign) and the flip flags from a grid. Decided: tiles with distinct indices are "
    "disjoint, neighbours share their edge exactly, pt2idx's tile contains the point, tile GeoBoxes have the specified "
    "shape/resolution/corner, idx_bounds returns exactly the tiles overlapping the box beyond the 1e-8 tolerance, "
    "from_sample_tile reconstructs the same grid, web_tiles(z) matches the slippy-map extents."
    " Polygon queries with multi-part stand-in geometries (mere edge contact is not an overlap; a cache shared between queries does "
    "not change the answer), web tiles up to zoom 30 to within 1/20 pixel."
)
ASSUMPTIONS = [
    "floats as exact reals; tile shape / resolution from a finite grid (they multiply), origin / indices / points / boxes symbolic and unbounded",
    "polygon queries (shapely disjoint filter) and queries in another CRS are outside the claim",
    "idx_bounds is checked for query boxes wider than twice its 1e-8 tolerance per axis",
    "web_tiles: float rounding in the library's own construction is allowed for: edges within 2^z * 2e-9 + 1e-8 m",
    "a real pyproj CRS object (EPSG:3857 / 4326) is attached; only its identity/equality is used",
]
TOL = F(1e-8)


def setup():
    shims.install_core()


def mk_gs(shape, res, flipx, flipy, origin="sym"):
    import odc.geo.gridspec as gs
    from odc.geo.types import resxy_, xy_

    if origin == "sym":
        ox, oy = Real("ox"), Real("oy")
    else:
        ox, oy = rconst(0), rconst(0)
    rx, ry = rconst(F(res[0])), rconst(F(res[1]))
    g = gs.GridSpec("epsg:3857", tuple(shape), resxy_(rx, ry), origin=xy_(ox, oy), flipx=flipx, flipy=flipy)
    return g, ex(ox), ex(oy)


def tile_extent(g, ix, iy):
    """world extent of a tile computed from its GeoBox (x0 <= x1, y0 <= y1)"""
    gb = g.tile_geobox((ix, iy))
    ny, nx = gb.shape.yx
    ax, ay = gb.pix2wld(0, 0)
    bx, by = gb.pix2wld(nx, ny)
    ax, ay, bx, by = ex(ax), ex(ay), ex(bx), ex(by)
    return gb, (ax, bx), (ay, by)


def _ord(pair, positive):
    a, b = pair
    return (a, b) if positive else (b, a)


def h_tile_geobox(shape, res, flipx, flipy):
    g, ox, oy = mk_gs(shape, res, flipx, flipy)
    ix, iy = Int("ix"), Int("iy")
    gb, xs, ys = tile_extent(g, ix, iy)
    rx, ry = F(res[0]), F(res[1])
    ny, nx = shape
    prove("shape", And(gb.shape.y == ny, gb.shape.x == nx))
    A = gb.affine
    prove("resolution", And(ex(A.a) == rx, ex(A.e) == ry, ex(A.b) == 0, ex(A.d) == 0))
    x0, x1 = _ord(xs, rx > 0)
    y0, y1 = _ord(ys, ry > 0)
    sx, sy = nx * abs(rx), ny * abs(ry)
    dx = -1 if flipx else 1
    dy = -1 if flipy else 1
    # footprint = product of the two bin intervals
    prove("footprint_x", And(x0 == ox + ix * dx * sx, x1 == x0 + sx))
    prove("footprint_y", And(y0 == oy + iy * dy * sy, y1 == y0 + sy))
    # pixel (0,0) sits at the corner selected by the resolution signs
    px, py = gb.pix2wld(0, 0)
    prove("corner", And(ex(px) == (x0 if rx > 0 else x1), ex(py) == (y0 if ry > 0 else y1)))
    gb2 = g[ix, iy]
    prove("getitem_same", And(gb2.affine.c == A.c, gb2.affine.f == A.f, gb2.shape.x == nx))
    prove("crs", gb.crs == g.crs)


def h_partition(shape, res, flipx, flipy):
    g, ox, oy = mk_gs(shape, res, flipx, flipy)
    rx, ry = F(res[0]), F(res[1])
    ix, iy, jx, jy = Int("ix"), Int("iy"), Int("jx"), Int("jy")
    _, xs, ys = tile_extent(g, ix, iy)
    _, xs2, ys2 = tile_extent(g, jx, jy)
    ax0, ax1 = _ord(xs, rx > 0)
    ay0, ay1 = _ord(ys, ry > 0)
    bx0, bx1 = _ord(xs2, rx > 0)
    by0, by1 = _ord(ys2, ry > 0)
    distinct = Or(ix != jx, iy != jy)
    prove("distinct_disjoint_interiors", Or(ax1 <= bx0, bx1 <= ax0, ay1 <= by0, by1 <= ay0), when=distinct)
    # neighbours share their common edge exactly
    dx = -1 if flipx else 1
    dy = -1 if flipy else 1
    _, nxs, nys = tile_extent(g, ix + dx, iy)
    n0, n1 = _ord(nxs, rx > 0)
    m0, m1 = _ord(nys, ry > 0)
    prove("x_neighbour_shares_edge", And(n0 == ax1, m0 == ay0, m1 == ay1))
    _, uxs, uys = tile_extent(g, ix, iy + dy)
    u0, u1 = _ord(uxs, rx > 0)
    v0, v1 = _ord(uys, ry > 0)
    prove("y_neighbour_shares_edge", And(v0 == ay1, u0 == ax0, u1 == ax1))


def h_pt2idx(shape, res, flipx, flipy):
    g, ox, oy = mk_gs(shape, res, flipx, flipy)
    rx, ry = F(res[0]), F(res[1])
    x, y = Real("x"), Real("y")
    idx = g.pt2idx(x, y)
    _, xs, ys = tile_extent(g, idx.x, idx.y)
    x0, x1 = _ord(xs, rx > 0)
    y0, y1 = _ord(ys, ry > 0)
    prove("point_in_its_tile", And(x0 <= ex(x), ex(x) < x1, y0 <= ex(y), ex(y) < y1))
    # and in no other tile
    jx, jy = Int("jx"), Int("jy")
    _, xs2, ys2 = tile_extent(g, jx, jy)
    bx0, bx1 = _ord(xs2, rx > 0)
    by0, by1 = _ord(ys2, ry > 0)
    inside = And(bx0 <= ex(x), ex(x) < bx1, by0 <= ex(y), ex(y) < by1)
    prove("point_in_exactly_one_tile", And(jx == idx.x, jy == idx.y), when=inside)


def h_idx_bounds(shape, res, flipx, flipy):
    from odc.geo.geom import BoundingBox

    g, ox, oy = mk_gs(shape, res, flipx, flipy)
    rx, ry = F(res[0]), F(res[1])
    l, b, w, h = Real("l"), Real("b"), Real("w"), Real("h")
    assume(And(w > 2 * TOL, h > 2 * TOL))
    bb = BoundingBox(l, b, l + w, b + h, g.crs)
    ix1, iy1, ix2, iy2 = g.idx_bounds(bb)
    jx, jy = Int("jx"), Int("jy")
    _, xs, ys = tile_extent(g, jx, jy)
    x0, x1 = _ord(xs, rx > 0)
    y0, y1 = _ord(ys, ry > 0)
    L, B, R, T = ex(l), ex(b), ex(l) + ex(w), ex(b) + ex(h)
    in_x = And(ix1 <= jx, jx < ix2)
    in_y = And(iy1 <= jy, jy < iy2)
    prove("range_nonempty", And(ix1 < ix2, iy1 < iy2))
    # returned tiles overlap the query (positive area), touching tiles are excluded
    prove("x_sound", And(x1 > L, x0 < R), when=in_x)
    prove("y_sound", And(y1 > B, y0 < T), when=in_y)
    # every tile overlapping by more than the tolerance is returned
    prove("x_complete", in_x, when=And(x1 > L + TOL, x0 < R - TOL))
    prove("y_complete", in_y, when=And(y1 > B + TOL, y0 < T - TOL))
    # edge contacts within the tolerance are excluded
    prove("x_touching_excluded", Not(in_x), when=Or(x1 <= L + TOL, x0 > R - TOL))
    prove("y_touching_excluded", Not(in_y), when=Or(y1 <= B + TOL, y0 > T - TOL))


def h_tiles_iter(shape, res, flipx, flipy):
    """GridSpec.tiles(bbox) enumerates exactly idx_bounds (small ranges by case split)"""
    from odc.geo.geom import BoundingBox

    g, ox, oy = mk_gs(shape, res, flipx, flipy, origin="zero")
    rx, ry = F(res[0]), F(res[1])
    sx, sy = shape[1] * abs(rx), shape[0] * abs(ry)
    l, b, w, h = Real("l"), Real("b"), Real("w"), Real("h")
    assume(And(w > 2 * TOL, h > 2 * TOL, w <= sx, h <= sy, l >= -2 * sx, l <= sx, b >= -2 * sy, b <= sy))
    bb = BoundingBox(l, b, l + w, b + h, g.crs)
    got = list(g.tiles(bb))
    ix1, iy1, ix2, iy2 = g.idx_bounds(bb)
    prove("count", len(got) == (ix2 - ix1) * (iy2 - iy1))
    for (tx, ty), gb in got:
        prove("idx_in_bounds", And(ix1 <= tx, tx < ix2, iy1 <= ty, ty < iy2))
        ref = g.tile_geobox((tx, ty))
        prove("geobox_matches", And(gb.affine.c == ref.affine.c, gb.affine.f == ref.affine.f))
    idxs = [t for t, _ in got]
    prove("no_duplicates", len({(int(a) if not isinstance(a, symx.Sym) else a.__index__(), int(b) if not isinstance(b, symx.Sym) else b.__index__()) for a, b in idxs}) == len(idxs))


class _Rects:
    """stand-in for a (multi-)polygon: a union of axis-aligned rectangles in the grid's CRS.  What
    the library asks of a geometry here -- to_crs, boundingbox, disjoint(tile footprint) -- is
    answered exactly (closed sets: touching is not disjoint, as in GEOS)"""

    def __init__(self, rects, crs):
        self.rects, self.crs = rects, crs

    def to_crs(self, crs, *a, **kw):
        return self

    @property
    def boundingbox(self):
        from odc.geo.geom import BoundingBox

        def ext(vals, lt):
            r = vals[0]
            for v in vals[1:]:
                if lt(v, r):
                    r = v
            return r

        ls, bs, rs, ts = zip(*self.rects)
        return BoundingBox(ext(ls, lambda a, b: a < b), ext(bs, lambda a, b: a < b), ext(rs, lambda a, b: a > b), ext(ts, lambda a, b: a > b), self.crs)

    def disjoint(self, other):
        ob = other.boundingbox
        for l, b, r, t in self.rects:
            if not (r < ob.left or ob.right < l or t < ob.bottom or ob.top < b):
                return False
        return True

    def touches(self, other):
        """GEOS: the two meet, but only along their boundaries (no part overlaps the other in area)"""
        ob = other.boundingbox
        meets = False
        for l, b, r, t in self.rects:
            if r > ob.left and ob.right > l and t > ob.bottom and ob.top > b:
                return False
            if not (r < ob.left or ob.right < l or t < ob.bottom or ob.top < b):
                meets = True
        return meets

    def intersects(self, other):
        return not self.disjoint(other)

    @property
    def area(self):
        a = 0
        for l, b, r, t in self.rects:
            a = a + (r - l) * (t - b)
        return a


def h_polygon_query(shape, res, flipx, flipy, nrect, arrangement="any", rows=2, warm_cache=False):
    """tiles_from_geopolygon with a (multi-part) stand-in geometry: a tile is returned iff its
    footprint meets one of the parts -- tiles of the bounding box that lie between the parts are
    not returned, tiles meeting a part in positive area always are"""
    from .c16 import setup_fakegeom

    if not symx.concrete_mode():
        setup_fakegeom()
    g, ox, oy = mk_gs(shape, res, flipx, flipy, origin="zero")
    rx, ry = F(res[0]), F(res[1])
    sx, sy = shape[1] * abs(rx), shape[0] * abs(ry)
    rects = []
    for k in range(nrect):
        l, b, w, h = Real(f"l{k}"), Real(f"b{k}"), Real(f"w{k}"), Real(f"h{k}")
        # parts at most half a tile wide/high inside a window of 3 x 2 tiles around the origin (room for an empty tile between two parts)
        if rows == 1:  # quick tier: the parts sit in one row of tiles
            assume(And(w > 2 * TOL, h > 2 * TOL, w <= sx / 2, h <= sy / 4, l >= -sx, l <= 3 * sx / 2, b >= sy / 8, b <= sy / 2))
        else:
            assume(And(w > 2 * TOL, h > 2 * TOL, w <= sx / 2, h <= sy / 2, l >= -sx, l <= 3 * sx / 2, b >= -sy / 2, b <= sy / 2))
        rects.append((l, b, l + w, b + h))
    if nrect == 2 and arrangement != "any":
        # the second part relative to the first (the cases cover every pair up to renaming the parts)
        (l0, b0, r0, t0), (l1, b1, r1, t1) = rects
        assume({"right": And(l1 >= r0, b1 < t0, b0 < t1), "above": And(b1 >= t0, l1 < r0, l0 < r1), "diagonal": And(l1 >= r0, Or(b1 >= t0, t1 <= b0)),
                "overlapping": And(l1 < r0, l0 < r1, b1 < t0, b0 < t1)}[arrangement])
    if symx.concrete_mode():
        # the replay asks GEOS itself
        import shapely.geometry as sg
        from odc.geo.geom import Geometry

        q = Geometry(sg.MultiPolygon([sg.box(*[float(v) for v in r_]) for r_ in rects]) if len(rects) > 1 else sg.box(*[float(v) for v in rects[0]]), g.crs)
    else:
        q = _Rects(rects, g.crs)
    if warm_cache:
        # state between queries: one cache dictionary shared by consecutive queries, as a caller
        # looping over many polygons would; an earlier query (a small square somewhere else) filled it
        cache = {}
        wl, wb = Real("warm_l"), Real("warm_b")
        assume(And(wl >= -sx, wl <= 3 * sx / 2, wb >= sy / 8, wb <= sy / 2))
        warm = [(wl, wb, wl + sx / 8, wb + sy / 8)]
        if symx.concrete_mode():
            import shapely.geometry as sg
            from odc.geo.geom import Geometry

            wq = Geometry(sg.box(*[float(v) for v in warm[0]]), g.crs)
        else:
            wq = _Rects(warm, g.crs)
        list(g.tiles_from_geopolygon(wq, geobox_cache=cache))
        got = [t for t, _ in g.tiles_from_geopolygon(q, geobox_cache=cache)]
    else:
        got = [t for t, _ in g.tiles_from_geopolygon(q)]
    jx, jy = Int("jx"), Int("jy")
    _, xs, ys = tile_extent(g, jx, jy)
    x0, x1 = _ord(xs, rx > 0)
    y0, y1 = _ord(ys, ry > 0)
    listed = Or(*[And(jx == t[0], jy == t[1]) for t in got]) if got else False
    meets_area = Or(*[And(x1 > ex(l) + TOL, x0 < ex(r) - TOL, y1 > ex(b) + TOL, y0 < ex(t) - TOL) for l, b, r, t in rects])
    apart = And(*[Or(x1 < ex(l), x0 > ex(r), y1 < ex(b), y0 > ex(t)) for l, b, r, t in rects])
    prove("every_tile_meeting_a_part_is_returned", listed, when=meets_area)
    prove("no_tile_apart_from_every_part_is_returned", Not(listed) if isinstance(listed, symx.Sym) else not listed, when=apart)
    if True:
        # contact along an edge or at a corner only (what the far side of a concave polygon's edge has) is not an overlap
        no_area = And(*[Or(x1 <= ex(l), x0 >= ex(r), y1 <= ex(b), y0 >= ex(t)) for l, b, r, t in rects])
        prove("tile_in_mere_edge_contact_with_the_polygon_is_not_returned", Not(listed) if isinstance(listed, symx.Sym) else not listed, when=And(no_area, Not(apart)))



class _FakeBox:
    def __init__(self, bbox, crs):
        self.boundingbox = bbox
        self.crs = crs


def h_from_sample(shape, res, flipx, flipy):
    import odc.geo.gridspec as gs
    from odc.geo import geom
    from odc.geo.geom import BoundingBox

    g, ox, oy = mk_gs(shape, res, flipx, flipy)
    rx, ry = F(res[0]), F(res[1])
    kx, ky = Int("kx"), Int("ky")
    gbk, xs, ys = tile_extent(g, kx, ky)
    x0, x1 = _ord(xs, rx > 0)
    y0, y1 = _ord(ys, ry > 0)
    if symx.concrete_mode():
        box = geom.box(float(x0), float(y0), float(x1), float(y1), g.crs)
    else:
        box = _FakeBox(BoundingBox(x0, y0, x1, y1, g.crs), g.crs)
    g2 = gs.GridSpec.from_sample_tile(box, shape=tuple(shape), idx=(kx, ky), flipx=flipx, flipy=flipy)
    jx, jy = Int("jx"), Int("jy")
    _, a, b = tile_extent(g, jx, jy)
    _, a2, b2 = tile_extent(g2, jx, jy)
    if symx.concrete_mode():
        tol = F(1, 10**11) * (1 + abs(a[0]) + abs(b[0]))  # float rounding of a few operations, not a share of the coordinate
        prove("same_footprint", all(abs(p - q) <= tol for p, q in zip(_ord(a, True) + _ord(b, True), _ord(a2, True) + _ord(b2, True))))
        return
    p0, p1 = _ord(a, rx > 0)
    q0, q1 = _ord(b, ry > 0)
    # rebuilt grid has square-signed resolution (x positive, y negative): compare footprints
    r0, r1 = a2 if True else a2
    prove("same_footprint_x", And(s_min(a2[0], a2[1]) == p0, s_max(a2[0], a2[1]) == p1))
    prove("same_footprint_y", And(s_min(b2[0], b2[1]) == q0, s_max(b2[0], b2[1]) == q1))
    prove("same_shape", g2.tile_shape == g.tile_shape)


def h_web_tiles(z, npix=256, before=()):
    """before: (zoom, npix) requests made earlier in the same process -- the grid asked for may not
    depend on them"""
    import odc.geo.gridspec as gs

    for z0, np0 in before:
        gs.GridSpec.web_tiles(z0, np0)
    g = gs.GridSpec.web_tiles(z) if npix == 256 else gs.GridSpec.web_tiles(z, npix=npix)
    n = 2**z
    x, y = Int("x", 0, n - 1), Int("y", 0, n - 1)
    gb, xs, ys = tile_extent(g, x, y)
    R = 6_378_137
    piR = F(math.pi) * R
    tsz = 2 * piR / n
    # a tile edge is one multiplication and one addition away from exact constants: a few units in
    # the last place of 2e7 m, whatever the zoom -- not an error that grows with the tile index
    # ... and in any case far below the library's own tolerance for "the same pixel grid" (1/20 pixel)
    tol = tsz / npix / 20 + F(1e-8)
    x0, x1 = xs  # rx > 0
    y1, y0 = ys  # ry < 0: pixel (0,0) at the top
    prove("left", abs(x0 - (-piR + x * tsz)) <= tol)
    prove("right", abs(x1 - (-piR + (x + 1) * tsz)) <= tol)
    prove("top", abs(y1 - (piR - y * tsz)) <= tol)
    prove("bottom", abs(y0 - (piR - (y + 1) * tsz)) <= tol)
    prove("npix", And(gb.shape.x == npix, gb.shape.y == npix))
    prove("pixel_size_is_tile_size_over_npix", And(abs(ex(gb.affine.a) - tsz / npix) <= tol / npix, abs(ex(gb.affine.e) + tsz / npix) <= tol / npix))
    prove("crs_3857", g.crs.epsg == 3857)
    # the whole map: tile (n-1, n-1) ends at the bottom right corner, 2^z tiles per side
    if z <= 4:
        _, xe, ye = tile_extent(g, n - 1, n - 1)
        prove("map_right_edge", abs(xe[1] - piR) <= tol)
        prove("map_bottom_edge", abs(ye[1] - (-piR)) <= tol)


def h_eq(shape, res, flipx, flipy):
    import odc.geo.gridspec as gs
    from odc.geo.types import resxy_, xy_

    g, ox, oy = mk_gs(shape, res, flipx, flipy)
    g2 = gs.GridSpec("epsg:3857", tuple(shape), resxy_(rconst(F(res[0])), rconst(F(res[1]))), origin=g.origin, flipx=flipx, flipy=flipy)
    prove("eq_reflexive", g == g2)
    d = Real("delta")
    assume(d != 0)
    g3 = gs.GridSpec("epsg:3857", tuple(shape), resxy_(rconst(F(res[0])), rconst(F(res[1]))), origin=xy_(g.origin.x + d, g.origin.y), flipx=flipx, flipy=flipy)
    r = g == g3
    prove("ne_shifted_origin", Not(r) if isinstance(r, symx.Sym) else not r)


CFG_Q = [
    dict(shape=[256, 256], res=["10", "-10"], flipx=False, flipy=False),
    dict(shape=[100, 100], res=["1/1000", "-1000000004/1000000000000"], flipx=False, flipy=True),  # almost, not exactly, square pixels
    dict(shape=[100, 200], res=["1/4", "1/4"], flipx=True, flipy=False),
    dict(shape=[3, 7], res=["-100/3", "30"], flipx=False, flipy=True),
    dict(shape=[1, 1], res=["1/3600", "-1/3600"], flipx=True, flipy=True),
]
CFG_T = CFG_Q + [
    dict(shape=[4000, 4000], res=["25", "-25"], flipx=False, flipy=False),
    dict(shape=[16, 2], res=["-1", "-7/3"], flipx=True, flipy=True),
    dict(shape=[512, 512], res=["30", "30"], flipx=False, flipy=True),
    dict(shape=[7, 3], res=["-10", "10"], flipx=True, flipy=False),
]
B = dict(bounds="origin, tile indices (any sign), points, query boxes symbolic; tile shape/resolution/flips from grid", setup=setup)

OBLIGATIONS = [
    Ob("A3_tile_geobox", h_tile_geobox, tiered(CFG_Q, CFG_T), descr="tile GeoBox: specified shape and resolution, pixel (0,0) at the corner selected by the resolution signs, footprint = product of the two bin intervals",
       functions=("odc.geo.gridspec.GridSpec.tile_geobox", "odc.geo.gridspec.GridSpec._tile_txy", "odc.geo.math.Bin1D.__getitem__"), **B),
    Ob("A2_partition", h_partition, tiered(CFG_Q, CFG_T), descr="distinct indices => disjoint interiors; neighbouring tiles share their common edge exactly",
       functions=("odc.geo.gridspec.GridSpec.tile_geobox", "odc.geo.math.Bin1D"), **B),
    Ob("A4_pt2idx", h_pt2idx, tiered(CFG_Q, CFG_T), descr="every point belongs to the tile pt2idx returns, and to no other",
       functions=("odc.geo.gridspec.GridSpec.pt2idx", "odc.geo.math.Bin1D.bin"), **B),
    Ob("A5_idx_bounds", h_idx_bounds, tiered(CFG_Q, CFG_T), descr="idx_bounds returns exactly the tiles overlapping the box (contacts within 1e-8 excluded)",
       functions=("odc.geo.gridspec.GridSpec.idx_bounds",), **B),
    Ob("A5_tiles_iter", h_tiles_iter, tiered([CFG_Q[0], CFG_Q[2], CFG_Q[3]], CFG_T[:5] + CFG_T[-2:]), descr="tiles(bbox) enumerates exactly the idx_bounds range with the matching GeoBoxes (boxes up to one tile wide, case split)",
       functions=("odc.geo.gridspec.GridSpec.tiles",), bounds="query box at most one tile wide near the origin (<= 2x2 tiles by case split)", setup=setup),
    Ob("A9_polygon_query", h_polygon_query, tiered([dict(CFG_Q[0], nrect=2, arrangement=a, rows=1) for a in ("right", "overlapping")] + [dict(CFG_Q[0], nrect=2, arrangement="right", rows=1, warm_cache=True)], [dict(CFG_Q[0], nrect=2, arrangement="right", rows=1, warm_cache=True)] + [dict(c, nrect=1) for c in CFG_T[:4]] + [dict(c, nrect=2, arrangement=a) for c in CFG_T[:4] for a in ("right", "above", "diagonal", "overlapping")]),
       descr="tiles_from_geopolygon with a (multi-part) stand-in geometry: every tile meeting a part in positive area is returned, no tile apart from every part is (tiles of the bounding box between the parts are not)",
       functions=("odc.geo.gridspec.GridSpec.tiles_from_geopolygon", "odc.geo.gridspec.GridSpec.tiles", "odc.geo.gridspec.GridSpec.idx_bounds"),
       bounds="1-2 rectangles at most one tile wide near the origin (<= a few tiles by case split)", stubs=("union-of-rectangles geometry answering to_crs / boundingbox / disjoint exactly (GEOS and PROJ are outside the claim)", "vertex-list tile footprints"), setup=setup, timeout_ms=20000),
    Ob("A6_from_sample_tile", h_from_sample, tiered(CFG_Q, CFG_T), descr="a grid rebuilt from any one tile (footprint, index, shape, flips) has the same footprint for every index",
       functions=("odc.geo.gridspec.GridSpec.from_sample_tile", "odc.geo.math.Bin1D.from_sample_bin"), stubs=("object exposing .crs/.boundingbox in place of the shapely polygon",), **B),
    Ob("A7_web_tiles", h_web_tiles, tiered([dict(z=z) for z in (0, 1, 2, 7, 14, 22, 26, 30)] + [dict(z=3, npix=512, before=[[3, 256]]), dict(z=5, npix=256, before=[[5, 100], [4, 256]])],
                                           [dict(z=z) for z in range(0, 31)] + [dict(z=z, npix=n_, before=[[z, m_]]) for z in (0, 3, 12) for n_, m_ in ((512, 256), (256, 512), (100, 256))]),
       descr="web_tiles(z, npix): tile (x,y) spans the standard slippy-map extent, 2^z tiles per side, npix pixels of tile size / npix, EPSG:3857 -- whatever grids were requested before in the same process",
       functions=("odc.geo.gridspec.GridSpec.web_tiles", "odc.geo.gridspec.GridSpec.from_sample_tile"), bounds="z from grid (thorough: 0..22); tile index symbolic in [0, 2^z)", setup=setup),
    Ob("A8_eq", h_eq, fixed(CFG_Q[0], CFG_Q[2]), descr="GridSpec equality: reflexive on rebuilt copy, differs on shifted origin", functions=("odc.geo.gridspec.GridSpec.__eq__",), setup=setup),
]
