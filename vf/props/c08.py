"""C08 -- a GeoBox built from a region covers it and is snapped as requested."""
from __future__ import annotations

from fractions import Fraction as F

from .. import shims, symx
from ..runner import Ob, fixed, tiered
from ..symx import (And, Bool, Implies, Int, Not, Or, Real, assume, const, ex, ite, prove,
                    rconst, m_max, m_min)

EXPLANATION = (
    "GeoBox.from_bbox / from_geopolygon (bounding-box part) executed with symbolic region edges, tolerance and anchor "
    "fraction; resolution (either sign per axis, non-square) from a grid; anchor kinds edge / centre / fraction / "
    "per-axis XY / floating, tight on/off, legacy align=. Decided: pixel size and orientation as requested, each side "
    "covered up to tol pixel, each side exceeds by < 1 pixel (+tol), snapped edges sit at (k + anchor)|res|, un-snapped "
    "origin is the region's corner; shape-driven branch: exact shape, pixel = span/shape, displacement < 1 pixel (0 when tight)."
)
ASSUMPTIONS = [
    "floats as exact reals; resolution from a finite grid (+ seeded random rationals); shape-driven branch: shape and span from a grid (pixel = span/shape would put an unknown in every divisor), position symbolic",
    "0 < tol <= 1/10 symbolic; anchor fraction symbolic in [0, 1)",
    "reprojection of the polygon (to_crs) is outside the claim; the polygon is an object exposing .crs / .boundingbox",
    "quick tier factors the axes (one axis symbolic, the other pinned); thorough runs both axes symbolic",
]



def _same_num(got, want):
    """replay in doubles: the exact rational of the model against the library's double, to a few ulps"""
    g, w = float(got), float(want)
    return abs(g - w) <= 4e-16 * max(abs(g), abs(w)) + 1e-300


def setup():
    shims.install_core()


def _axis(tag, pinned):
    if pinned:
        lo = rconst(F(5))
        w = rconst(F(101))
        return lo, lo + w if not symx.concrete_mode() else lo + w
    lo = Real(f"{tag}_lo")
    w = Real(f"{tag}_span")
    assume(w >= 0)
    return lo, lo + w


def mk_region(pin, crs="epsg:3857"):
    from odc.geo.geom import BoundingBox

    l, r = _axis("x", pin == "x")
    b, t = _axis("y", pin == "y")
    return BoundingBox(l, b, r, t, crs), (ex(l), ex(b), ex(r), ex(t))


def mk_anchor(kind):
    from odc.geo.types import AnchorEnum, xy_

    if kind == "edge":
        return "edge", (F(0), F(0))
    if kind == "default":
        return "default", (F(0), F(0))
    if kind == "center":
        return "center", (F(1, 2), F(1, 2))
    if kind == "enum_center":
        return AnchorEnum.CENTER, (F(1, 2), F(1, 2))
    if kind == "fraction":
        f = Real("anchor")
        assume(And(f >= 0, f < 1))
        return f, (ex(f), ex(f))
    if kind == "xy":
        fx, fy = Real("anchor_x"), Real("anchor_y")
        assume(And(fx >= 0, fx < 1, fy >= 0, fy < 1))
        return xy_(fx, fy), (ex(fx), ex(fy))
    if kind == "floating":
        return "floating", None
    raise ValueError(kind)


def mk_tol(mode):
    if mode == "sym":
        tol = Real("tol")
        assume(And(tol > 0, tol <= F(1, 10)))
        return tol
    return rconst(F(mode))


def extent_of(g):
    nx, ny = g.shape.x, g.shape.y
    x0, y0 = g.pix2wld(0, 0)
    x1, y1 = g.pix2wld(nx, ny)
    return ex(x0), ex(y0), ex(x1), ex(y1), nx, ny


def check_resolution_box(g, region, res, anchor_xy, tol, crs_expected=True):
    l, b, r, t = region
    rx, ry = F(res[0]), F(res[1])
    A = g.affine
    # the replay runs in doubles: its comparisons get a slack of 1e-9 pixel (relative for the large
    # quotients); the symbolic run is exact (eps = 0)
    conc = symx.concrete_mode()
    eps = F(1, 10**9) if conc else 0

    def same(a_, b_, scale=1):
        return abs(ex(a_) - ex(b_)) <= eps * scale * (1 + abs(ex(b_))) if conc else ex(a_) == ex(b_)

    prove("B1_pixel_size", And(same(A.a, rx), same(A.e, ry), ex(A.b) == 0, ex(A.d) == 0))
    x0, y0, x1, y1, nx, ny = extent_of(g)
    lo_x, hi_x = (x0, x1) if rx > 0 else (x1, x0)
    lo_y, hi_y = (y0, y1) if ry > 0 else (y1, y0)
    ax, ay = abs(rx), abs(ry)
    tol = ex(tol)
    sx_, sy_ = eps * (ax + abs(l) + abs(r)), eps * (ay + abs(b) + abs(t))  # slack in world units
    prove("shape_at_least_one", And(nx >= 1, ny >= 1))
    prove("B2_cover_left", lo_x <= l + tol * ax + sx_)
    prove("B2_cover_right", hi_x >= r - tol * ax - sx_)
    prove("B2_cover_bottom", lo_y <= b + tol * ay + sy_)
    prove("B2_cover_top", hi_y >= t - tol * ay - sy_)
    prove("B3_minimal_left", lo_x > l - ax * (1 + tol) - sx_)
    prove("B3_minimal_right", hi_x < r + ax * (1 + tol) + sx_)
    prove("B3_minimal_bottom", lo_y > b - ay * (1 + tol) - sy_)
    prove("B3_minimal_top", hi_y < t + ay * (1 + tol) + sy_)
    prove("B3_strict_x", And(lo_x > l - ax - sx_, hi_x < r + ax + sx_), when=nx > 1)
    prove("B3_strict_y", And(lo_y > b - ay - sy_, hi_y < t + ay + sy_), when=ny > 1)
    if anchor_xy is not None:
        fx, fy = anchor_xy
        qx = (lo_x - fx * ax) / ax
        qy = (lo_y - fy * ay) / ay
        if conc:
            prove("B4_snapped_x", abs(qx - round(qx)) <= F(1, 10**6) * (1 + abs(qx)) * F(1, 1000) + F(1, 10**6))
            prove("B4_snapped_y", abs(qy - round(qy)) <= F(1, 10**6) * (1 + abs(qy)) * F(1, 1000) + F(1, 10**6))
        else:
            prove("B4_snapped_x", qx == symx.s_floor(qx))
            prove("B4_snapped_y", qy == symx.s_floor(qy))
    else:
        # snapping off: pixel (0,0) sits on the region's corner selected by the resolution signs
        prove("B4_floating_x", (abs(lo_x - l) <= sx_ if rx > 0 else abs(hi_x - r) <= sx_) if conc else ((lo_x == l) if rx > 0 else (hi_x == r)))
        prove("B4_floating_y", (abs(lo_y - b) <= sy_ if ry > 0 else abs(hi_y - t) <= sy_) if conc else ((lo_y == b) if ry > 0 else (hi_y == t)))


def h_from_bbox(res, anchor, tight, tolmode, pin):
    import odc.geo.geobox as gbx
    from odc.geo.types import resxy_

    bbox, region = mk_region(pin)
    a, axy = mk_anchor(anchor)
    tol = mk_tol(tolmode)
    g = gbx.GeoBox.from_bbox(bbox, resolution=resxy_(rconst(F(res[0])), rconst(F(res[1]))), anchor=a, tight=tight, tol=tol)
    check_resolution_box(g, region, res, None if tight else axy, tol)
    prove("crs", g.crs == bbox.crs)


def h_from_bbox_scalar_res(res, anchor, pin):
    """resolution given as a single number: square pixels with inverted Y"""
    import odc.geo.geobox as gbx

    bbox, region = mk_region(pin)
    a, axy = mk_anchor(anchor)
    tol = mk_tol("1/100")
    g = gbx.GeoBox.from_bbox(bbox, resolution=rconst(F(res)), anchor=a, tol=tol)
    check_resolution_box(g, region, (F(res), -F(res)), axy, tol)


class _FakePoly:
    def __init__(self, bbox):
        self.boundingbox = bbox
        self.crs = bbox.crs

    def to_crs(self, crs):
        raise symx.Unsupported("to_crs on the polygon stand-in")


def h_from_geopolygon(res, mode, pin):
    import odc.geo.geobox as gbx
    from odc.geo import geom
    from odc.geo.types import resxy_, xy_

    bbox, region = mk_region(pin)
    if symx.concrete_mode():
        poly = geom.box(*[float(v) for v in region], bbox.crs)
    else:
        poly = _FakePoly(bbox)
    rx, ry = F(res[0]), F(res[1])
    tol = mk_tol("1/100")
    R = resxy_(rconst(rx), rconst(ry))
    if mode == "default":
        g = gbx.GeoBox.from_geopolygon(poly, R, tol=tol)
        axy = (F(0), F(0))
    elif mode == "align_zero":
        g = gbx.GeoBox.from_geopolygon(poly, R, align=xy_(0, 0), tol=tol)
        axy = (F(0), F(0))
    elif mode == "align":
        # legacy align= is the anchor in CRS units
        ax_, ay_ = Real("align_x"), Real("align_y")
        assume(And(ax_ >= 0, ax_ < abs(rx), ay_ >= 0, ay_ < abs(ry)))
        g = gbx.GeoBox.from_geopolygon(poly, R, align=xy_(ax_, ay_), tol=tol)
        axy = (ex(ax_) / abs(rx), ex(ay_) / abs(ry))
    elif mode == "center":
        g = gbx.GeoBox.from_geopolygon(poly, R, anchor="center", tol=tol)
        axy = (F(1, 2), F(1, 2))
    elif mode == "tight":
        g = gbx.GeoBox.from_geopolygon(poly, R, tight=True, tol=tol)
        axy = None
    check_resolution_box(g, region, res, axy, tol)


class _TriPoly:
    """a triangle (l,b) (r,b) (l,t) in one CRS; to_crs() maps every VERTEX through a stand-in for
    the CRS change that mixes the axes (x' = x + y/2, y' = y): the image of the polygon is smaller
    than the image of its bounding box"""

    def __init__(self, pts, crs):
        from odc.geo.crs import norm_crs

        self.pts, self.crs = pts, norm_crs(crs)

    @property
    def boundingbox(self):
        from odc.geo.geom import BoundingBox

        xs, ys = [p[0] for p in self.pts], [p[1] for p in self.pts]
        mn, mx_ = (min, max) if symx.concrete_mode() else (lambda *a: symx.m_min(*a), lambda *a: symx.m_max(*a))
        return BoundingBox(mn(*xs), mn(*ys), mx_(*xs), mx_(*ys), self.crs)

    def to_crs(self, crs, *a, **kw):
        return _TriPoly([(x + y / 2, y) for x, y in self.pts], crs)


def h_from_geopolygon_other_crs(res):
    """from_geopolygon(poly, crs=<another CRS>): the polygon itself is taken to the other CRS, the
    GeoBox covers its image there and is less than a pixel larger than that image needs"""
    import odc.geo.geobox as gbx
    import odc.geo.geom as gm
    from odc.geo.types import resxy_

    bbox, (l, b, r, t) = mk_region("y", crs="epsg:4326")
    tri = [(bbox.left, bbox.bottom), (bbox.right, bbox.bottom), (bbox.left, bbox.top)]
    poly = _TriPoly(tri, "epsg:4326")
    rx, ry = F(res[0]), F(res[1])
    tol = mk_tol("1/100")
    saved = gm.box
    gm.box = lambda l_, b_, r_, t_, crs: _TriPoly([(l_, b_), (l_, t_), (r_, t_), (r_, b_)], crs)  # BoundingBox.polygon, should the code go through it
    try:
        g = gbx.GeoBox.from_geopolygon(poly, resxy_(rconst(rx), rconst(ry)), crs="epsg:3857", tol=tol)
    finally:
        gm.box = saved
    img = [(x + y / 2, y) for x, y in ((l, b), (r, b), (l, t))]
    xs = [p[0] for p in img]
    region2 = (min(xs), b, max(xs), t) if symx.concrete_mode() else (symx.m_min(*xs), b, symx.m_max(*xs), t)
    prove("crs_is_the_requested_one", str(g.crs) == "EPSG:3857")
    check_resolution_box(g, region2, res, (F(0), F(0)), tol)


def h_shape(shape, span, anchor, tight, pin):
    """shape-driven construction: exact shape, pixel = span/shape, displaced < 1 pixel (not at
    all when snapping is off)"""
    import odc.geo.geobox as gbx
    from odc.geo.geom import BoundingBox

    ny, nx = shape
    sx, sy = F(span[0]), F(span[1])
    l = rconst(F(3, 4)) if pin == "x" else Real("left")
    b = rconst(F(-7, 2)) if pin == "y" else Real("bottom")
    bbox = BoundingBox(l, b, l + rconst(sx), b + rconst(sy), "epsg:3857")
    a, axy = mk_anchor(anchor)
    tol = mk_tol("1/100")
    g = gbx.GeoBox.from_bbox(bbox, shape=(ny, nx), anchor=a, tight=tight, tol=tol)
    prove("B5_exact_shape", And(g.shape.x == nx, g.shape.y == ny))
    px, py = sx / nx, sy / ny
    A = g.affine
    prove("B5_pixel_is_span_over_shape", And(ex(A.a) == px, ex(A.e) == -py, ex(A.b) == 0, ex(A.d) == 0))
    x0, y0 = g.pix2wld(0, 0)
    x0, y0 = ex(x0), ex(y0)
    L, T = ex(l), ex(b) + sy
    if tight or axy is None:
        prove("B5_not_displaced", And(x0 == L, y0 == T))
    else:
        prove("B5_displaced_less_than_a_pixel_x", And(x0 - L < px * (1 + ex(tol)), L - x0 < px * (1 + ex(tol))))
        prove("B5_displaced_less_than_a_pixel_y", And(y0 - T < py * (1 + ex(tol)), T - y0 < py * (1 + ex(tol))))
        fx, fy = axy
        qx = (x0 - fx * px) / px
        # y axis is inverted: the snapped edge is the bottom edge of the last row
        yb = y0 - ny * py
        qy = (yb - fy * py) / py
        prove("B5_snapped_x", qx == symx.s_floor(qx))
        prove("B5_snapped_y", qy == symx.s_floor(qy))


def h_shape_int_snapped(n, span, pin):
    """shape=<int> with the default snapping: the integer fixes the pixel size (longest span / n,
    square pixels) and the pixel counts (longest side n); the origin is snapped to the grid, which
    displaces the box from the region by less than one pixel"""
    import odc.geo.geobox as gbx
    from odc.geo.geom import BoundingBox

    sx, sy = F(span[0]), F(span[1])
    l = rconst(F(3, 4)) if pin == "x" else Real("left")
    b = rconst(F(-7, 2)) if pin == "y" else Real("bottom")
    bbox = BoundingBox(l, b, l + rconst(sx), b + rconst(sy), "epsg:3857")
    tol = mk_tol("1/100")
    g = gbx.GeoBox.from_bbox(bbox, shape=n, tol=tol)
    res = max(sx, sy) / n
    A = g.affine
    prove("square_pixels", _same_num(A.a, res) and _same_num(A.e, -res) if symx.concrete_mode() else And(ex(A.a) == res, ex(A.e) == -res))
    longest = m_max(g.shape.x, g.shape.y) if not symx.concrete_mode() else max(g.shape.x, g.shape.y)
    prove("longest_side_n", longest == n)
    x0, y0 = g.pix2wld(0, 0)
    t = F(1, 100) * res
    top = ex(b) + sy
    prove("displaced_by_less_than_one_pixel", And(ex(x0) <= ex(l) + t, ex(l) - ex(x0) < res + t, ex(y0) >= top - t, ex(y0) - top < res + t))
    prove("on_the_grid", And(ex(x0) / res == symx.s_floor(ex(x0) / res), ex(y0) / res == symx.s_floor(ex(y0) / res)) if not symx.concrete_mode() else True)


def h_shape_int(n, span, pin):
    """shape=<int>: longest side spans n pixels, square pixels"""
    import odc.geo.geobox as gbx
    from odc.geo.geom import BoundingBox

    sx, sy = F(span[0]), F(span[1])
    l = rconst(F(3, 4)) if pin == "x" else Real("left")
    b = rconst(F(-7, 2)) if pin == "y" else Real("bottom")
    bbox = BoundingBox(l, b, l + rconst(sx), b + rconst(sy), "epsg:3857")
    tol = mk_tol("1/100")
    g = gbx.GeoBox.from_bbox(bbox, shape=n, tight=True, tol=tol)
    res = max(sx, sy) / n
    A = g.affine
    prove("square_pixels", _same_num(A.a, res) and _same_num(A.e, -res) if symx.concrete_mode() else And(ex(A.a) == res, ex(A.e) == -res))
    prove("longest_side_n", m_max(g.shape.x, g.shape.y) == n if not symx.concrete_mode() else max(g.shape.x, g.shape.y) == n)
    x0, y0 = g.pix2wld(0, 0)
    prove("tight_origin", And(ex(x0) == ex(l), ex(y0) == ex(b) + sy))


def h_errors():
    import odc.geo.geobox as gbx
    from odc.geo.geom import BoundingBox

    bbox = BoundingBox(Real("l"), Real("b"), Real("r"), Real("t"), "epsg:3857")
    try:
        gbx.GeoBox.from_bbox(bbox)
    except ValueError:
        return
    prove("needs_shape_or_resolution", False)


RES_Q = [["10", "-10"], ["-1/4", "1/3"], ["30", "30"]]
RES_T = RES_Q + [["1/3600", "-1/3600"], ["-100/3", "-7"], ["1", "-1"], ["1000", "-250"]]
ANCH_Q = ["edge", "center", "fraction", "xy", "floating"]


def _bbox_params(tier, rng):
    out = []
    res = list(RES_Q if tier == "quick" else RES_T)
    for _ in range(1 if tier == "quick" else 3):
        res.append([str(F(rng.randint(1, 999), rng.randint(1, 50)) * rng.choice([1, -1])), str(F(rng.randint(1, 999), rng.randint(1, 50)) * rng.choice([1, -1]))])
    for r in res:
        for a in ANCH_Q + (["default", "enum_center"] if tier == "thorough" else []):
            for pin in ("x", "y"):
                out.append(dict(res=r, anchor=a, tight=False, tolmode="sym" if a in ("edge", "floating") else "1/100", pin=pin))
        out.append(dict(res=r, anchor="center", tight=True, tolmode="sym", pin="y"))
        # tight turns snapping off whatever form the anchor takes (numeric and per-axis ones too)
        out.append(dict(res=r, anchor="fraction", tight=True, tolmode="1/100", pin="x"))
        out.append(dict(res=r, anchor="xy", tight=True, tolmode="1/100", pin="y"))
    # both axes symbolic at once: a change that couples the axes is seen
    full = []
    if tier == "thorough":
        full = [dict(res=["10", "-10"], anchor="edge", tight=False, tolmode="1/100", pin="none")]
        full += [dict(res=r, anchor=a, tight=False, tolmode="1/100", pin="none") for r in RES_T[:3] for a in ("center", "xy", "floating")]
    return out + full


def _shape_params(tier, rng):
    shapes = [([3, 5], ["50", "30"]), ([1, 1], ["7/3", "1/4"])]
    if tier == "thorough":
        shapes += [([256, 256], ["2560", "2560"]), ([7, 2], ["1", "100"]), ([100, 1], ["1/3", "1000"])]
    out = []
    for sh, sp in shapes:
        for a in ("edge", "center", "xy", "floating"):
            for pin in ("x", "y"):
                out.append(dict(shape=sh, span=sp, anchor=a, tight=False, pin=pin))
        out.append(dict(shape=sh, span=sp, anchor="edge", tight=True, pin="x"))
    if tier == "thorough":
        out += [dict(shape=sh, span=sp, anchor=a, tight=False, pin="none") for sh, sp in shapes[:2] for a in ("edge", "xy")]
    return out


OBLIGATIONS = [
    Ob("B1_4_from_bbox", h_from_bbox, _bbox_params,
       descr="from_bbox(resolution=): B1 pixel size/orientation, B2 cover up to tol, B3 < 1 pixel (+tol) larger, B4 snapped to (k + anchor)|res| / floating origin on the corner",
       functions=("odc.geo.geobox.GeoBox.from_bbox", "odc.geo.geobox._norm_anchor", "odc.geo.math.snap_grid", "odc.geo.math._snap_edge", "odc.geo.math.maybe_int"),
       bounds="region edges symbolic (spans >= 0, any magnitude); resolution grid x anchor kind x tight; tol symbolic or 1/100; anchor fractions symbolic",
       setup=setup, timeout_ms=20000, deadline_s=2400),
    Ob("B1_scalar_resolution", h_from_bbox_scalar_res, fixed(dict(res="10", anchor="default", pin="x"), dict(res="1/4", anchor="center", pin="y")),
       descr="scalar resolution means square pixels with inverted Y", functions=("odc.geo.geobox.GeoBox.from_bbox", "odc.geo.types.res_"), setup=setup, timeout_ms=20000),
    Ob("B_from_geopolygon", h_from_geopolygon, tiered([dict(res=r, mode=m, pin=p) for r, m, p in ((["10", "-10"], "default", "x"), (["-1/4", "1/3"], "align", "y"), (["30", "-7"], "align", "x"), (["10", "-10"], "center", "y"), (["-1/4", "1/3"], "tight", "x"), (["10", "-10"], "align_zero", "y"))],
                                                     [dict(res=r, mode=m, pin=p) for r in RES_T[:3] for m in ("default", "align", "align_zero", "center", "tight") for p in ("x", "y")]),
       descr="from_geopolygon: same contract through the polygon's bounding box; legacy align= is the anchor in CRS units", functions=("odc.geo.geobox.GeoBox.from_geopolygon", "odc.geo.geobox.GeoBox.from_bbox"),
       stubs=("object exposing .crs/.boundingbox in place of the polygon",), setup=setup, timeout_ms=20000),
    Ob("B_from_geopolygon_other_crs", h_from_geopolygon_other_crs, fixed(dict(res=["10", "-10"]), dict(res=["1/4", "1/3"])),
       descr="from_geopolygon(poly, crs=other): the polygon (not its bounding box) is taken to the other CRS; the GeoBox covers the image and is < 1 pixel (+tol) larger than it needs",
       functions=("odc.geo.geobox.GeoBox.from_geopolygon", "odc.geo.geobox.GeoBox.from_bbox"), bounds="triangle with a symbolic x extent (y pinned); the CRS change stands in as the vertex map x' = x + y/2, y' = y",
       stubs=("vertex-list polygon whose to_crs() applies the stand-in map per vertex (PROJ itself is outside the claim)",), setup=setup, timeout_ms=20000),
    Ob("B5_shape", h_shape, _shape_params, descr="from_bbox(shape=): exact shape, pixel = span/shape, displaced < 1 pixel and snapped as requested, not displaced when tight/floating",
       functions=("odc.geo.geobox.GeoBox.from_bbox", "odc.geo.math.snap_grid"), bounds="shape and span from grid; region position symbolic", setup=setup, timeout_ms=30000),
    Ob("B5_shape_int", h_shape_int, fixed(dict(n=7, span=["70", "30"], pin="x"), dict(n=5, span=["1", "10"], pin="y")), descr="shape=<int>: longest side, square pixels", functions=("odc.geo.geobox.GeoBox.from_bbox",), setup=setup),
    Ob("B5_shape_int_snapped", h_shape_int_snapped, fixed(dict(n=7, span=["70", "30"], pin="x"), dict(n=5, span=["1", "10"], pin="x"), dict(n=300, span=["30", "20"], pin="y")),
       descr="shape=<int> with default snapping: pixel size = longest span / n (square), box on the grid, covers the region, longest side n or n+1",
       functions=("odc.geo.geobox.GeoBox.from_bbox", "odc.geo.math.snap_grid"), bounds="n and spans from a grid; one axis origin symbolic, the other pinned", setup=setup),
    Ob("B_errors", h_errors, fixed(), descr="neither shape nor resolution => ValueError", functions=("odc.geo.geobox.GeoBox.from_bbox",), setup=setup),
]
