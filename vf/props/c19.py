"""C19 -- value objects: equality, hashing and dask tokens are coherent (eq / hash / token part)."""
from __future__ import annotations

from fractions import Fraction as F

import z3

from .. import shims, symx
from ..runner import Ob, fixed, tiered
from ..symx import (And, Bool, Implies, Int, Not, Or, Real, assume, const, ex, ite, prove,
                    rconst, m_max, m_min)

EXPLANATION = (
    "For each value type with integer/real fields (Tiles, VariableSizedTiles, XY / Resolution / Index2d / Shape2d, "
    "BoundingBox, GeoBox, GeoboxTiles, Bin1D, GridSpec, GCPGeoBox) three values with symbolic fields are built and the "
    "real __eq__ / __hash__ / __dask_tokenize__ executed: == is reflexive, symmetric, transitive; equal => equal hash "
    "(hash as an uninterpreted function of the hashed tuple); unequal => different token tuple (tokenize injective on "
    "the tuple); a value rebuilt from the same fields => same tuple."
)
ASSUMPTIONS = [
    "dask.base.tokenize is injective on the tuple returned by __dask_tokenize__ (tokens compared as tuples, element-wise)",
    "hash is a function of the value hashed: equal numbers hash equal, tuples hash by components (structural comparison of the hashed structure)",
    "CRS fields range over real pyproj-backed CRS objects from {None, EPSG:4326, EPSG:3857, EPSG:32633} chosen by symbolic flags",
    "pickling, the equivalence of CRS construction routes and the CRS cache / transformer-cache histories (pyproj object identity, id() reuse, garbage collection) have no SMT encoding here and are outside the claim",
    "floats as exact reals (NaN fields are outside the claim)",
]

CRS_POOL = [None, "epsg:4326", "epsg:3857", "epsg:32633"]


class HashT:
    """structure handed to hash(): equal structures <=> equal hash argument"""

    def __init__(self, v):
        self.v = v


def s_hash(x):
    from affine import Affine

    if isinstance(x, tuple):
        return HashT(tuple(s_hash(e) for e in x))
    if isinstance(x, symx.Sym):
        return HashT(x)
    if isinstance(x, Affine):
        return HashT(tuple(s_hash(e) for e in x[:6]))
    if isinstance(x, (int, float, str, type(None))):
        return HashT(x)
    h = type(x).__hash__
    if h is None:
        raise TypeError(f"unhashable type: {type(x).__name__}")
    r = x.__hash__()
    return r if isinstance(r, HashT) else HashT(("real-hash", r))


def struct_eq(a, b):
    """symbolic equality of two hashed structures / token tuples"""
    if isinstance(a, HashT):
        a = a.v
    if isinstance(b, HashT):
        b = b.v
    from ..npmodel import SymArray
    import numpy as np

    if isinstance(a, (SymArray, np.ndarray)) or isinstance(b, (SymArray, np.ndarray)):
        la = a.tolist() if hasattr(a, "tolist") else list(a)
        lb = b.tolist() if hasattr(b, "tolist") else list(b)
        return struct_eq(tuple(la), tuple(lb))
    if isinstance(a, (tuple, list)) and isinstance(b, (tuple, list)):
        if len(a) != len(b):
            return False
        return And(*[struct_eq(x, y) for x, y in zip(a, b)]) if a else True
    if isinstance(a, (tuple, list)) or isinstance(b, (tuple, list)):
        return False
    if isinstance(a, symx.Sym) or isinstance(b, symx.Sym):
        try:
            return a == b
        except TypeError:
            return False
    if isinstance(a, float) and isinstance(b, float) or isinstance(a, (int, float)) and isinstance(b, (int, float)):
        return a == b
    return a == b


def setup():
    shims.install_core()
    if symx.concrete_mode():
        return
    import odc.geo.gcp as gcp
    import odc.geo.geobox as gbx
    import odc.geo.geom as geom
    import odc.geo.types as ty

    shims.instrument(gcp)
    for m in (gbx, geom, ty, gcp):
        m.hash = s_hash


def as_bool(x):
    return x if isinstance(x, symx.Sym) else bool(x)


def do_hash(v):
    if symx.concrete_mode():
        return hash(v)
    return s_hash(v)


def token_of(v):
    t = v.__dask_tokenize__()
    return tuple(t)


def pick_crs(tag):
    """one of CRS_POOL selected by two symbolic flags"""
    b0, b1 = Bool(f"{tag}_crs0"), Bool(f"{tag}_crs1")
    i = (1 if b0 else 0) + (2 if b1 else 0)  # forks
    return CRS_POOL[i]


# ---- factories ---------------------------------------------------------------------------------------------
def f_tiles(tag):
    import odc.geo.roi as roi

    ty_, tx = 3, 7
    return roi.Tiles((Int(f"{tag}_NY", 1), Int(f"{tag}_NX", 1)), (Int(f"{tag}_ty", 1, 3).__index__() if not symx.concrete_mode() else Int(f"{tag}_ty", 1, 3), 4))


def f_vtiles(tag):
    import odc.geo.roi as roi

    ky = Int(f"{tag}_ky", 1, 2)
    ky = ky.__index__() if isinstance(ky, symx.Sym) else ky
    chy = tuple(Int(f"{tag}_cy{i}", 1, 1000) for i in range(ky))
    chx = tuple(Int(f"{tag}_cx{i}", 1, 1000) for i in range(2))
    return roi.VariableSizedTiles((chy, chx))


def f_xy(tag):
    from odc.geo.types import xy_

    return xy_(Real(f"{tag}_x"), Real(f"{tag}_y"))


def f_res(tag):
    from odc.geo.types import resxy_

    return resxy_(Real(f"{tag}_x"), Real(f"{tag}_y"))


def f_idx(tag):
    from odc.geo.types import ixy_

    return ixy_(Int(f"{tag}_x"), Int(f"{tag}_y"))


def f_shape(tag):
    from odc.geo.types import shape_

    return shape_((Int(f"{tag}_ny", 0), Int(f"{tag}_nx", 0)))


def f_bbox(tag):
    from odc.geo.geom import BoundingBox

    return BoundingBox(Real(f"{tag}_l"), Real(f"{tag}_b"), Real(f"{tag}_r"), Real(f"{tag}_t"), pick_crs(tag))


def f_gbox(tag):
    from affine import Affine

    import odc.geo.geobox as gbx

    # near-identical family: shared linear part, symbolic origin and shape
    A = Affine(rconst(F(10)), 0.0, Real(f"{tag}_c"), 0.0, Real(f"{tag}_e"), Real(f"{tag}_f"))
    return gbx.GeoBox((Int(f"{tag}_ny", 1), Int(f"{tag}_nx", 1)), A, pick_crs(tag))


def f_gbt(tag):
    import odc.geo.geobox as gbx

    g = f_gbox(tag)
    n = Int(f"{tag}_tile", 1, 2)
    n = n.__index__() if isinstance(n, symx.Sym) else n
    return gbx.GeoboxTiles(g, (n * 16, 16))


def f_gbt_var(tag):
    """tiled GeoBox over a VARIABLE tiling: the token must carry both offset arrays"""
    from affine import Affine

    import odc.geo.geobox as gbx

    chy = tuple(Int(f"{tag}_cy{i}", 1, 1000) for i in range(2))
    chx = tuple(Int(f"{tag}_cx{i}", 1, 1000) for i in range(2))
    A = Affine(rconst(F(10)), 0.0, Real(f"{tag}_c"), 0.0, rconst(F(-10)), Real(f"{tag}_f"))
    g = gbx.GeoBox((chy[0] + chy[1], chx[0] + chx[1]), A, "epsg:3857")
    return gbx.GeoboxTiles(g, (chy, chx))


def f_bin(tag):
    from odc.geo.math import Bin1D

    sz = Real(f"{tag}_sz")
    assume(sz > 0)
    d = Bool(f"{tag}_dir")
    return Bin1D(sz, Real(f"{tag}_origin"), 1 if d else -1)


def f_gridspec(tag):
    import odc.geo.gridspec as gs
    from odc.geo.types import resxy_, xy_

    n = Int(f"{tag}_n", 1, 2)
    n = n.__index__() if isinstance(n, symx.Sym) else n
    fx = Bool(f"{tag}_flipx")
    return gs.GridSpec("epsg:3857" if Bool(f"{tag}_crs") else "epsg:4326", (n * 100, 100), resxy_(rconst(F(10)), rconst(F(-10))), origin=xy_(Real(f"{tag}_ox"), Real(f"{tag}_oy")), flipx=bool(fx))


_MAPPINGS = {}


def f_gcp(tag):
    import numpy as np
    from affine import Affine

    import odc.geo.gcp as gcp

    if not _MAPPINGS:
        pix = np.asarray([[0.0, 0.0], [100.0, 0.0], [100.0, 80.0], [0.0, 80.0]])
        for k in (0, 1):
            _MAPPINGS[k] = gcp.GCPMapping(pix, pix * (k + 2) + 5, "epsg:4326")
    m = _MAPPINGS[1 if Bool(f"{tag}_mapping") else 0]
    return gcp.GCPGeoBox((Int(f"{tag}_ny", 1), Int(f"{tag}_nx", 1)), m, Affine(rconst(F(1)), 0.0, Real(f"{tag}_c"), 0.0, rconst(F(1)), Real(f"{tag}_f")))


TYPES = {
    "Tiles": (f_tiles, False, True),
    "VariableSizedTiles": (f_vtiles, False, True),
    "XY": (f_xy, True, False),
    "Resolution": (f_res, True, False),
    "Index2d": (f_idx, True, False),
    "Shape2d": (f_shape, False, False),
    "BoundingBox": (f_bbox, True, False),
    "GeoBox": (f_gbox, True, True),
    "GeoboxTiles": (f_gbt, False, True),
    "GeoboxTiles[variable]": (f_gbt_var, False, True),
    "Bin1D": (f_bin, False, False),
    "GridSpec": (f_gridspec, False, False),
    "GCPGeoBox": (f_gcp, True, True),
}


def h_pair(tname):
    """two values: reflexive, symmetric, eq => hash, ne => token differs, rebuilt copy => same token"""
    mk, hashable, tokened = TYPES[tname]
    a = mk("a")
    b = mk("b")
    prove("reflexive", as_bool(a == a))
    e_ab = a == b
    e_ba = b == a
    if isinstance(e_ab, symx.Sym) or isinstance(e_ba, symx.Sym):
        prove("symmetric", as_bool(e_ab) == as_bool(e_ba))
    else:
        prove("symmetric", bool(e_ab) == bool(e_ba))
    ne = a != b
    prove("ne_is_not_eq", (bool(ne) != bool(e_ab)) if not isinstance(ne, symx.Sym) and not isinstance(e_ab, symx.Sym) else (as_bool(ne) == Not(as_bool(e_ab))))
    eq = bool(e_ab)  # forks
    if hashable:
        if symx.concrete_mode():
            if eq:
                prove("eq_implies_equal_hash", hash(a) == hash(b))
        elif eq:
            prove("eq_implies_equal_hash", struct_eq(do_hash(a), do_hash(b)))
    if tokened:
        ta, tb = token_of(a), token_of(b)
        same_tok = _tok_eq(ta, tb)
        if eq:
            prove("eq_implies_same_token", same_tok)
        else:
            prove("unequal_never_share_a_token", Not(same_tok) if isinstance(same_tok, symx.Sym) else not same_tok)


def _tok_eq(ta, tb):
    if symx.concrete_mode():
        from dask.base import tokenize

        return tokenize(ta) == tokenize(tb)
    return struct_eq(ta, tb)


def h_triple(tname):
    mk, hashable, tokened = TYPES[tname]
    a, b, c = mk("a"), mk("b"), mk("c")
    if bool(a == b) and bool(b == c):
        prove("transitive", as_bool(a == c))


def h_other_type(tname):
    mk, hashable, tokened = TYPES[tname]
    a = mk("a")
    for other in (None, 0, "x", (1, 2, 3)):
        r = a == other
        prove(f"not_equal_to_{type(other).__name__}", not r if not isinstance(r, symx.Sym) else Not(r))


ALL = list(TYPES)

OBLIGATIONS = [
    Ob("E1_pair_laws", h_pair, fixed(*[dict(tname=t) for t in ALL]),
       descr="per type: == reflexive and symmetric, != is its negation, equal => equal hash (hashable types), equal => same token tuple, unequal => different token tuple",
       functions=tuple(f"{t}.__eq__/__hash__/__dask_tokenize__" for t in ALL), bounds="two values per type with symbolic fields; CRS from a pool of real CRS objects", stubs=("uninterpreted hash", "injective tokenizer"),
       setup=setup, timeout_ms=20000),
    Ob("E2_transitive", h_triple, fixed(*[dict(tname=t) for t in ALL]), descr="per type: == transitive over three values", functions=tuple(f"{t}.__eq__" for t in ALL),
       bounds="three values per type", setup=setup, timeout_ms=20000),
    Ob("E3_other_types", h_other_type, fixed(*[dict(tname=t) for t in ALL if t not in ("Shape2d", "BoundingBox")]), descr="never equal to None / int / str / unrelated tuple",
       functions=tuple(f"{t}.__eq__" for t in ALL), setup=setup),
]
