"""C19 -- value objects: equality, hashing and dask tokens are coherent (eq / hash / token part)."""
from __future__ import annotations

from fractions import Fraction as F

import z3

from .. import shims, symx
from ..runner import Ob, fixed, tiered
from ..symx import (And, Bool, Implies, Int, Not, Or, Real, assume, const, ex, ite, prove,
                    rconst, m_max, m_min)

EXPLANATION = (
    "For each value type with integer/real fields (Tiles, VariableSizedTiles, XY / Resolution / Index2d / Shape2d, "
    "BoundingBox, GeoBox, GeoboxTiles, Bin1D, GridSpec, GCPGeoBox) three values with symbolic fields are built and the "
    "real __eq__ / __hash__ / __dask_tokenize__ executed: == is reflexive, symmetric, transitive; equal => equal hash "
    "(hash as an uninterpreted function of the hashed tuple); unequal => different token tuple (tokenize injective on "
    "the tuple); a value rebuilt from the same fields => same tuple."
)
ASSUMPTIONS = [
    "dask.base.tokenize is injective on the tuple returned by __dask_tokenize__ (tokens compared as tuples, element-wise)",
    "hash is a function of the value hashed: equal numbers hash equal, tuples hash by components (structural comparison of the hashed structure)",
    "CRS fields range over real pyproj-backed CRS objects from {None, EPSG:4326, EPSG:3857, EPSG:32633} chosen by symbolic flags",
    "E1-E3: CRS fields are real objects; E4/E5/E8: CRS logic over an abstract projection library (equality class, code-lookup answer, string identity) under consistency axioms, replayed by a witness search over real specifications; E6: clone by the __reduce_ex__ protocol; E7: one step of the address-keyed transformer cache on an abstract heap. Outside: that pyproj equates what it should, long GC histories, Geometry pickling (shapely/GeoJSON)",
    "floats as exact reals (NaN fields are outside the claim)",
]

CRS_POOL = [None, "epsg:4326", "epsg:3857", "epsg:32633"]


class HashT:
    """structure handed to hash(): equal structures <=> equal hash argument"""

    def __init__(self, v):
        self.v = v


def s_hash(x):
    from affine import Affine

    if isinstance(x, tuple):
        return HashT(tuple(s_hash(e) for e in x))
    if isinstance(x, symx.Sym):
        return HashT(x)
    if isinstance(x, Affine):
        return HashT(tuple(s_hash(e) for e in x[:6]))
    if isinstance(x, (int, float, str, type(None))):
        return HashT(x)
    h = type(x).__hash__
    if h is None:
        raise TypeError(f"unhashable type: {type(x).__name__}")
    r = x.__hash__()
    return r if isinstance(r, HashT) else HashT(("real-hash", r))


def struct_eq(a, b):
    """symbolic equality of two hashed structures / token tuples"""
    if isinstance(a, HashT):
        a = a.v
    if isinstance(b, HashT):
        b = b.v
    from ..npmodel import SymArray
    import numpy as np

    if isinstance(a, (SymArray, np.ndarray)) or isinstance(b, (SymArray, np.ndarray)):
        la = a.tolist() if hasattr(a, "tolist") else list(a)
        lb = b.tolist() if hasattr(b, "tolist") else list(b)
        return struct_eq(tuple(la), tuple(lb))
    if isinstance(a, (tuple, list)) and isinstance(b, (tuple, list)):
        if len(a) != len(b):
            return False
        return And(*[struct_eq(x, y) for x, y in zip(a, b)]) if a else True
    if isinstance(a, (tuple, list)) or isinstance(b, (tuple, list)):
        return False
    if isinstance(a, symx.Sym) or isinstance(b, symx.Sym):
        try:
            return a == b
        except TypeError:
            return False
    if isinstance(a, float) and isinstance(b, float) or isinstance(a, (int, float)) and isinstance(b, (int, float)):
        return a == b
    return a == b


def setup():
    shims.install_core()
    if symx.concrete_mode():
        return
    import odc.geo.gcp as gcp
    import odc.geo.geobox as gbx
    import odc.geo.geom as geom
    import odc.geo.types as ty

    shims.instrument(gcp)
    for m in (gbx, geom, ty, gcp):
        m.hash = s_hash


def as_bool(x):
    return x if isinstance(x, symx.Sym) else bool(x)


def do_hash(v):
    if symx.concrete_mode():
        return hash(v)
    return s_hash(v)


def token_of(v):
    t = v.__dask_tokenize__()
    return tuple(t)


def pick_crs(tag):
    """one of CRS_POOL selected by two symbolic flags"""
    b0, b1 = Bool(f"{tag}_crs0"), Bool(f"{tag}_crs1")
    i = (1 if b0 else 0) + (2 if b1 else 0)  # forks
    return CRS_POOL[i]


# ---- factories ---------------------------------------------------------------------------------------------
def f_tiles(tag):
    import odc.geo.roi as roi

    ty_, tx = 3, 7
    return roi.Tiles((Int(f"{tag}_NY", 1), Int(f"{tag}_NX", 1)), (Int(f"{tag}_ty", 1, 3).__index__() if not symx.concrete_mode() else Int(f"{tag}_ty", 1, 3), 4))


def f_vtiles(tag):
    import odc.geo.roi as roi

    ky = Int(f"{tag}_ky", 1, 2)
    ky = ky.__index__() if isinstance(ky, symx.Sym) else ky
    kx = Int(f"{tag}_kx", 1, 2)  # the number of chunks differs per axis and per value: (2,1) against (1,2) too
    kx = kx.__index__() if isinstance(kx, symx.Sym) else kx
    chy = tuple(Int(f"{tag}_cy{i}", 1, 1000) for i in range(ky))
    chx = tuple(Int(f"{tag}_cx{i}", 1, 1000) for i in range(kx))
    return roi.VariableSizedTiles((chy, chx))


def f_xy(tag):
    from odc.geo.types import xy_

    return xy_(Real(f"{tag}_x"), Real(f"{tag}_y"))


def f_res(tag):
    from odc.geo.types import resxy_

    return resxy_(Real(f"{tag}_x"), Real(f"{tag}_y"))


def f_idx(tag):
    from odc.geo.types import ixy_

    return ixy_(Int(f"{tag}_x"), Int(f"{tag}_y"))


def f_shape(tag):
    from odc.geo.types import shape_

    return shape_((Int(f"{tag}_ny", 0), Int(f"{tag}_nx", 0)))


def f_bbox(tag):
    from odc.geo.geom import BoundingBox

    return BoundingBox(Real(f"{tag}_l"), Real(f"{tag}_b"), Real(f"{tag}_r"), Real(f"{tag}_t"), pick_crs(tag))


def f_gbox(tag):
    from affine import Affine

    import odc.geo.geobox as gbx

    # near-identical family: shared linear part, symbolic origin and shape
    A = Affine(rconst(F(10)), 0.0, Real(f"{tag}_c"), 0.0, Real(f"{tag}_e"), Real(f"{tag}_f"))
    return gbx.GeoBox((Int(f"{tag}_ny", 1), Int(f"{tag}_nx", 1)), A, pick_crs(tag))


TURNS = [(F(0), F(10), F(10), F(0)), (F(0), F(-10), F(10), F(0)), (F(0), F(10), F(-10), F(0)), (F(10), F(5), F(0), F(-10)), (F(10), F(-5), F(0), F(-10))]


def f_gbox_turned(tag):
    """grids that are not north-up: transposed, turned by a quarter either way, sheared either way
    (linear part from a list, chosen per value; origin and shape symbolic) -- different pixel grids
    that can share shape, pixel size and bounding box"""
    from affine import Affine

    import odc.geo.geobox as gbx

    k = Int(f"{tag}_turn", 0, len(TURNS) - 1).__index__()
    a, b, d, e = TURNS[k]
    A = Affine(rconst(a) if a else 0.0, rconst(b) if b else 0.0, Real(f"{tag}_c"), rconst(d) if d else 0.0, rconst(e) if e else 0.0, Real(f"{tag}_f"))
    return gbx.GeoBox((Int(f"{tag}_ny", 1), Int(f"{tag}_nx", 1)), A, "epsg:3857")


def f_gbt(tag):
    import odc.geo.geobox as gbx

    g = f_gbox(tag)
    n = Int(f"{tag}_tile", 1, 2)
    n = n.__index__() if isinstance(n, symx.Sym) else n
    return gbx.GeoboxTiles(g, (n * 16, 16))


def f_gbt_small(tag):
    """small tiled GeoBoxes cut regularly or irregularly: values that induce the same partition
    (a nominal tile larger than the image; regular against listed chunks) are still different values"""
    from affine import Affine

    import odc.geo.geobox as gbx

    A = Affine(rconst(F(10)), 0.0, rconst(F(0)), 0.0, rconst(F(-10)), rconst(F(0)))
    ny, nx = Int(f"{tag}_ny", 1, 40), 12
    g = gbx.GeoBox((ny, nx), A, "epsg:3857")
    k = Int(f"{tag}_cut", 0, 3)
    k = k.__index__() if isinstance(k, symx.Sym) else k
    if k < 3:
        return gbx.GeoboxTiles(g, ((16, 32, 48)[k], 16))
    # listed chunks: 16 + the rest (needs more than 16 rows)
    assume(ny > 16)
    return gbx.GeoboxTiles(g, ((16, ny - 16), (nx,)))


def f_gbt_var(tag):
    """tiled GeoBox over a VARIABLE tiling: the token must carry both offset arrays"""
    from affine import Affine

    import odc.geo.geobox as gbx

    ky = Int(f"{tag}_ky", 1, 2)
    ky = ky.__index__() if isinstance(ky, symx.Sym) else ky
    kx = 3 - ky  # (2 chunks, 1 chunk) against (1 chunk, 2 chunks): same numbers, another split
    chy = tuple(Int(f"{tag}_cy{i}", 1, 1000) for i in range(ky))
    chx = tuple(Int(f"{tag}_cx{i}", 1, 1000) for i in range(kx))
    A = Affine(rconst(F(10)), 0.0, Real(f"{tag}_c"), 0.0, rconst(F(-10)), Real(f"{tag}_f"))
    g = gbx.GeoBox((symx.s_sum(chy), symx.s_sum(chx)), A, "epsg:3857")
    return gbx.GeoboxTiles(g, (chy, chx))


def f_bin(tag):
    from odc.geo.math import Bin1D

    sz = Real(f"{tag}_sz")
    assume(sz > 0)
    d = Bool(f"{tag}_dir")
    return Bin1D(sz, Real(f"{tag}_origin"), 1 if d else -1)


def f_gridspec(tag):
    import odc.geo.gridspec as gs
    from odc.geo.types import resxy_, xy_

    n = Int(f"{tag}_n", 1, 2)
    n = n.__index__() if isinstance(n, symx.Sym) else n
    fx = Bool(f"{tag}_flipx")
    return gs.GridSpec("epsg:3857" if Bool(f"{tag}_crs") else "epsg:4326", (n * 100, 100), resxy_(rconst(F(10)), rconst(F(-10))), origin=xy_(Real(f"{tag}_ox"), Real(f"{tag}_oy")), flipx=bool(fx))


_MAPPINGS = {}


def f_gcp(tag):
    import numpy as np
    from affine import Affine

    import odc.geo.gcp as gcp

    if not _MAPPINGS:
        pix = np.asarray([[0.0, 0.0], [100.0, 0.0], [100.0, 80.0], [0.0, 80.0]])
        for k in (0, 1):
            _MAPPINGS[k] = gcp.GCPMapping(pix, pix * (k + 2) + 5, "epsg:4326")
        # the same control points as mapping 0, spelled differently: integer pixel coordinates, and -0.0 for 0.0
        _MAPPINGS[2] = gcp.GCPMapping(pix.astype("int64"), pix * 2 + 5, "epsg:4326")
        _MAPPINGS[3] = gcp.GCPMapping(pix * np.asarray([-1.0, 1.0]) * np.asarray([-1.0, 1.0]) + np.asarray([-0.0, 0.0]), pix * 2 + 5, "epsg:4326")
    m = _MAPPINGS[(1 if Bool(f"{tag}_mapping") else 0) + (2 if Bool(f"{tag}_mapping_spelling") else 0)]
    return gcp.GCPGeoBox((Int(f"{tag}_ny", 1), Int(f"{tag}_nx", 1)), m, Affine(rconst(F(1)), 0.0, Real(f"{tag}_c"), 0.0, rconst(F(1)), Real(f"{tag}_f")))


TYPES = {
    "Tiles": (f_tiles, False, True),
    "VariableSizedTiles": (f_vtiles, False, True),
    "XY": (f_xy, True, False),
    "Resolution": (f_res, True, False),
    "Index2d": (f_idx, True, False),
    "Shape2d": (f_shape, False, False),
    "BoundingBox": (f_bbox, True, False),
    "GeoBox": (f_gbox, True, True),
    "GeoBox[turned]": (f_gbox_turned, True, True),
    "GeoboxTiles": (f_gbt, False, True),
    "GeoboxTiles[variable]": (f_gbt_var, False, True),
    "GeoboxTiles[small]": (f_gbt_small, False, True),
    "Bin1D": (f_bin, False, False),
    "GridSpec": (f_gridspec, False, False),
    "GCPGeoBox": (f_gcp, True, True),
}


# ---- E4: the CRS wrapper over an abstract projection library ---------------------------------------------------
class AStr(str):
    """string form of an abstract CRS: only its identity (sid) is observable"""

    def __new__(cls, sid, auth_code=None):
        o = str.__new__(cls, "<abstract-crs-string>")
        o.sid, o.auth_code = sid, auth_code
        return o

    def startswith(self, *a):
        raise symx.Unsupported("text of an abstract CRS string")

    def __eq__(self, o):
        return self.sid == o.sid if isinstance(o, AStr) else False

    def __ne__(self, o):
        r = self.__eq__(o)
        return Not(r) if isinstance(r, symx.Sym) else not r

    def __hash__(self):  # reached through the module's hash shim only
        raise TypeError

    def upper(self):
        return self


class AProj:
    """pyproj.CRS stand-in.  Symbolic: its exact-equality class (what == between pyproj CRS objects
    decides), what to_epsg() answers at the default 70% confidence (0: None), the identity of its
    string form, and whether that string is an authority string 'EPSG:n'"""

    def __init__(self, tag):
        self.tag = tag
        self.cls = Int(f"{tag}_cls", 1, 4)
        self.e70 = Int(f"{tag}_e70", 0, 9)
        self.sid = Int(f"{tag}_sid", 1, 9)
        self.auth = Bool(f"{tag}_auth")

    def to_epsg(self, *a, **kw):
        return None if bool(self.e70 == 0) else self.e70

    def __eq__(self, o):
        return self.cls == o.cls if isinstance(o, AProj) else False

    def __ne__(self, o):
        r = self.__eq__(o)
        return Not(r) if isinstance(r, symx.Sym) else not r

    __hash__ = None  # type: ignore[assignment]


def _aproj_axioms(ps):
    import itertools

    for p in ps:
        assume(Implies(p.auth, p.e70 != 0))  # 'EPSG:n' resolves to n
    for a, b in itertools.combinations(ps, 2):
        assume(Implies(a.sid == b.sid, And(a.cls == b.cls, a.auth == b.auth)))  # same text, same definition
        assume(Implies(a.cls == b.cls, a.e70 == b.e70))  # to_epsg() is a function of the definition
        assume(Implies(And(a.auth, b.auth, a.e70 == b.e70), And(a.sid == b.sid, a.cls == b.cls)))  # one authority string per code


def _mk_acrs(tag, reg):
    """what CRS(spec) holds after _make_crs: (_crs, _str, _epsg) -- the code is known up front only
    for authority strings, otherwise it is EPSG_UNSET until .epsg is read"""
    from odc.geo.crs import CRS

    p = AProj(tag)
    reg.append(p)
    c = CRS.__new__(CRS)
    c._crs, c._str = p, AStr(p.sid)
    c._epsg = p.e70 if bool(p.auth) else 0  # forks
    return c


CRS_WITNESS_SPECS = ["+proj=aea +lat_1=-18 +lat_2=-36 +lat_0=0 +lon_0=132 +x_0=0 +y_0=0 +ellps=GRS80 +units=m +no_defs", "epsg:9473", "wkt:3857", "EPSG:3857",
                     "+proj=longlat +datum=WGS84 +no_defs", "EPSG:4326"]


def _real_spec(spec):
    import pyproj

    if spec.startswith("wkt:"):
        return pyproj.CRS.from_epsg(int(spec[4:])).to_wkt()
    return spec


def _crs_atoms(objs, reads, hashf, label_prefix=""):
    """the laws, on whatever objects (abstract or real) -- yields (label, holds)"""
    a, b, c = objs
    out = []
    before = as_bool(a == b)
    for o, r in zip(objs, reads):
        if r:
            o.epsg  # noqa: B018  (memoises the looked-up code)
    e_ab, e_ba = as_bool(a == b), as_bool(b == a)
    out.append(("equality_does_not_depend_on_epsg_having_been_read", before == e_ab))
    out.append(("symmetric", e_ab == e_ba))
    out.append(("eq_implies_equal_hash", Implies(e_ab, hashf(a, b)) if isinstance(e_ab, symx.Sym) else (not e_ab or hashf(a, b))))
    e_bc, e_ac = as_bool(b == c), as_bool(a == c)
    if isinstance(e_ab, symx.Sym) or isinstance(e_bc, symx.Sym) or isinstance(e_ac, symx.Sym):
        out.append(("transitive", Implies(And(e_ab, e_bc), e_ac)))
    else:
        out.append(("transitive", not (e_ab and e_bc) or e_ac))
    return out


def h_crs_laws():
    """CRS.__eq__ / __hash__ / to_epsg over an abstract projection library: == is symmetric and
    transitive, does not change when .epsg is read, and equal objects hash equal"""
    import odc.geo.crs as crs_mod

    if symx.concrete_mode():
        # witness search: the same atoms on real CRS objects from a small pool of specifications
        import itertools

        from odc.geo.crs import CRS

        want = symx.ctx().model_vals.get("__atom__")
        for specs in itertools.product(CRS_WITNESS_SPECS, repeat=3):
            for reads in itertools.product((False, True), repeat=3):
                objs = [CRS(_real_spec(sp)) for sp in specs]
                for o in objs:  # fresh wrappers: forget any memoised lookup
                    if not str(o).upper().startswith("EPSG:"):
                        o._epsg = 0
                for lbl, ok in _crs_atoms(objs, reads, lambda x, y: hash(x) == hash(y)):
                    if not ok and (want is None or want == lbl):
                        symx.ctx().witness = dict(specs=specs, epsg_read=reads, atom=lbl)
                        prove(lbl, False)
                        return
        return
    reg = []
    objs = [_mk_acrs(t, reg) for t in "abc"]
    _aproj_axioms(reg)
    reads = [bool(Bool(f"read_epsg_{t}")) for t in "abc"]  # forks: which objects had .epsg read
    for lbl, cond in _crs_atoms(objs, reads, lambda x, y: struct_eq(do_hash(x), do_hash(y))):
        prove(lbl, cond)


def h_crs_pickle():
    """__getstate__ / __setstate__ over the abstract library: the clone is equal and has the same
    string form, hash and token -- whatever the CRS was built from and whether .epsg was read"""
    import odc.geo.crs as crs_mod
    from odc.geo.crs import CRS

    if symx.concrete_mode():
        import pickle

        import pyproj
        from dask.base import tokenize

        pool = [_real_spec(sp) for sp in CRS_WITNESS_SPECS] + [pyproj.CRS.from_epsg(32633), pyproj.CRS.from_epsg(4326).to_json_dict(), 3577]
        want = symx.ctx().model_vals.get("__atom__")
        for spec in pool:
            for read in (False, True):
                a = CRS(spec)
                if read:
                    a.epsg  # noqa: B018
                b = pickle.loads(pickle.dumps(a))
                for lbl, ok in (("clone_equal", a == b and b == a), ("clone_same_string", str(a) == str(b)), ("clone_same_hash", hash(a) == hash(b)), ("clone_same_token", tokenize(a) == tokenize(b))):
                    if not ok and (want is None or want == lbl):
                        prove(lbl, False)
                        return
        return
    reg = []
    a = _mk_acrs("a", reg)
    _aproj_axioms(reg)
    if bool(Bool("read_epsg_a")):
        a.epsg  # noqa: B018
    made = []

    def fake_make(spec):
        if isinstance(spec, AStr):  # the text a CRS printed: parsing it back is lossless
            p = next(q for q in reg if q.sid is spec.sid or bool(q.sid == spec.sid))
            return p, AStr(p.sid), (p.e70 if bool(p.auth) else 0)
        if isinstance(spec, str) and spec.upper().startswith("EPSG:"):  # an authority string built from a code
            from .c09 import _TOKENS

            code = _TOKENS[spec.split(":", 1)[1]]
            p = AProj(f"x{len(made)}")
            made.append(p)
            assume(And(p.auth, p.e70 == code))
            reg.append(p)
            _aproj_axioms(reg)
            return p, AStr(p.sid), p.e70
        raise symx.Unsupported(f"_make_crs({spec!r})")

    saved = crs_mod._make_crs
    crs_mod._make_crs = fake_make
    try:
        state = a.__getstate__()
        b = CRS.__new__(CRS)
        b.__setstate__(state)
    finally:
        crs_mod._make_crs = saved
    prove("clone_equal", And(as_bool(a == b), as_bool(b == a)))
    prove("clone_same_string", as_bool(str(a) == str(b)))
    prove("clone_same_hash", struct_eq(do_hash(a), do_hash(b)))
    prove("clone_same_token", struct_eq(token_of(a)[1].sid, token_of(b)[1].sid))



# ---- E7: transformer cache under construction / destruction histories -----------------------------------------
class _Heap:
    """abstract addresses: an object gets one when created and gives it back when the last real
    reference to it goes away (CPython reference counting does the bookkeeping); the allocator is
    adversarial and hands out the most recently freed address first (what CPython's small-object
    allocator typically does)"""

    free: list = []
    nxt = 1000

    @classmethod
    def reset(cls):
        cls.free, cls.nxt = [], 1000

    @classmethod
    def alloc(cls):
        if cls.free:
            return cls.free.pop()
        cls.nxt += 16
        return cls.nxt


class _HCRS:
    """pyproj.CRS stand-in living on the abstract heap"""

    def __init__(self, spec):
        self.spec = spec
        self.addr = _Heap.alloc()

    def __del__(self):
        _Heap.free.append(self.addr)

    @classmethod
    def from_user_input(cls, value):  # pyproj's own parameter name
        return cls(str(value).upper())

    @classmethod
    def from_epsg(cls, code):  # pyproj's own parameter name
        return cls(f"EPSG:{code}")

    @classmethod
    def from_dict(cls, proj_dict):  # pyproj's own parameter names, here and below
        return cls(str(proj_dict["spec"]).upper())

    @classmethod
    def from_wkt(cls, in_wkt_string):
        return cls(str(in_wkt_string).upper())

    def to_wkt(self, *a, **kw):
        return self.spec

    def __str__(self):
        return self.spec

    def __eq__(self, o):
        return isinstance(o, _HCRS) and o.spec == self.spec

    def __hash__(self):
        return hash(self.spec)

    def to_epsg(self, min_confidence=70):
        return int(self.spec.split(":")[1])


class _HTransformer:
    def __init__(self, src, dst, always_xy):
        self.src_spec, self.dst_spec, self.always_xy = src.spec, dst.spec, always_xy

    @classmethod
    def from_crs(cls, crs_from, crs_to, always_xy=False, **kw):  # pyproj's own parameter names
        return cls(crs_from, crs_to, always_xy)


class _WktOnly:
    """an object of another library that only offers to_wkt() (and is not hashable)"""

    __hash__ = None  # type: ignore[assignment]

    def __init__(self, spec):
        self._spec = spec

    def to_wkt(self):
        return self._spec


def _via(route, spec_text):
    """the same specification handed to CRS() as a string, a mapping, a projection-library object
    or a foreign object with to_wkt()"""
    if route == "str":
        return spec_text
    if route == "dict":
        return {"spec": spec_text}
    if route == "obj":
        return _HCRS(spec_text)
    if route == "wkt_object":
        return _WktOnly(spec_text)
    raise ValueError(route)


def h_transformer_step(route="str"):
    """one step from a state constructed directly: the CRS cache is full (at its capacity if it
    has one, else 24 entries, all wrappers dropped so only the library keeps the objects alive),
    the transformer cache holds an entry for a symbolic pair of cached objects; then a CRS is
    built from a specification not seen before, and a transformer is requested from it: it must
    be one built for exactly the requested pair (an entry keyed by a recycled address is stale)"""
    import gc

    import odc.geo.crs as crs_mod
    from odc.geo.crs import CRS

    saved = (crs_mod._CRS, crs_mod.Transformer, crs_mod.__dict__.get("id"))
    crs_mod._CRS, crs_mod.Transformer = _HCRS, _HTransformer
    crs_mod.id = lambda o: o.addr if isinstance(o, _HCRS) else id(o)
    crs_mod._crs_cache.clear()
    crs_mod._make_crs_transform.cache.clear()
    _Heap.reset()
    try:
        cap = getattr(crs_mod._crs_cache, "maxsize", None)
        n = int(cap) if cap else 24
        spec = lambda k: f"EPSG:{3000 + k}"  # noqa: E731
        # the state, built in this order: `pre` entries, then the pair (e, d) with a transformer
        # between them, then the rest up to a full cache -- so the pair is among the oldest entries
        _ix = lambda v: v if isinstance(v, int) else symx._sym_index(v)  # noqa: E731
        pre = _ix(Int("entries_before_the_pair", 0, 3))
        for k in range(pre):
            CRS(spec(k))
        e, d = pre, pre + 1
        xy = bool(Bool("always_xy"))
        t0 = CRS(spec(e)).transformer_to_crs(CRS(spec(d)), always_xy=xy)
        del t0
        for k in range(pre + 2, n):
            CRS(spec(k))
        gc.collect()
        # the step: one or two constructions from unseen specifications
        m = _ix(Int("new_specs", 0, 5))
        for k in range(m):
            c_ = CRS(_via(route, spec(n + k)))
            # ... each used for a transformer and dropped again: its address may come back
            c_.transformer_to_crs(CRS(spec(d)), always_xy=xy)
            del c_
        gc.collect()
        fresh = CRS(_via(route, spec(n + 10)))
        other = CRS(spec(d))
        tr = crs_mod._make_crs_transform(fresh._crs, other._crs, always_xy=xy)
        prove("transformer_is_for_the_requested_pair", tr.src_spec == spec(n + 10) and tr.dst_spec == spec(d) and tr.always_xy == xy)
        tr2 = crs_mod._make_crs_transform(fresh._crs, other._crs, always_xy=not xy)
        prove("axis_order_flag_is_part_of_the_key", tr2.always_xy == (not xy) and tr2.src_spec == spec(n + 10))
        # a user-defined look-alike: another definition for which the library's code lookup
        # (70 % confidence) answers the code of a registered CRS -- it needs its own transformer
        twin = CRS(f"LOOKALIKE:{3000 + e}")
        tr3 = crs_mod._make_crs_transform(twin._crs, other._crs, always_xy=xy)
        prove("look_alike_definition_gets_its_own_transformer", tr3.src_spec == f"LOOKALIKE:{3000 + e}" and tr3.dst_spec == spec(d))
        del fresh, other, tr, tr2, twin, tr3
    finally:
        crs_mod._crs_cache.clear()
        crs_mod._make_crs_transform.cache.clear()
        crs_mod._CRS, crs_mod.Transformer = saved[0], saved[1]
        if saved[2] is None:
            del crs_mod.id
        else:
            crs_mod.id = saved[2]


# ---- E8: the string form of a CRS must not depend on what was constructed before --------------------------------
class _KProj:
    """pyproj.CRS stand-in for the construction cache: hashes like its WKT text and compares equal
    to any specification of the same definition (what pyproj's __hash__/__eq__ do)"""

    def __init__(self, defn, text):
        self.defn, self.text = defn, text

    def __hash__(self):
        return hash(("wkt-of", self.defn))

    def __eq__(self, o):
        if isinstance(o, _KProj):
            return o.defn == self.defn
        if isinstance(o, _KStr):
            return o.defn == self.defn
        return False

    def __str__(self):
        return self.text

    def to_wkt(self, *a, **k):
        return _KStr(self.defn, "wkt")

    def to_epsg(self):
        return 30000 + self.defn

    @classmethod
    def from_user_input(cls, value):  # pyproj's own parameter name
        s = value
        return cls(s.defn, f"EPSG:{30000 + s.defn}" if s.kind == "epsg" else f"<wkt {s.defn}>")

    @classmethod
    def from_epsg(cls, code):  # pyproj's own parameter name
        return cls(code - 30000, f"EPSG:{code}")


class _KStr(str):
    """a specification string: WKT text or authority string of definition `defn`"""

    def __new__(cls, defn, kind):
        o = str.__new__(cls, f"EPSG:{30000 + defn}" if kind == "epsg" else f"<wkt {defn}>")
        o.defn, o.kind = defn, kind
        return o

    def __hash__(self):
        return hash(("wkt-of", self.defn)) if self.kind == "wkt" else str.__hash__(self)

    def __eq__(self, o):
        if isinstance(o, _KProj):
            return o.defn == self.defn and self.kind == "wkt"
        return str.__eq__(self, o)

    def upper(self):
        return self


def h_crs_string_history():
    """str / hash / token of CRS(spec) for spec in {pyproj object, its WKT text, its authority
    string} are the same whatever subset of the other two routes was used before (a symbolic
    history of up to two earlier constructions)"""
    import odc.geo.crs as crs_mod
    from odc.geo.crs import CRS

    conc = symx.concrete_mode()
    routes = ("object", "wkt", "epsg")
    _ix = lambda v: v if isinstance(v, int) else symx._sym_index(v)  # noqa: E731
    target = routes[_ix(Int("route_under_test", 0, 2))]
    h1 = _ix(Int("built_first", 0, 3))   # 3: nothing
    h2 = _ix(Int("built_second", 0, 3))
    if conc:
        import pyproj

        obj = pyproj.CRS.from_epsg(32633)
        spec = {"object": obj, "wkt": obj.to_wkt(), "epsg": "EPSG:32633"}
        clear = lambda: (crs_mod._crs_cache.clear())  # noqa: E731
    else:
        saved = crs_mod._CRS
        crs_mod._CRS = _KProj
        obj = _KProj(7, "EPSG:30007")
        spec = {"object": obj, "wkt": _KStr(7, "wkt"), "epsg": _KStr(7, "epsg")}
        clear = lambda: (crs_mod._crs_cache.clear())  # noqa: E731
    try:
        clear()
        ref = CRS(spec[target])  # no history
        ref_obs = (str(ref), hash(ref), ref.__dask_tokenize__())
        clear()
        for h in (h1, h2):
            if h < 3:
                CRS(spec[routes[h]])
        got = CRS(spec[target])
        obs = (str(got), hash(got), got.__dask_tokenize__())
        prove("string_form_independent_of_history", obs[0] == ref_obs[0])
        prove("hash_independent_of_history", obs[1] == ref_obs[1])
        prove("token_independent_of_history", obs[2] == ref_obs[2])
    finally:
        clear()
        if not conc:
            crs_mod._CRS = saved


# ---- E9: the pickle state of a Geometry (GeoJSON) is rebuilt into the same geometry ------------------------------
def _gj(kind, P):
    """GeoJSON of the given kind over the symbolic points P (each (x, y) or (x, y, z))"""
    ring = [P[0], P[1], P[2], P[0]]
    hole = [P[3], P[4], P[5], P[3]]
    if kind == "Point":
        return {"type": "Point", "coordinates": P[0]}
    if kind == "LineString":
        return {"type": "LineString", "coordinates": [P[0], P[1], P[2]]}
    if kind == "Polygon":
        return {"type": "Polygon", "coordinates": [ring, hole]}
    if kind == "LinearRing":  # what polygon.exterior / .interiors[i] are
        return {"type": "LinearRing", "coordinates": ring}
    if kind == "CollectionWithRing":
        return {"type": "GeometryCollection", "geometries": [_gj("Point", P), _gj("LinearRing", P)]}
    if kind == "MultiPoint":
        return {"type": "MultiPoint", "coordinates": [P[0], P[1]]}
    if kind == "MultiLineString":
        return {"type": "MultiLineString", "coordinates": [[P[0], P[1]], [P[2], P[3]]]}
    if kind == "MultiPolygon":
        return {"type": "MultiPolygon", "coordinates": [[ring], [hole]]}
    if kind == "GeometryCollection":
        return {"type": "GeometryCollection", "geometries": [_gj("Point", P), _gj("LineString", P)]}
    if kind == "NestedCollection":
        return {"type": "GeometryCollection", "geometries": [_gj("Polygon", P), _gj("GeometryCollection", P)]}
    raise ValueError(kind)


def _gj_eq2d(a, b):
    """structural equality of two GeoJSON objects on their first two coordinates"""
    if isinstance(a, dict) or isinstance(b, dict):
        if not (isinstance(a, dict) and isinstance(b, dict)) or a.get("type") != b.get("type"):
            return False
        ka = "geometries" if "geometries" in a else "coordinates"
        if ka not in b:
            return False
        return _gj_eq2d(a[ka], b[ka])
    if isinstance(a, (list, tuple)) and isinstance(b, (list, tuple)):
        if a and not isinstance(a[0], (list, tuple, dict)):
            return And(ex(a[0]) == ex(b[0]), ex(a[1]) == ex(b[1]), len(b) == 2) if len(b) >= 2 else False
        if len(a) != len(b):
            return False
        rs = [_gj_eq2d(x, y) for x, y in zip(a, b)]
        if any(r is False for r in rs):
            return False
        return And(*rs) if rs else True
    return False


def h_geometry_state(kind, with_z):
    """Geometry.__setstate__ on the GeoJSON state of every geometry kind (symbolic coordinates,
    optionally 3-D): the geometry handed to shapely is the same structure with the same x, y"""
    import odc.geo.geom as gm

    n = 6
    if symx.concrete_mode():
        import pickle

        from shapely.geometry import shape

        import math as _m

        P = [(Real(f"x{k}"), Real(f"y{k}")) + ((Real(f"z{k}"),) if with_z else ()) for k in range(n)]
        # spread so that the rings are valid; magnitudes below 1 with digits to the last place (a text
        # rendering with fewer than 17 significant digits would not bring these back)
        P = [tuple((0.9 - 0.1 * (k_ // 3)) * f(2.0 * (k_ % 3) + 0.30000000000000004 + 1e-3 * float(v)) / (1 + 2 * (k_ // 3)) for f, v in zip((_m.cos, _m.sin, _m.tan), p)) for k_, p in enumerate(P)]
        try:
            g = gm.Geometry(shape(_gj(kind, [p[:2] for p in P])), "epsg:4326")
            h = pickle.loads(pickle.dumps(g))
        except Exception:  # noqa: BLE001
            prove("state_is_rebuilt", False)
            return
        prove("state_is_rebuilt", h == g and h.geom_type == g.geom_type)
        return
    P = [(Real(f"x{k}"), Real(f"y{k}")) + ((Real(f"z{k}"),) if with_z else ()) for k in range(n)]
    gj0 = _gj(kind, [list(p) for p in P])

    class _ShapelyGeom:
        """what Geometry holds: the GeoJSON view carries the coordinates as numbers, the text views are renderings"""

        geom_type = gj0["type"]
        __geo_interface__ = gj0
        wkt = "<a text rendering of the coordinates>"
        wkb = b"<a binary rendering>"
        has_z = with_z
        is_empty = False

    from odc.geo.crs import CRS as _C

    g0 = gm.Geometry.__new__(gm.Geometry)
    g0.geom, g0.crs = _ShapelyGeom(), _C("epsg:4326")
    state = g0.__getstate__()
    prove("pickle_state_carries_the_coordinates_as_numbers", isinstance(state, dict) and any(v is gj0 or (isinstance(v, dict) and _gj_eq2d(v, gj0)) for v in state.values()))
    built = []
    saved = gm.geometry

    class _Shp:
        def __getattr__(self, k):
            return getattr(saved, k)

        @staticmethod
        def shape(gj):
            built.append(gj)
            return ("shape", len(built))

        @staticmethod
        def GeometryCollection(parts):
            built.append({"type": "GeometryCollection", "geometries": [built[p[1] - 1] for p in parts]})
            return ("shape", len(built))

    gm.geometry = _Shp()
    try:
        g = gm.Geometry.__new__(gm.Geometry)
        try:
            g.__setstate__(state)
        except (AssertionError, ValueError, KeyError, TypeError):
            prove("state_is_rebuilt", False)
            return
    finally:
        gm.geometry = saved
    prove("state_is_rebuilt", bool(built) and g.geom == ("shape", len(built)))
    prove("same_structure_and_xy", _gj_eq2d(gj0, built[-1]))
    prove("crs_kept", str(g.crs) == "EPSG:4326")


def setup_crs():
    setup()
    if symx.concrete_mode():
        return
    import odc.geo.crs as crs_mod

    shims.instrument(crs_mod)
    crs_mod.hash = lambda x: HashT(("str", x.sid)) if isinstance(x, AStr) else s_hash(x)
    from .c09 import _tok_str

    symx.SymInt.__str__ = _tok_str
    symx.SymInt.__format__ = lambda self, spec: _tok_str(self)



def h_pair(tname):
    """two values: reflexive, symmetric, eq => hash, ne => token differs, rebuilt copy => same token"""
    mk, hashable, tokened = TYPES[tname]
    a = mk("a")
    b = mk("b")
    prove("reflexive", as_bool(a == a))
    e_ab = a == b
    e_ba = b == a
    if isinstance(e_ab, symx.Sym) or isinstance(e_ba, symx.Sym):
        prove("symmetric", as_bool(e_ab) == as_bool(e_ba))
    else:
        prove("symmetric", bool(e_ab) == bool(e_ba))
    ne = a != b
    prove("ne_is_not_eq", (bool(ne) != bool(e_ab)) if not isinstance(ne, symx.Sym) and not isinstance(e_ab, symx.Sym) else (as_bool(ne) == Not(as_bool(e_ab))))
    eq = bool(e_ab)  # forks
    if hashable:
        if symx.concrete_mode():
            if eq:
                prove("eq_implies_equal_hash", hash(a) == hash(b))
        elif eq:
            prove("eq_implies_equal_hash", struct_eq(do_hash(a), do_hash(b)))
    if tokened:
        ta, tb = token_of(a), token_of(b)
        same_tok = _tok_eq(ta, tb)
        if eq:
            prove("eq_implies_same_token", same_tok)
        else:
            prove("unequal_never_share_a_token", Not(same_tok) if isinstance(same_tok, symx.Sym) else not same_tok)


def _tok_eq(ta, tb):
    if symx.concrete_mode():
        from dask.base import tokenize

        return tokenize(ta) == tokenize(tb)
    return struct_eq(ta, tb)


def h_triple(tname):
    mk, hashable, tokened = TYPES[tname]
    a, b, c = mk("a"), mk("b"), mk("c")
    if bool(a == b) and bool(b == c):
        prove("transitive", as_bool(a == c))


def h_other_type(tname):
    mk, hashable, tokened = TYPES[tname]
    a = mk("a")
    for other in (None, 0, "x", (1, 2, 3)):
        r = a == other
        prove(f"not_equal_to_{type(other).__name__}", not r if not isinstance(r, symx.Sym) else Not(r))


def h_clone(tname):
    """a value and its clone (what unpickling hands back: every component rebuilt, nothing shared
    by identity) are equal, hash equal and share a token.  The clone is made by copy.deepcopy --
    the same __reduce_ex__ protocol pickle uses, without the byte stream (which would concretise
    the symbolic fields); the replay pickles for real"""
    import copy

    mk, hashable, tokened = TYPES[tname]
    a = mk("a")
    if symx.concrete_mode():
        import pickle

        b = pickle.loads(pickle.dumps(a))
    else:
        b = copy.deepcopy(a)
    prove("clone_equal", And(as_bool(a == b), as_bool(b == a)) if not symx.concrete_mode() else (a == b and b == a))
    if hashable:
        prove("clone_same_hash", struct_eq(do_hash(a), do_hash(b)) if not symx.concrete_mode() else hash(a) == hash(b))
    if tokened:
        prove("clone_same_token", _tok_eq(token_of(a), token_of(b)))


ALL = list(TYPES)

OBLIGATIONS = [
    Ob("E1_pair_laws", h_pair, fixed(*[dict(tname=t) for t in ALL]),
       descr="per type: == reflexive and symmetric, != is its negation, equal => equal hash (hashable types), equal => same token tuple, unequal => different token tuple",
       functions=tuple(f"{t}.__eq__/__hash__/__dask_tokenize__" for t in ALL), bounds="two values per type with symbolic fields; CRS from a pool of real CRS objects", stubs=("uninterpreted hash", "injective tokenizer"),
       setup=setup, timeout_ms=20000),
    Ob("E4_crs_laws", h_crs_laws, fixed(), descr="CRS over an abstract projection library: == symmetric, transitive, unchanged by reading .epsg; equal => equal hash",
       functions=("odc.geo.crs.CRS.__eq__", "odc.geo.crs.CRS.__hash__", "odc.geo.crs.CRS.to_epsg"),
       bounds="three CRS objects; per object symbolic: exact-equality class (1..4), to_epsg() answer (none or 1..9), string identity (1..9), authority-string flag, whether .epsg was read before comparing",
       stubs=("pyproj CRS replaced by an abstract object (equality class, to_epsg answer, string identity) under consistency axioms; the replay searches a pool of six real specifications (EPSG strings, WKT, PROJ strings) for an instance breaking the same law",), setup=setup_crs),
    Ob("E5_crs_pickle", h_crs_pickle, fixed(), descr="CRS pickle state over the abstract library: the clone is equal and has the same string form, hash and token",
       functions=("odc.geo.crs.CRS.__getstate__", "odc.geo.crs.CRS.__setstate__", "odc.geo.crs.CRS.__init__", "odc.geo.crs.CRS.__dask_tokenize__"),
       bounds="one CRS with symbolic abstract attributes (see E4), .epsg read or not", stubs=("abstract pyproj (E4)", "_make_crs contract: parsing a printed CRS string back is lossless; 'EPSG:n' gives the authority CRS of code n; the replay pickles real CRS objects built from 9 specifications"), setup=setup_crs),
    Ob("E6_clone", h_clone, fixed(*[dict(tname=t) for t in TYPES]), descr="per type: a value and its unpickled clone (no component shared by identity) are equal, hash equal, share a token",
       functions=tuple(f"{t}.__eq__" for t in TYPES), bounds="symbolic fields as in E1; clone by the __reduce_ex__ protocol (copy.deepcopy) in the symbolic run, by pickle in the replay", setup=setup),
    Ob("E7_transformer_step", h_transformer_step, fixed(dict(route="str"), dict(route="dict"), dict(route="obj"), dict(route="wkt_object")),
       descr="transformer cache keyed by object address: from a directly constructed full-cache state, after constructions from unseen specifications a requested transformer is one built for the requested pair and axis-order flag",
       functions=("odc.geo.crs._make_crs", "odc.geo.crs._make_crs_transform", "odc.geo.crs._make_crs_transform_key", "odc.geo.crs.CRS.transformer_to_crs"),
       bounds="one step from a full CRS cache (its capacity, or 24 entries when unbounded); existing transformer entry for a pair among the oldest entries (0-3 older ones, symbolic); 0-5 new specifications (symbolic); one address-reuse policy (most recently freed first); longer histories are outside the claim",
       stubs=("pyproj CRS / Transformer replaced by objects on an abstract heap (address = id, freed when CPython drops the last reference)",), setup=setup),
    Ob("E8_crs_string_history", h_crs_string_history, fixed(), descr="str/hash/token of CRS(spec) do not depend on which other routes (pyproj object, WKT text, authority string of the same CRS) were used before",
       functions=("odc.geo.crs._make_crs_key", "odc.geo.crs._make_crs", "odc.geo.crs.CRS.__init__", "odc.geo.crs.CRS.__hash__"),
       bounds="one CRS definition, three construction routes, histories of 0-2 earlier constructions (symbolic choice)", stubs=("pyproj CRS replaced by an object that hashes like its WKT text and equals any specification of the same definition (pyproj's contract); the replay uses pyproj itself",), setup=setup),
    Ob("E9_geometry_state", h_geometry_state, fixed(*[dict(kind=k, with_z=z) for k in ("Point", "LineString", "Polygon", "LinearRing", "MultiPoint", "MultiLineString", "MultiPolygon", "GeometryCollection", "NestedCollection", "CollectionWithRing") for z in (False, True)]),
       descr="Geometry pickle state (GeoJSON) of every geometry kind, collections included, is rebuilt into the same structure with the same x, y (a z ordinate is dropped: the class is 2-D by its docstring)",
       functions=("odc.geo.geom.Geometry.__setstate__", "odc.geo.geom.Geometry.__init__", "odc.geo.geom._geojson_to_shapely", "odc.geo.geom.force_2d"),
       bounds="10 geometry kinds incl. polygon with a hole, a bare ring, nested collections; 6 symbolic points, 2-D or 3-D", stubs=("shapely.geometry.shape recorded (the replay pickles a real Geometry)",), setup=setup),
    Ob("E2_transitive", h_triple, fixed(*[dict(tname=t) for t in ALL]), descr="per type: == transitive over three values", functions=tuple(f"{t}.__eq__" for t in ALL),
       bounds="three values per type", setup=setup, timeout_ms=20000),
    Ob("E3_other_types", h_other_type, fixed(*[dict(tname=t) for t in ALL if t not in ("Shape2d", "BoundingBox")]), descr="never equal to None / int / str / unrelated tuple",
       functions=tuple(f"{t}.__eq__" for t in ALL), setup=setup),
]
