"""C20 -- numeric helpers of odc.geo.math meet their documented contracts."""
from __future__ import annotations

from fractions import Fraction as F

from .. import shims, symx
from ..runner import Ob, fixed, tiered
from ..symx import (And, Bool, Implies, Int, Not, Or, Real, assume, const, ex, ite, prove,
                    rconst, s_max, s_min)

EXPLANATION = (
    "Every helper of odc.geo.math except the least-squares fits is executed on symbolic reals/ints (floats as exact "
    "reals); split_float / is_almost_int / maybe_int additionally in exact IEEE-754 arithmetic (z3 FP theory; binary16 "
    "whole domain and binary64 exponent slices)."
)
ASSUMPTIONS = [
    "real model: Python floats are exact reals (rounding error outside the claim) except in the FP-exact obligations",
    "multiplicative parameters (resolution, scale, bin size where it divides) come from stated finite grids of exact rationals",
    "ceil(log2(n)) is modelled for 1 <= n <= 2^40 (exact there; checked against math.log2 at 2^k, 2^k+-1)",
    "decompose_rws: numpy cholesky/inv/det replaced by a 2x2 model whose Cholesky entries are fresh reals with their defining equations",
    "affine_from_pts, Poly2d, quasi_random_r2, apply_affine (numpy lstsq/matmul) are outside the claim",
    "tolerances 0 < tol <= 1/2 (documented use is far below)",
]

TOLC = F(1e-6)


def setup():
    shims.install_core()


def preflight():
    import math

    from .. import npmodel

    npmodel.selfcheck()
    # ceil(log2(n)) model vs math at powers of two +- 1
    for k in range(0, 41):
        for n in (2**k - 1, 2**k, 2**k + 1):
            if 1 <= n <= 2**40:
                want = int(math.ceil(math.log2(n)))
                got = next(j for j in range(0, 41) if n <= 2**j)
                assert want == got, (n, want, got)


def gm():
    import odc.geo.math as m

    return m


def is_int_result(r):
    return isinstance(r, (int, symx.SymInt)) and not isinstance(r, bool)


def nearest_dist(x):
    """(k, d): an integer k nearest to x and d = |x - k| (harness side, exact)"""
    x = ex(x)
    f = symx.s_floor(x)
    lo = x - f
    up = f + 1 - x
    if lo <= up:  # forks
        return f, lo
    return f + 1, up


# ---- N1 split_float --------------------------------------------------------------------------
def h_split_float():
    x = Real("x")
    w, p = gm().split_float(x)
    w, p, xe = ex(w), ex(p), ex(x)
    prove("split:sum", w + p == xe)
    prove("split:frac_range", And(p >= F(-1, 2), p <= F(1, 2)))
    prove("split:whole_is_integer", w == symx.s_floor(w))


# ---- N2 maybe_int / is_almost_int ---------------------------------------------------------------
def h_maybe_int(tolmode):
    x = Real("x")
    if tolmode == "sym":
        tol = Real("tol")
        assume(And(tol > 0, tol <= F(1, 2)))
    else:
        tol = rconst(F(tolmode))
    r = gm().maybe_int(x, tol)
    a = gm().is_almost_int(x, tol)
    k, d = nearest_dist(x)
    near = d < ex(tol)
    if is_int_result(r):
        prove("maybe_int:int_only_when_near", near)
        prove("maybe_int:value_is_nearest", Or(r == k, ex(x) - r == F(1, 2), r - ex(x) == F(1, 2)))
        prove("maybe_int:within_tol", abs(ex(x) - r) < ex(tol))
        prove("agree:almost_int_true", a if isinstance(a, bool) else a)
    else:
        prove("maybe_int:passthrough", ex(r) == ex(x))
        prove("maybe_int:float_only_when_far", Not(near))
        prove("agree:almost_int_false", (not a) if isinstance(a, bool) else Not(a))
    _iff("almost_int", a, near)


def _iff(label, got, want):
    if isinstance(got, symx.Sym) or isinstance(want, symx.Sym):
        prove(label + ":iff", got == want if isinstance(got, symx.Sym) else (want if got else Not(want)))
    else:
        prove(label + ":iff", bool(got) == bool(want))


def h_maybe_zero():
    x = Real("x")
    tol = Real("tol")
    assume(tol > 0)
    r = gm().maybe_zero(x, tol)
    prove("maybe_zero:zero_iff", Or(And(abs(ex(x)) < ex(tol), ex(r) == 0), And(abs(ex(x)) >= ex(tol), ex(r) == ex(x))))


# ---- N3 snap_scale ----------------------------------------------------------------------------
def h_snap_scale(branch):
    m = gm()
    tol = rconst(TOLC)
    if branch == "big":
        s = Real("s")
        assume(abs(s) >= 1 - tol)
        r = m.snap_scale(s, tol)
        k, d = nearest_dist(s)
        if is_int_result(r):
            prove("snap_scale:int_within_tol", abs(ex(s) - r) < ex(tol))
        else:
            prove("snap_scale:unchanged", ex(r) == ex(s))
            prove("snap_scale:unchanged_only_when_far", d >= ex(tol))
        r2 = m.snap_scale(r, tol)
        prove("snap_scale:idempotent", ex(r2) == ex(r))
    elif branch == "tiny":
        s = Real("s")
        assume(abs(s) < tol)
        r = m.snap_scale(s, tol)
        prove("snap_scale:tiny_unchanged", ex(r) == ex(s))
    else:
        # sub-unit scales under the reciprocal parametrisation s = 1/u
        u = Real("u")
        assume(abs(u) > 1)
        if symx.concrete_mode():
            s = 1.0 / u
        else:
            s = 1 / u
        assume(abs(s) < 1 - tol)
        assume(abs(s) >= tol)
        r = m.snap_scale(s, tol)
        k, d = nearest_dist(u)
        if symx.concrete_mode():
            # replay in floats: compare through the reciprocal with a relative margin
            ok = (r == s) or abs(1.0 / r - round(1.0 / r)) < 1e-9
            prove("snap_scale:sub_result_form", ok)
            prove("snap_scale:sub_within_tol", abs(1.0 / r - u) < float(tol) * (1 + 1e-9) or r == s)
            return
        same = r == s
        if bool(same):
            # unchanged: 1/s is further than tol from an integer -- or exactly an integer already
            prove("snap_scale:sub_unchanged_only_when_far", Or(d >= tol, d == 0))
        else:
            ri = 1 / r
            prove("snap_scale:sub_inverse_is_integer", ri == symx.s_floor(ri))
            prove("snap_scale:sub_within_tol", abs(ri - u) < tol)
        r2 = m.snap_scale(r, tol)
        prove("snap_scale:sub_idempotent", r2 == r)


# ---- N4 snap_affine ----------------------------------------------------------------------------
def h_snap_affine(kind):
    from affine import Affine

    m = gm()
    ttol, stol, tol = rconst(F(1e-3)), rconst(F(1e-6)), rconst(F(1e-8))
    sx, sy, tx, ty_ = Real("sx"), Real("sy"), Real("tx"), Real("ty")
    if kind == "rot":
        b, d = Real("b"), Real("d")
        assume(Or(abs(b) > tol, abs(d) > tol))
        A = Affine(sx, b, tx, d, sy, ty_)
        r = m.snap_affine(A, ttol=ttol, stol=stol, tol=tol)
        prove("snap_affine:rotated_untouched", r is A)
        return
    assume(And(abs(sx) >= 1 - stol, abs(sy) >= 1 - stol))
    if kind == "x":  # per-axis factoring: the other axis pinned (the entries are snapped independently)
        assume(And(sy == -2, ty_ == F(11, 2)))
    elif kind == "y":
        assume(And(sx == 1, tx == 0))
    A = Affine(sx, 0.0, tx, 0.0, sy, ty_)
    r = m.snap_affine(A, ttol=ttol, stol=stol, tol=tol)
    for nm, old, new, t in (("sx", sx, r.a, stol), ("sy", sy, r.e, stol), ("tx", tx, r.c, ttol), ("ty", ty_, r.f, ttol)):
        old, new = ex(old), ex(new)
        prove(f"snap_affine:{nm}_within_tol", abs(new - old) < ex(t))
        prove(f"snap_affine:{nm}_int_or_same", Or(new == old, new == symx.s_floor(new)))
    prove("snap_affine:no_shear", And(ex(r.b) == 0, ex(r.d) == 0))
    r2 = m.snap_affine(r, ttol=ttol, stol=stol, tol=tol)
    prove("snap_affine:idempotent", And(ex(r2.a) == ex(r.a), ex(r2.e) == ex(r.e), ex(r2.c) == ex(r.c), ex(r2.f) == ex(r.f)))


def h_is_affine_st():
    from affine import Affine

    a, b, c, d, e, f = (Real(n) for n in "abcdef")
    A = Affine(a, b, c, d, e, f)
    tol = rconst(F(1e-10))
    r = gm().is_affine_st(A)
    _iff("is_affine_st", r, And(abs(ex(b)) < ex(tol), abs(ex(d)) < ex(tol)))


# ---- N5 integer alignment ----------------------------------------------------------------------
def h_align(amode):
    m = gm()
    x = Int("x")
    if amode == "sym":
        # symbolic alignment makes x % align non-linear: bounded
        a = Int("align", 1, 64)
        a = a.__index__() if not symx.concrete_mode() else a
    else:
        a = int(amode)
    lo = m.align_down(x, a)
    up = m.align_up(x, a)
    prove("align_down:multiple", lo % a == 0)
    prove("align_down:le", And(lo <= x, x - lo < a))
    prove("align_up:multiple", up % a == 0)
    prove("align_up:ge", And(up >= x, up - x < a))


def h_pow2(zone="decided"):
    m = gm()
    import os

    # Python ints are unbounded; the helper goes through a double logarithm, which the engine models
    # to the last place (DESIGN 3.2): up to 2^62 here
    x = Int("x", 1, 2**62)
    up = m.align_up_pow2(x)
    dn = m.align_down_pow2(x)
    # up/down are concrete powers of two on each path (case split over the exponent)
    if not symx.concrete_mode():
        # where the double logarithm is decided by its last place the engine leaves both outcomes
        # open (a free Boolean per call): judged separately, so that a counterexample that does not
        # depend on it is found first
        flips = [symx.SymBool(v) for k_, v in symx.ctx().vars.items() if k_.startswith("_log2_last_place_")]
        lucky = Not(Or(*flips)) if flips else True
        if zone == "decided":
            prove("pow2_up:ge", up >= x, when=lucky)
        else:
            prove("pow2_up:ge_where_the_last_place_of_the_logarithm_decides", up >= x, when=Not(lucky) if flips else False)
            return
    else:
        prove("pow2_up:ge", up >= x)
    prove("pow2_up:smallest", up < 2 * x)
    prove("pow2_up:is_pow2", _is_pow2(up))
    prove("pow2_down:le", dn <= x)
    prove("pow2_down:largest", 2 * dn > x)
    prove("pow2_down:is_pow2", _is_pow2(dn))


def _is_pow2(v):
    if isinstance(v, symx.Sym):
        return Or(*[v == 2**k for k in range(0, 66)])
    return v > 0 and (v & (v - 1)) == 0


def h_pow2_nonpos():
    m = gm()
    x = Int("x", None, 0)
    prove("pow2_up:nonpos_is_1", m.align_up_pow2(x) == 1)


def h_clamp():
    m = gm()
    x, lo, up = Real("x"), Real("lo"), Real("up")
    assume(lo <= up)
    r = ex(m.clamp(x, lo, up))
    prove("clamp:range", And(ex(lo) <= r, r <= ex(up)))
    prove("clamp:identity_inside", r == ex(x), when=And(ex(lo) <= ex(x), ex(x) <= ex(up)))
    prove("clamp:nearest", Or(r == ex(x), r == ex(lo), r == ex(up)))


# ---- N6 snap_grid ------------------------------------------------------------------------------
def h_snap_grid(res, offmode, tolmode):
    m = gm()
    x0, x1 = Real("x0"), Real("x1")
    assume(x0 <= x1)
    rs = rconst(F(res))
    r = abs(F(res))
    if tolmode == "sym":
        tol = Real("tol")
        assume(And(tol > 0, tol <= F(1, 10)))
    else:
        tol = rconst(F(tolmode))
    if offmode == "none":
        off = None
    elif offmode == "sym":
        off = Real("off")
        assume(And(off >= 0, off < 1))
    else:
        off = rconst(F(offmode))
    tx, nx = m.snap_grid(x0, x1, rs, off, tol)
    tx, x0e, x1e, tole = ex(tx), ex(x0), ex(x1), ex(tol)
    re = ex(rs)
    re = abs(re)
    if F(res) > 0:
        lo, hi = tx, tx + nx * re
    else:
        lo, hi = tx - nx * re, tx
    prove("snap_grid:nx_ge_1", nx >= 1)
    prove("snap_grid:cover_lo", lo <= x0e + tole * re)
    prove("snap_grid:cover_hi", hi >= x1e - tole * re)
    # "less than one pixel (plus that tolerance) larger than necessary on any side"; strictly
    # less than one pixel unless the one-pixel minimum was forced
    prove("snap_grid:minimal_lo", lo > x0e - re * (1 + tole))
    prove("snap_grid:minimal_hi", hi < x1e + re * (1 + tole))
    prove("snap_grid:minimal_lo_strict", lo > x0e - re, when=nx > 1)
    prove("snap_grid:minimal_hi_strict", hi < x1e + re, when=nx > 1)
    if off is None:
        prove("snap_grid:floating_origin", (lo == x0e) if F(res) > 0 else (hi == x1e))
    else:
        q = (lo - ex(off) * re) / re
        prove("snap_grid:aligned", q == symx.s_floor(q))


# ---- N7 axis labels ----------------------------------------------------------------------------
def h_axis_labels(n):
    from .. import npmodel

    m = gm()
    a, b = Real("a"), Real("b")
    assume(a != 0)
    if symx.concrete_mode():
        import numpy as np

        data = np.arange(n) * a + b
    else:
        data = npmodel.LinSeq(n, a, b)
    if n >= 2:
        res, off = m.data_resolution_and_offset(data)
        # recovered affine reproduces the labels: label k = off + (k + 1/2) res
        k = Int("k", 0, n - 1)
        if symx.concrete_mode():
            lab = F(float(data[k]))
            prove("axis:reproduce", abs(F(off) + (k + F(1, 2)) * F(res) - lab) <= abs(lab) * F(1, 10**12) + F(1, 10**12))
        else:
            prove("axis:res", res == a)
            prove("axis:reproduce", off + (k + F(1, 2)) * res == a * k + b)
    else:
        fb = Real("fallback")
        res, off = m.data_resolution_and_offset(data, fb)
        prove("axis:fallback_res", ex(res) == ex(fb))
        prove("axis:fallback_off", ex(off) + ex(res) / 2 == ex(b))
        try:
            m.data_resolution_and_offset(data)
        except ValueError:
            pass
        else:
            prove("axis:len1_without_fallback_raises", False)


def h_axis_empty():
    import numpy as np

    m = gm()
    try:
        m.data_resolution_and_offset(np.asarray([], dtype="float64"), 1.0)
    except ValueError:
        return
    prove("axis:empty_raises", False)


def h_affine_from_axis(nx, ny):
    from .. import npmodel

    m = gm()
    ax, bx, ay, by = Real("ax"), Real("bx"), Real("ay"), Real("by")
    assume(And(ax != 0, ay != 0))
    if symx.concrete_mode():
        import numpy as np

        xx, yy = np.arange(nx) * ax + bx, np.arange(ny) * ay + by
    else:
        xx, yy = npmodel.LinSeq(nx, ax, bx), npmodel.LinSeq(ny, ay, by)
    fb = None
    if nx == 1 or ny == 1:
        from odc.geo.types import resxy_

        frx, fry = Real("frx"), Real("fry")
        fb = resxy_(frx, fry)
    A = m.affine_from_axis(xx, yy, fb)
    i, j = Int("i", 0, nx - 1), Int("j", 0, ny - 1)
    if symx.concrete_mode():
        px, py = A * (i + 0.5, j + 0.5)
        tolr = F(1, 10**9)
        prove("from_axis:x", abs(F(px) - F(float(xx[i]))) <= tolr * (1 + abs(F(float(xx[i])))))
        prove("from_axis:y", abs(F(py) - F(float(yy[j]))) <= tolr * (1 + abs(F(float(yy[j])))))
        return
    px, py = A * (i + F(1, 2), j + F(1, 2))
    prove("from_axis:x", px == ax * i + bx)
    prove("from_axis:y", py == ay * j + by)
    prove("from_axis:no_shear", And(A.b == 0, A.d == 0))


# ---- N8 Bin1D ----------------------------------------------------------------------------------
def h_bin1d(szmode, direction):
    m = gm()
    if szmode == "sym":
        sz = Real("sz")
        assume(sz > 0)
    else:
        sz = rconst(F(szmode))
    origin = Real("origin")
    b = m.Bin1D(sz, origin, direction)
    x = Real("x")
    i = b.bin(x)
    lo, hi = b[i]
    prove("bin:contains", And(ex(lo) <= ex(x), ex(x) < ex(hi)))
    prove("bin:width", ex(hi) - ex(lo) == ex(sz))
    # distinct indices => disjoint intervals; consecutive share an end point exactly
    j, k = Int("j"), Int("k")
    assume(j != k)
    jl, jh = b[j]
    kl, kh = b[k]
    prove("bin:disjoint", Or(ex(jh) <= ex(kl), ex(kh) <= ex(jl)))
    n0l, n0h = b[j + direction]
    prove("bin:consecutive_share_edge", ex(n0l) == ex(jh))
    # reconstruction from a sample bin
    b2 = m.Bin1D.from_sample_bin(j, (jl, jh), direction)
    k2l, k2h = b2[k]
    prove("bin:from_sample_same", And(ex(k2l) == ex(kl), ex(k2h) == ex(kh)))
    prove("bin:eq_reflexive", b == m.Bin1D(sz, origin, direction))


# ---- N9 decompose_rws / resolution_from_affine ---------------------------------------------------
def h_decompose(kind):
    from affine import Affine

    m = gm()
    if kind == "grid":
        raise RuntimeError
    a, b, d, e = Real("a"), Real("b"), Real("d"), Real("e")
    c, f = Real("c"), Real("f")
    assume(a * e - b * d != 0)
    if kind == "posdet":
        assume(a * e - b * d > 0)
    elif kind == "negdet":
        assume(a * e - b * d < 0)
    if kind == "matrix":
        # a 2x2 array handed in directly: decomposed, not rewritten
        if symx.concrete_mode():
            import numpy as _np

            M = _np.asarray([[a, b], [d, e]], dtype="float64")
            M0 = M.copy()
            R_, W_, S_ = m.decompose_rws(M)
            P = R_ @ W_ @ S_
            tol = 1e-9 * (1 + float(abs(M0).max()))
            prove("rws:callers_matrix_left_as_it_was", bool((M == M0).all()))
            prove("rws:product_is_the_matrix_handed_in", bool((abs(P - M0) <= tol).all()))
            return
        from ..npmodel import Mat2

        M = Mat2([[a, b], [d, e]])
        R_, W_, S_ = m.decompose_rws(M)
        prove("rws:callers_matrix_left_as_it_was", And(M.m[0][0] == a, M.m[0][1] == b, M.m[1][0] == d, M.m[1][1] == e))
        P = R_ @ W_ @ S_
        for nm, p, q in zip("abde", P.ravel(), (a, b, d, e)):
            prove(f"rws:product_{nm}_is_the_entry_handed_in", p == q)
        return
    A = Affine(a, b, c, d, e, f)
    R, W, S = m.decompose_rws(A)
    if symx.concrete_mode():
        P = R * W * S
        tol = 1e-9 * (1 + max(abs(v) for v in (a, b, d, e)))
        prove("rws:product", all(abs(p - q) <= tol for p, q in zip(P[:6], A[:6])))
        prove("rws:rotation_orthonormal", abs(R.a * R.a + R.d * R.d - 1) < 1e-9 and abs(R.a * R.b + R.d * R.e) < 1e-9 and abs(R.b * R.b + R.e * R.e - 1) < 1e-9)
        prove("rws:rotation_proper", abs(R.a * R.e - R.b * R.d - 1) < 1e-9)
        prove("rws:shear_unit_upper", abs(W.a - 1) < 1e-9 and abs(W.e - 1) < 1e-9 and abs(W.d) < 1e-9)
        prove("rws:scale_diagonal", S.b == 0 and S.d == 0)
        return
    # product R*W*S (linear parts) == A
    rw = (R.a * W.a + R.b * W.d, R.a * W.b + R.b * W.e, R.d * W.a + R.e * W.d, R.d * W.b + R.e * W.e)
    prod = (rw[0] * S.a + rw[1] * S.d, rw[0] * S.b + rw[1] * S.e, rw[2] * S.a + rw[3] * S.d, rw[2] * S.b + rw[3] * S.e)
    for nm, p, q in zip("abde", prod, (a, b, d, e)):
        prove(f"rws:product_{nm}", p == q)
    prove("rws:translation_kept", And(R.c == c, R.f == f))
    prove("rws:rot_col0_unit", R.a * R.a + R.d * R.d == 1)
    prove("rws:rot_col1_unit", R.b * R.b + R.e * R.e == 1)
    prove("rws:rot_orthogonal", R.a * R.b + R.d * R.e == 0)
    prove("rws:rotation_proper", R.a * R.e - R.b * R.d == 1)
    prove("rws:shear_unit_upper", And(W.a == 1, W.e == 1, W.d == 0))
    prove("rws:scale_diagonal", And(S.b == 0, S.d == 0))


def h_resolution_st():
    from affine import Affine

    m = gm()
    a, e, c, f = Real("a"), Real("e"), Real("c"), Real("f")
    b, d = Real("b"), Real("d")
    tol = F(1e-10)
    assume(And(abs(b) < tol, abs(d) < tol))
    r = m.resolution_from_affine(Affine(a, b, c, d, e, f))
    prove("resolution:axis_aligned", And(ex(r.x) == ex(a), ex(r.y) == ex(e)))


def h_resolution_rot(cs):
    """rotated grid = rotation(c,s) * scale(rx, ry): recovered resolution is (|rx|.., ry..) up to
    the documented sign ambiguity: |res| matches and the product of signs matches det"""
    from affine import Affine

    m = gm()
    c_, s_ = F(cs[0]), F(cs[1])
    rx, ry = Real("rx"), Real("ry")
    assume(And(abs(rx) >= F(1, 10**6), abs(ry) >= F(1, 10**6)))  # resolutions below the absolute 1e-10 shear test are outside the claim
    cc, ss = rconst(c_), rconst(s_)
    A = Affine(cc * rx, -ss * ry, Real("tx"), ss * rx, cc * ry, Real("ty"))
    r = m.resolution_from_affine(A)
    if symx.concrete_mode():
        prove("resolution:rot_abs_x", abs(abs(r.x) - abs(rx)) <= 1e-9 * abs(rx))
        prove("resolution:rot_abs_y", abs(abs(r.y) - abs(ry)) <= 1e-9 * abs(ry))
        return
    prove("resolution:rot_abs_x", r.x * r.x == rx * rx)
    prove("resolution:rot_abs_y", r.y * r.y == ry * ry)
    prove("resolution:rot_sign", (r.x * r.y > 0) == (rx * ry > 0))


# ---- N11 norm_xy ------------------------------------------------------------------------------------
def h_norm_xy(n):
    """norm_xy's documented contract: after normalisation the mean is at 0 and the mean distance
    from 0 is sqrt(2); the returned affine is that normalisation; a finite result for any set of
    points that are not all the same -- also when one of them is the centroid.  Points on a
    horizontal line keep the distances linear (|x - mean|)."""
    import numpy as real_np

    import odc.geo.math as m

    xs = [Real(f"x{k}") for k in range(n)]
    y0 = Real("y0")
    assume(Or(*[xs[k] != xs[0] for k in range(1, n)]))
    conc = symx.concrete_mode()
    if conc:
        pts = real_np.asarray([[float(x), float(y0)] for x in xs])
    else:
        pts = real_np.empty((n, 2), dtype=object)
        for k, x in enumerate(xs):
            pts[k, 0], pts[k, 1] = x, y0
    try:
        XX, A = m.norm_xy(pts)
    except ZeroDivisionError:
        prove("normalisation_is_finite", False)
        return
    if conc:
        prove("normalisation_is_finite", bool(real_np.isfinite(XX).all()) and all(real_np.isfinite(v) for v in A[:6]))
        if not real_np.isfinite(XX).all():
            return
        dist = real_np.sqrt((XX**2).sum(axis=1)).mean()
        prove("mean_distance_is_sqrt2", abs(dist - 2**0.5) <= 1e-9)
        prove("mean_at_origin", bool((abs(XX.mean(axis=0)) <= 1e-9).all()))
        return
    sx = A.a
    prove("scale_positive", ex(sx) > 0)
    mean = sum(ex(x) for x in xs) / n
    dists = [abs(ex(x) - mean) * ex(sx) for x in xs]
    md = sum(dists) / n
    prove("mean_distance_is_sqrt2", md * md == 2)
    prove("mean_at_origin", And(sum(ex(XX[k, 0]) for k in range(n)) == 0, sum(ex(XX[k, 1]) for k in range(n)) == 0))
    for k in range(n):
        px, py = A * (xs[k], y0)
        prove(f"affine_is_the_normalisation{k}", And(ex(px) == ex(XX[k, 0]), ex(py) == ex(XX[k, 1])))


# ---- N12 Poly2d composition with an input transform ---------------------------------------------------
def h_poly2d_compose(order, kind):
    """Poly2d.with_input_transform(B): the new polynomial at (x, y) is the old one at B * (x, y) --
    for axis-aligned B with different scales per axis, mirrored axes, and rotated B (the two input
    normalisation branches); grid2d agrees with pointwise evaluation"""
    import numpy as real_np
    from affine import Affine

    import odc.geo.math as m

    n = order + 1
    rng = real_np.random.RandomState(7)
    cc = (rng.randint(-4, 5, size=(n, n, 2)) / 2.0).astype("float64")
    if order == 1:
        cc[1, 1, :] = 0.0
    if kind == "rot_large_coordinates":
        # what fit() produces for control points with coordinates around 1e7 (UTM northings): a
        # normalisation scale around 1e-7
        a0 = Affine(rconst(F(1, 10**7)), 0.0, Real("tx0"), 0.0, rconst(F(1, 10**7)), Real("ty0"))
    else:
        a0 = Affine(Real("sx0"), 0.0, Real("tx0"), 0.0, Real("sy0"), Real("ty0"))
        # (normalisation scales below 1e-5 are the next case's subject)
        assume(And(abs(a0.a) >= F(1, 10**5), abs(a0.e) >= F(1, 10**5)))
    if kind == "axis":
        B = Affine(Real("bx"), 0.0, Real("btx"), 0.0, Real("by"), Real("bty"))
    elif kind == "mirror":
        B = Affine(rconst(1), 0.0, rconst(0), 0.0, rconst(-1), Real("H"))
    else:
        B = Affine(rconst(F(3, 5)), rconst(F(-4, 5)), Real("btx"), rconst(F(4, 5)), rconst(F(3, 5)), Real("bty"))
    p = m.Poly2d(cc, a0)
    q = p.with_input_transform(B)
    x, y = Real("x"), Real("y")
    if kind == "rot_large_coordinates":
        assume(And(abs(x) >= 10**6, abs(x) <= 10**7, abs(y) >= 10**6, abs(y) <= 10**7))
    bx_, by_ = B * (x, y)
    want = p(bx_, by_)
    got = q(x, y)
    tol = F(1, 10**6) if symx.concrete_mode() else 0
    for k in range(2):
        w_, g_ = ex(want[k]), ex(got[k])
        prove(f"composed_value_{k}", abs(w_ - g_) <= tol * (1 + abs(w_)))
    if kind in ("axis", "mirror"):
        gg = q.grid2d(real_np.asarray([x], dtype=object) if not symx.concrete_mode() else real_np.asarray([x]), real_np.asarray([y], dtype=object) if not symx.concrete_mode() else real_np.asarray([y]))
        for k in range(2):
            prove(f"grid_value_{k}", abs(ex(gg[k][0][0]) - ex(got[k])) <= tol * (1 + abs(ex(got[k]))))


# ---- N10 split_translation -----------------------------------------------------------------------
def h_split_translation():
    from odc.geo.types import xy_

    m = gm()
    tx, ty_ = Real("tx"), Real("ty")
    w, p = m.split_translation(xy_(tx, ty_))
    for nm, t, ww, pp in (("x", tx, w.x, p.x), ("y", ty_, w.y, p.y)):
        prove(f"split_tr:{nm}_sum", ex(ww) + ex(pp) == ex(t))
        prove(f"split_tr:{nm}_range", And(ex(pp) >= F(-1, 2), ex(pp) <= F(1, 2)))
        prove(f"split_tr:{nm}_whole", ex(ww) == symx.s_floor(ex(ww)))


# ---- FP-exact obligations (IEEE-754, RNE) -----------------------------------------------------------
def setup_fp():
    shims.install_core()
    if symx.concrete_mode():
        return
    import odc.geo.math as m

    from .. import fp

    fp.install(m)


def _fp_domain(x, bits, lo_exp, hi_exp):
    """restrict |x| to the exponent slice [2^lo_exp, 2^hi_exp) (None = unrestricted on that side)"""
    import z3

    from .. import fp

    if symx.concrete_mode():
        return
    a = z3.fpAbs(x.t)
    srt = fp.SORTS[bits]
    if lo_exp is not None:
        assume(symx.SymBool(z3.fpGEQ(a, z3.FPVal(2.0**lo_exp, srt))))
    if hi_exp is not None:
        assume(symx.SymBool(z3.fpLT(a, z3.FPVal(2.0**hi_exp, srt))))


def h_fp_split_float(bits, lo_exp, hi_exp):
    import z3

    from .. import fp

    x = fp.FP("x", bits)
    m = gm()
    if symx.concrete_mode():
        import math

        if bits != 64:
            return  # narrower formats are decided by the solver only (no native type to replay on)
        w, p = m.split_float(x)
        if not math.isfinite(x):
            prove("nonfinite_passthrough", (w == x or (w != w and x != x)) and p == 0)
            return
        prove("sum_is_exact", w + p == x)
        prove("fraction_in_range", -0.5 <= p <= 0.5)
        prove("whole_is_integral", w == math.floor(w))
        return
    fin = fp.fp_isfinite(x)
    if not bool(fin):
        w, p = m.split_float(x)
        prove("nonfinite_passthrough", p == 0)
        return
    _fp_domain(x, bits, lo_exp, hi_exp)
    w, p = m.split_float(x)
    prove("sum_is_exact", (w + p) == x)
    prove("fraction_in_range", And(p >= -0.5, p <= 0.5))
    prove("whole_is_integral", fp.is_integral(w))
    prove("whole_is_finite", fp.fp_isfinite(w))


def h_fp_almost_int(bits, lo_exp, hi_exp, tol):
    """maybe_int and is_almost_int agree with each other in exact IEEE arithmetic"""
    from .. import fp

    x = fp.FP("x", bits)
    m = gm()
    tolf = float(F(tol))
    if symx.concrete_mode():
        import math

        if bits != 64 or not math.isfinite(x):
            return
        r = m.maybe_int(x, tolf)
        a = m.is_almost_int(x, tolf)
        prove("agree", isinstance(r, int) == a)
        if isinstance(r, int):
            prove("int_value_is_round", r == round(x) or abs(r - x) < tolf)
        return
    assume(fp.fp_isfinite(x))
    _fp_domain(x, bits, lo_exp, hi_exp)
    r = m.maybe_int(x, tolf)
    a = m.is_almost_int(x, tolf)
    got_int = isinstance(r, fp.FPInt)
    prove("agree", a if got_int else Not(a))
    if got_int:
        prove("int_comes_from_an_integral_float", fp.is_integral(r.src))
        prove("int_within_tol", abs(r.src - x) < tolf)
    else:
        prove("passthrough_is_identity", r is x)


def _fp_params(tier, rng):
    out = [dict(bits=16, lo_exp=None, hi_exp=None)]
    # binary64 by exponent slices [2^k, 2^(k+1)); below 1/2 and above 2^52 in one piece each
    out += [dict(bits=64, lo_exp=None, hi_exp=-1), dict(bits=64, lo_exp=52, hi_exp=None)]
    ks = [0, 20] if tier == "quick" else list(range(-1, 52))
    if tier == "quick":
        ks.append(rng.randint(-1, 51))
    for k in ks:
        out.append(dict(bits=64, lo_exp=k, hi_exp=k + 1))
    if tier == "thorough":
        out.append(dict(bits=32, lo_exp=None, hi_exp=None))
    return out


def _fp_ai_params(tier, rng):
    out = [dict(bits=16, lo_exp=None, hi_exp=None, tol="1/64")]
    out += [dict(bits=64, lo_exp=None, hi_exp=-1, tol=str(F(1e-6))), dict(bits=64, lo_exp=52, hi_exp=None, tol=str(F(1e-6)))]
    ks = [0, 10] if tier == "quick" else list(range(-1, 52, 3))
    for k in ks:
        out.append(dict(bits=64, lo_exp=k, hi_exp=k + 1, tol=str(F(1e-6))))
    return out


RES_Q = ["1", "-1", "10", "-10", "1/3", "-100/3", "1/4"]
RES_T = RES_Q + ["30", "-30", "1/3600", "-1/3600", "7/3", "-1/4", "100/3", "1000"]


def _snap_params(tier, rng):
    out = []
    rs = RES_Q if tier == "quick" else RES_T
    if rng.random() >= 0:  # seeded extras: a few random rationals per run, fixed grid always runs
        extra = [str(F(rng.randint(1, 999), rng.randint(1, 99)) * rng.choice([1, -1])) for _ in range(2 if tier == "quick" else 6)]
        rs = rs + extra
    for r in rs:
        for off in ("sym", "none") if tier == "quick" else ("sym", "none", "0", "1/2"):
            out.append(dict(res=r, offmode=off, tolmode="sym" if off in ("sym", "none") else "1/100"))
    return out


OBLIGATIONS = [
    Ob("N1_split_float", h_split_float, fixed(), descr="whole + fraction == x, fraction in [-1/2, 1/2], whole integral (real model)",
       functions=("odc.geo.math.split_float",), bounds="x any real", setup=setup),
    Ob("N2_maybe_int", h_maybe_int, fixed(dict(tolmode="sym"), dict(tolmode=str(F(1e-6))), dict(tolmode="1/2")),
       descr="maybe_int/is_almost_int agree with each other and with 'distance to nearest integer < tol'",
       functions=("odc.geo.math.maybe_int", "odc.geo.math.is_almost_int", "odc.geo.math.split_float"),
       bounds="x any real, 0 < tol <= 1/2 symbolic", setup=setup),
    Ob("N10_maybe_zero", h_maybe_zero, fixed(), descr="maybe_zero", functions=("odc.geo.math.maybe_zero",), setup=setup),
    Ob("N3_snap_scale", h_snap_scale, fixed(dict(branch="big"), dict(branch="tiny"), dict(branch="sub")),
       descr="snap_scale changes values only within tol (of s or 1/s), snapped values are integers or 1/integer, idempotent",
       functions=("odc.geo.math.snap_scale", "odc.geo.math.maybe_int"),
       bounds="|s| >= 1-tol with s symbolic; sub-unit branch under s = 1/u, u symbolic; tol = 1e-6 (exact double)", setup=setup,
       timeout_ms=30000),
    Ob("N4_snap_affine", h_snap_affine, tiered([dict(kind="x"), dict(kind="y"), dict(kind="rot")], [dict(kind="x"), dict(kind="y"), dict(kind="st"), dict(kind="rot")]),
       descr="snap_affine: entries move only within their tolerance to integers, idempotent, rotated input returned as is",
       functions=("odc.geo.math.snap_affine", "odc.geo.math.snap_scale", "odc.geo.math.maybe_int"),
       bounds="scales |s| >= 1-stol symbolic, translations symbolic; default tolerances as exact doubles", setup=setup),
    Ob("N9_is_affine_st", h_is_affine_st, fixed(), descr="is_affine_st iff |b|,|d| < 1e-10", functions=("odc.geo.math.is_affine_st",), setup=setup),
    Ob("N5_align", h_align, tiered([dict(amode=a) for a in ("1", "2", "16", "sym")], [dict(amode=a) for a in ("1", "2", "3", "16", "256", "1000", "sym")]),
       descr="align_down/align_up: nearest multiple on the stated side", functions=("odc.geo.math.align_down", "odc.geo.math.align_up"),
       bounds="x any int; align from grid or symbolic 1..64 (case split)", setup=setup),
    Ob("N5_pow2", h_pow2, fixed(dict(zone="decided"), dict(zone="last_place")), descr="align_up_pow2/align_down_pow2 for 1 <= x <= 2^62 (the double logarithm modelled to its last place; where that place decides, candidates go to the replay)",
       functions=("odc.geo.math.align_up_pow2", "odc.geo.math.align_down_pow2"), bounds="1 <= x <= 2^40",
       stubs=("ceil(log2(n)) as ite chain",), setup=setup),
    Ob("N5_pow2_nonpos", h_pow2_nonpos, fixed(), descr="align_up_pow2(x<=0) == 1", functions=("odc.geo.math.align_up_pow2",), setup=setup),
    Ob("N5_clamp", h_clamp, fixed(), descr="clamp", functions=("odc.geo.math.clamp",), setup=setup),
    Ob("N6_snap_grid", h_snap_grid, _snap_params,
       descr="snap_grid: covers [x0,x1] up to tol pixel, aligned to the requested pixel fraction, minimal, nx >= 1, both signs, off_pix=None",
       functions=("odc.geo.math.snap_grid", "odc.geo.math._snap_edge", "odc.geo.math._snap_edge_pos", "odc.geo.math.maybe_int"),
       bounds="x0 <= x1 unbounded reals; res from grid (+ seeded random rationals); off_pix symbolic in [0,1) or None; tol symbolic in (0, 1/10]",
       setup=setup, timeout_ms=20000),
    Ob("N7_axis_labels", h_axis_labels, tiered([dict(n=n) for n in (1, 2, 3, 100)], [dict(n=n) for n in (1, 2, 3, 7, 100, 4096)]),
       descr="data_resolution_and_offset reproduces regularly spaced labels; fallback for length 1; ValueError without",
       functions=("odc.geo.math.data_resolution_and_offset",), bounds="labels a*k+b with a,b symbolic; length from grid",
       stubs=("LinSeq (arange(n)*a+b)",), setup=setup),
    Ob("N7_axis_empty", h_axis_empty, fixed(), descr="empty axis raises ValueError", functions=("odc.geo.math.data_resolution_and_offset",), setup=setup),
    Ob("N7_affine_from_axis", h_affine_from_axis, fixed(dict(nx=3, ny=2), dict(nx=1, ny=5), dict(nx=4, ny=1)),
       descr="affine_from_axis maps pixel centres onto the labels", functions=("odc.geo.math.affine_from_axis",),
       bounds="labels symbolic, lengths from grid", stubs=("LinSeq",), setup=setup),
    Ob("N8_bin1d", h_bin1d, fixed(*[dict(szmode=s, direction=d) for s in ("sym", "1", "100/3") for d in (1, -1)]),
       descr="Bin1D: bin(x) contains x; distinct bins disjoint; neighbours share an edge; from_sample_bin reconstructs",
       functions=("odc.geo.math.Bin1D",), bounds="x, origin symbolic reals; indices any int; size symbolic > 0 or from grid", setup=setup,
       timeout_ms=20000),
    Ob("N9_decompose_rws", h_decompose, fixed(dict(kind="posdet"), dict(kind="negdet"), dict(kind="matrix")),
       descr="decompose_rws: R*W*S == A, R proper rotation, W unit upper triangular, S diagonal (fully symbolic 2x2)",
       functions=("odc.geo.math.decompose_rws",), bounds="a,b,d,e symbolic reals, det != 0",
       stubs=("Mat2 model of numpy 2x2 ops; Cholesky entries fresh reals with defining equations",), setup=setup, timeout_ms=60000, fresh_only=True),
    Ob("N9_resolution_st", h_resolution_st, fixed(), descr="resolution_from_affine on axis-aligned affines", functions=("odc.geo.math.resolution_from_affine",), setup=setup),
    Ob("N9_resolution_rot", h_resolution_rot, fixed(dict(cs=["3/5", "4/5"]), dict(cs=["5/13", "12/13"]), dict(cs=["0", "1"]), dict(cs=["-3/5", "4/5"])),
       descr="resolution_from_affine on rotated grids (rational rotations): |res| recovered, orientation sign product kept",
       functions=("odc.geo.math.resolution_from_affine", "odc.geo.math.decompose_rws"), bounds="rotation from grid, rx, ry symbolic non-zero",
       stubs=("Mat2",), setup=setup, timeout_ms=60000, fresh_only=True),
    Ob("N1_fp_split_float", h_fp_split_float, _fp_params,
       descr="split_float in exact IEEE-754 arithmetic: whole + fraction == x (exactly), fraction in [-0.5, 0.5], whole integral and finite; non-finite input passes through",
       functions=("odc.geo.math.split_float",), bounds="binary16 whole domain; binary64 by exponent slices [2^k,2^(k+1)) (quick: |x|<1/2, |x|>=2^52, k in {0,20,seeded}; thorough: every k in -1..51) ; thorough adds binary32 whole domain",
       stubs=("fmod(x,1.0) encoded exactly as x - roundToIntegral(RTZ, x)",), setup=setup_fp, timeout_ms=600000, deadline_s=3000),
    Ob("N2_fp_almost_int", h_fp_almost_int, _fp_ai_params,
       descr="maybe_int and is_almost_int agree in exact IEEE-754 arithmetic; the int returned comes from an integral float within tol of x",
       functions=("odc.geo.math.maybe_int", "odc.geo.math.is_almost_int", "odc.geo.math.split_float"), bounds="binary16 whole domain (tol 1/64); binary64 exponent slices (tol 1e-6)",
       stubs=("fmod exact encoding",), setup=setup_fp, timeout_ms=600000, deadline_s=3000),
    Ob("N11_norm_xy", h_norm_xy, fixed(dict(n=2), dict(n=3)), descr="norm_xy: mean at 0, mean distance sqrt(2) (its docstring), affine = the normalisation, finite also when a point is the centroid",
       functions=("odc.geo.math.norm_xy",), bounds="2-3 points on a horizontal line with symbolic abscissae, not all equal (keeps distances linear); object-dtype numpy arrays carry the symbolic reals through the real numpy calls",
       stubs=("sqrt as a fresh non-negative root",), setup=setup, fresh_only=True, timeout_ms=30000),
    Ob("N12_poly2d_compose", h_poly2d_compose, fixed(*[dict(order=o, kind=k) for o in (1, 2) for k in ("axis", "mirror", "rot", "rot_large_coordinates")]),
       descr="Poly2d.with_input_transform(B)(x, y) == Poly2d(B * (x, y)) for axis-aligned (different scales per axis), mirrored and rotated B; grid2d agrees with pointwise evaluation",
       functions=("odc.geo.math.Poly2d.__init__", "odc.geo.math.Poly2d.with_input_transform", "odc.geo.math.Poly2d.__call__", "odc.geo.math.Poly2d.grid2d"),
       bounds="coefficient arrays of order 1 and 2 with fixed small rational entries; normalisation affine, input transform and evaluation point symbolic (rotation 3-4-5)",
       stubs=("numpy's polyval / polyval2d run on the symbolic reals themselves (object dtype)",), setup=setup, fresh_only=True, timeout_ms=30000),
    Ob("N10_split_translation", h_split_translation, fixed(), descr="split_translation", functions=("odc.geo.math.split_translation",), setup=setup),
]
