"""C09 -- the label algebra behind the xarray geo-registration round trip, the GCP write side and the
output assembly of reprojection (warp stubbed)."""
from __future__ import annotations

from fractions import Fraction as F

from .. import shims, symx
from ..runner import Ob, fixed, tiered
from ..symx import (And, Bool, Implies, Int, Not, Or, Real, assume, const, ex, ite, prove,
                    rconst, m_max, m_min)

EXPLANATION = (
    "Coordinates are written from a symbolic GeoBox by the real xr_coords (incl. the real _mk_crs_coord on a real pyproj "
    "CRS), an arbitrary positional slice [a : a + n*k : k] (origin symbolic; stride and length from a grid, strides incl. "
    "negative) is applied to the labels the way xarray's isel does, and the real recovery code (_locate_geo_info / "
    "_extract_transform / affine_from_axis / the GeoTransform fallback) runs on a passive container model: the "
    "recovered affine must send new pixel centre j+1/2 to the world location of original pixel a + j*k."
)
ASSUMPTIONS = [
    "outside the claim: what xarray, dask or pickle do to labels (propagation through arithmetic / astype / pickle), the warp itself, bit-for-bit equality of recovered floats. The output assembly of reprojection is covered (X6, X7) with the warp stubbed and the attribute behaviour of xarray's Dataset.map as a symbolic environment flag",
    "xarray.DataArray is replaced by a passive record (values, coords, dims, attrs, encoding); positional slicing slices the coordinate arrays (isel semantics)",
    "labels are arange(n)*a + b sequences (LinSeq model); stride and sliced length come from a grid (the recovery divides by length-1), slice origin and GeoBox symbolic",
    "floats cross the GeoTransform string attribute as opaque tokens (Python guarantees float(repr(x)) == x)",
    "GCP GeoBoxes: only the pixel-label part (crop affine recovered from pixel labels); GCP (de)serialisation goes through shapely / rasterio objects",
]


# ---- passive xarray container -----------------------------------------------------------------------------------
class DA:
    def __init__(self, data=None, coords=None, dims=(), attrs=None, name=None):
        self.values = data
        self.dims = tuple(dims)
        self.attrs = dict(attrs or {})
        self.encoding = {}
        self.name = name
        self.coords = dict(coords or {})

    @property
    def ndim(self):
        return len(self.dims)

    @property
    def shape(self):
        if self.ndim == 0:
            return ()
        v = self.values
        n = getattr(v, "n", None)
        return (n if n is not None else len(v),)

    def __getitem__(self, dim):
        return self.coords[dim]

    def __contains__(self, k):
        return k in self.coords


class FakeXarray:
    DataArray = DA

    class Dataset:  # only used in isinstance checks (X7 installs the DS model)
        pass


_TOKENS = {}


def _tok_str(self):
    k = f"<sym#{len(_TOKENS)}>"
    _TOKENS[k] = self
    return k


def _tok_float(x=0.0):
    if isinstance(x, str) and x in _TOKENS:
        return symx._s_float(_TOKENS[x])
    return symx._s_float(x)


def setup():
    shims.install_core()
    if symx.concrete_mode():
        return
    import odc.geo._xr_interop as xr

    from .. import npmodel

    shims.instrument(xr, scan=False)
    xr.xarray = FakeXarray
    xr.numpy = npmodel._np_singleton

    class _F(type(symx.s_float)):
        def __call__(cls, *a):
            return _tok_float(*a)

    class tok_float(metaclass=_F):
        pass

    xr.float = tok_float
    symx.SymReal.__str__ = _tok_str
    symx.SymInt.__str__ = _tok_str
    # arange(0.5, n) for a symbolic n (pixel-space labels)
    NP = npmodel.NP
    if not getattr(NP, "_c09", False):
        prev = NP.arange

        def arange(*a, **kw):
            if len(a) == 2 and a[0] == 0.5 and isinstance(a[1], symx.Sym):
                return npmodel.LinSeq(a[1], 1, F(1, 2))
            return prev(*a, **kw)

        NP.arange = staticmethod(arange)
        NP._c09 = True


def mk_gbox(kind, crs="epsg:3857"):
    from affine import Affine

    import odc.geo.geobox as gbx

    ny, nx = Int("ny", 1), Int("nx", 1)
    c, f = Real("c"), Real("f")
    if kind == "st":
        a, e = Real("a"), Real("e")
        assume(And(a != 0, e != 0))
        A = Affine(a, 0.0, c, 0.0, e, f)
    elif kind.startswith("rotgrid"):
        # rational rotation x grid pixel size, symbolic origin (keeps the resolution recovery of the
        # single-pixel fallback linear: the Cholesky inside decompose_rws is exact)
        cs, sn, rx, ry = {"rotgrid1": (F(3, 5), F(4, 5), F(10), F(-10)), "rotgrid2": (F(5, 13), F(-12, 13), F(1, 4), F(1, 3))}[kind]
        A = Affine(rconst(cs * rx), rconst(-sn * ry), c, rconst(sn * rx), rconst(cs * ry), f)
    else:
        a, b, d, e = Real("a"), Real("b"), Real("d"), Real("e")
        assume(And(a * e - b * d != 0, Or(abs(b) >= F(1, 10**6), abs(d) >= F(1, 10**6))))
        A = Affine(a, b, c, d, e, f)
    return gbx.GeoBox((ny, nx), A, crs), ny, nx


def slice_labels(coord, start, n, k):
    """isel(dim=slice(start, start+n*k, k)) on the coordinate DataArray of the container model"""
    if symx.concrete_mode():
        return None
    out = DA(coord.values.sliced(start, n, k), dims=coord.dims, attrs=coord.attrs, name=coord.name)
    out.encoding = dict(coord.encoding)
    return out


def slice_params(axis, n, k, N):
    """a slice start such that all n selected indices start + j*k lie in [0, N)"""
    s = Int(f"{axis}_start")
    lo, hi = (s, s + (n - 1) * k) if k > 0 else (s + (n - 1) * k, s)
    assume(And(lo >= 0, hi < N))
    return s


def build_src(g, ny, nx, ysl, xsl, drop_crs_coord=False):
    """the sliced container (symbolic mode) or a real sliced xarray.DataArray (replay)"""
    import odc.geo._xr_interop as xr

    (ys, yn, yk), (xs, xn, xk) = ysl, xsl
    if symx.concrete_mode():
        import numpy as np
        import xarray

        coords = xr.xr_coords(g)
        ydim, xdim = g.dimensions
        xx = xarray.DataArray(np.zeros((ny, nx), dtype="uint8"), coords=coords, dims=(ydim, xdim))
        xx = xx.isel({ydim: slice(ys, ys + yn * yk if ys + yn * yk >= 0 else None, yk), xdim: slice(xs, xs + xn * xk if xs + xn * xk >= 0 else None, xk)})
        if drop_crs_coord:
            xx = xx.drop_vars("spatial_ref")
        return xx
    coords = xr.xr_coords(g)
    ydim, xdim = g.dimensions
    cc = {ydim: slice_labels(coords[ydim], ys, yn, yk), xdim: slice_labels(coords[xdim], xs, xn, xk)}
    if "spatial_ref" in coords and not drop_crs_coord:
        cc["spatial_ref"] = coords["spatial_ref"]
    src = DA(None, coords=cc, dims=(ydim, xdim))
    return src


def check_transform(T, g, ysl, xsl, label="recovered"):
    """the recovered affine maps every point of new pixel (i, j) -- centre AND extent -- to where
    the original mapped it: new coordinate p along an axis is original  start + 1/2 + (p - 1/2)*k"""
    (ys, yn, yk), (xs, xn, xk) = ysl, xsl
    j, i = Int("probe_row", 0, yn - 1), Int("probe_col", 0, xn - 1)
    h = F(1, 2)
    # pixel extent: the three corners (0,0), (1,0), (0,1) of the new pixel grid pin the whole affine
    for nm, (cu, cv) in (("origin", (0, 0)), ("x_edge", (1, 0)), ("y_edge", (0, 1))):
        ou = xs + h + (cu - h) * xk
        ov = ys + h + (cv - h) * yk
        if symx.concrete_mode():
            px, py = T * (float(cu), float(cv))
            wx, wy = g.pix2wld(float(ou), float(ov))
            tol = F(1, 10**6)
            sc = max(abs(F(v)) for v in g.affine[:6][:2] + g.affine[:6][3:5]) * max(abs(xk), abs(yk))
            prove(f"{label}_extent_{nm}", And(abs(F(px) - F(wx)) <= tol * (sc + abs(F(wx))), abs(F(py) - F(wy)) <= tol * (sc + abs(F(wy)))))
        else:
            px, py = T * (cu, cv)
            wx, wy = g.pix2wld(ou, ov)
            prove(f"{label}_extent_{nm}", And(px == wx, py == wy))
    if symx.concrete_mode():
        px, py = T * (i + 0.5, j + 0.5)
        wx, wy = g.pix2wld(xs + i * xk + 0.5, ys + j * yk + 0.5)
        tol = F(1, 10**6)
        prove(label + ":x", abs(F(px) - F(wx)) <= tol * (1 + abs(F(wx))))
        prove(label + ":y", abs(F(py) - F(wy)) <= tol * (1 + abs(F(wy))))
        return
    px, py = T * (i + h, j + h)
    wx, wy = g.pix2wld(xs + i * xk + h, ys + j * yk + h)
    prove(label + ":x", px == wx)
    prove(label + ":y", py == wy)


def h_axis_aligned(yn, yk, xn, xk, via):
    import odc.geo._xr_interop as xr

    g, ny, nx = mk_gbox("st")
    ysl = (slice_params("y", yn, yk, ny), yn, yk)
    xsl = (slice_params("x", xn, xk, nx), xn, xk)
    src = build_src(g, ny, nx, ysl, xsl)
    if via == "locate" or symx.concrete_mode():
        st = xr._locate_geo_info(src) if not symx.concrete_mode() else None
        gb = st.geobox if st is not None else src.odc.geobox
        prove("geobox_recovered", gb is not None)
        if gb is None:
            return
        prove("shape", And(gb.shape.y == yn, gb.shape.x == xn))
        prove("crs", gb.crs == g.crs)
        check_transform(gb.affine, g, ysl, xsl)
    else:
        T = xr._extract_transform(src, g.dimensions, src.coords.get("spatial_ref"), False)
        prove("transform_recovered", T is not None)
        check_transform(T, g, ysl, xsl)


def h_identity():
    """no slicing: the recovered GeoBox equals the original"""
    import odc.geo._xr_interop as xr

    g, ny, nx = mk_gbox("st")
    assume(And(ny >= 2, nx >= 2))
    if symx.concrete_mode():
        src = build_src(g, ny, nx, (0, ny, 1), (0, nx, 1))
        prove("same_geobox", src.odc.geobox.shape == g.shape and src.odc.geobox.crs == g.crs)
        check_transform(src.odc.geobox.affine, g, (0, 2, 1), (0, 2, 1))
        return
    coords = xr.xr_coords(g)
    ydim, xdim = g.dimensions
    src = DA(None, coords=dict(coords), dims=(ydim, xdim))
    st = xr._locate_geo_info(src)
    gb = st.geobox
    prove("geobox_recovered", gb is not None)
    prove("same_shape_and_crs", And(gb.shape.y == ny, gb.shape.x == nx, gb.crs == g.crs))
    A, B_ = g.affine, gb.affine
    prove("same_affine", And(B_.a == A.a, B_.b == A.b, B_.c == A.c, B_.d == A.d, B_.e == A.e, B_.f == A.f))


def h_single_pixel_axis(which, with_crs_coord, ok=1):
    """an axis of length 1: the GeoTransform fallback resolution is used for that axis only (the
    other axis, possibly strided or reversed by ok, keeps the resolution its labels show);
    without the fallback no GeoBox (rather than a wrong one)"""
    import odc.geo._xr_interop as xr

    g, ny, nx = mk_gbox("st")
    yn, xn = (1, 3) if which == "y" else (2, 1)
    yk, xk = (1, ok) if which == "y" else (ok, 1)
    ysl = (slice_params("y", yn, yk, ny), yn, yk)
    xsl = (slice_params("x", xn, xk, nx), xn, xk)
    src = build_src(g, ny, nx, ysl, xsl, drop_crs_coord=not with_crs_coord)
    if symx.concrete_mode():
        gb = src.odc.geobox
    else:
        gb = xr._locate_geo_info(src).geobox
    if not with_crs_coord:
        prove("no_geobox_rather_than_a_wrong_one", gb is None)
        return
    prove("geobox_recovered_through_fallback", gb is not None)
    if gb is not None:
        prove("shape", And(gb.shape.y == yn, gb.shape.x == xn))
        check_transform(gb.affine, g, ysl, xsl)


def h_rotated(yn, yk, xn, xk, kind="rot"):
    import odc.geo._xr_interop as xr

    g, ny, nx = mk_gbox(kind)
    ysl = (slice_params("y", yn, yk, ny), yn, yk)
    xsl = (slice_params("x", xn, xk, nx), xn, xk)
    src = build_src(g, ny, nx, ysl, xsl)
    if symx.concrete_mode():
        gb = src.odc.geobox
    else:
        gb = xr._locate_geo_info(src).geobox
    prove("geobox_recovered", gb is not None)
    if gb is None:
        return
    prove("shape", And(gb.shape.y == yn, gb.shape.x == xn))
    check_transform(gb.affine, g, ysl, xsl)


def h_gcp_pixel_labels(yn, yk, xn, xk):
    """pixel-space labels of a GCP GeoBox: the crop/stride affine is recovered from the labels"""
    import odc.geo._xr_interop as xr

    ny, nx = Int("ny", 1), Int("nx", 1)
    ysl = (slice_params("y", yn, yk, ny), yn, yk)
    xsl = (slice_params("x", xn, xk, nx), xn, xk)
    if symx.concrete_mode():
        # replay through the public route: a real GCP GeoBox wrapped, sliced and read back
        import numpy as np

        from odc.geo.gcp import GCPGeoBox, GCPMapping
        from odc.geo.xr import xr_zeros

        pix = np.asarray([[0.0, 0.0], [float(nx), 0.0], [float(nx), float(ny)], [0.0, float(ny)], [0.3 * nx, 0.6 * ny]])
        wld = np.stack([pix[:, 0] * 3 - pix[:, 1] * 0.5 + 7, pix[:, 0] * 0.25 + pix[:, 1] * -2 + 11], axis=1)
        g = GCPGeoBox((ny, nx), GCPMapping(pix, wld, "epsg:3857"))
        xx = xr_zeros(g)
        (ys, _, _), (xs, _, _) = ysl, xsl
        ye, xe = ys + yn * yk, xs + xn * xk
        yy = xx[slice(ys, ye if ye >= 0 else None, yk), slice(xs, xe if xe >= 0 else None, xk)]
        T = yy.odc.geobox._affine
        j, i = Int("probe_row", 0, yn - 1), Int("probe_col", 0, xn - 1)
        px, py = T * (i + 0.5, j + 0.5)
        prove("crop_affine:x", abs(px - (xs + i * xk + 0.5)) < 1e-6)
        prove("crop_affine:y", abs(py - (ys + j * yk + 0.5)) < 1e-6)
        return
    cy = xr._mk_pixel_coord("y", ny, None)
    cx = xr._mk_pixel_coord("x", nx, None)
    src = DA(None, coords={"y": slice_labels(cy, *ysl), "x": slice_labels(cx, *xsl)}, dims=("y", "x"))
    T = xr._extract_transform(src, ("y", "x"), None, True)
    if T is None:
        # what _locate_geo_info then builds: GCPGeoBox(shape, gcp, None), i.e. the identity
        from affine import Affine

        T = Affine.identity()
    j, i = Int("probe_row", 0, yn - 1), Int("probe_col", 0, xn - 1)
    h = F(1, 2)
    px, py = T * (i + h, j + h)
    prove("crop_affine:x", px == xsl[0] + i * xk + h)
    prove("crop_affine:y", py == ysl[0] + j * yk + h)


class _Pt:
    def __init__(self, x, y):
        self.coords = [(x, y)]


class _MPts:
    def __init__(self, pts):
        self.geoms = [_Pt(x, y) for x, y in pts]


class _PtsMapping:
    crs = None

    def __init__(self, pix, wld):
        self._p, self._w = pix, wld

    def points(self):
        return _MPts(self._p), _MPts(self._w)


class _GCP:
    def __init__(self, row=None, col=None, x=None, y=None, z=None, id=None, info=None):
        self.row, self.col, self.x, self.y, self.id = row, col, x, y, id


def h_gcp_write(kind):
    """the control points written for a GCP GeoBox carry the pixel coordinates of THIS GeoBox: its
    internal (crop / pad / zoom) affine applied to a written (col, row) gives back the control
    point's own pixel position, and the world side is unchanged"""
    import sys
    import types

    import odc.geo.gcp as gcp
    from affine import Affine

    n = 3
    pix = [(Real(f"px{k}"), Real(f"py{k}")) for k in range(n)]
    wld = [(Real(f"wx{k}"), Real(f"wy{k}")) for k in range(n)]
    tx, ty = Real("tx"), Real("ty")
    if kind == "crop":
        A = Affine.translation(tx, ty)
    elif kind == "zoom":
        sx, sy = Real("sx"), Real("sy")
        assume(And(sx > 0, sy > 0))
        A = Affine.translation(tx, ty) * Affine.scale(sx, sy)
    else:
        a, b, d, e = Real("a"), Real("b"), Real("d"), Real("e")
        assume(a * e - b * d != 0)
        A = Affine(a, b, tx, d, e, ty)
    g = gcp.GCPGeoBox((Int("ny", 1), Int("nx", 1)), _PtsMapping(pix, wld), A)
    stub = types.ModuleType("rasterio.control")
    stub.GroundControlPoint = _GCP
    saved = sys.modules.get("rasterio.control")
    sys.modules["rasterio.control"] = stub
    try:
        out = g.gcps()
    finally:
        if saved is None:
            sys.modules.pop("rasterio.control", None)
        else:
            sys.modules["rasterio.control"] = saved
    prove("one_gcp_per_control_point", len(out) == n)
    tol = F(1, 10**6) if symx.concrete_mode() else 0
    for k, q in enumerate(out):
        bx, by = A * (q.col, q.row)
        prove(f"gcp{k}_pixel_side", And(abs(ex(bx) - ex(pix[k][0])) <= tol * (1 + abs(ex(pix[k][0]))), abs(ex(by) - ex(pix[k][1])) <= tol * (1 + abs(ex(pix[k][1])))))
        prove(f"gcp{k}_world_side", And(ex(q.x) == ex(wld[k][0]), ex(q.y) == ex(wld[k][1])))
        prove(f"gcp{k}_id", q.id == k)



def h_gcp_round_trip(kind):
    """a GCP GeoBox with its own pixel affine (a crop, an overview) written with xr_coords and read
    back: the labels written are positions in THIS box's pixel grid, so the affine recovered from
    them is the identity over the re-based control points -- pixel (i, j) maps where it mapped"""
    import sys
    import types

    import odc.geo._xr_interop as xr
    import odc.geo.gcp as gcp
    from affine import Affine

    ny, nx = Int("ny", 2), Int("nx", 2)  # single-pixel axes have no spacing to read (X2)
    if symx.concrete_mode():
        import numpy as np

        from odc.geo.gcp import GCPGeoBox, GCPMapping
        from odc.geo.xr import xr_zeros

        NY, NX = max(ny, 4) + 8, max(nx, 4) + 8
        pix = np.asarray([[0.0, 0.0], [float(NX), 0.0], [float(NX), float(NY)], [0.0, float(NY)], [0.3 * NX, 0.6 * NY]])
        wld = np.stack([pix[:, 0] * 3 - pix[:, 1] * 0.5 + 7, pix[:, 0] * 0.25 + pix[:, 1] * -2 + 11], axis=1)
        g0 = GCPGeoBox((NY, NX), GCPMapping(pix, wld, "epsg:3857"))
        g = g0[3:, 5:] if kind == "crop" else g0.zoom_out(2)
        back = xr_zeros(g).odc.geobox
        ok = True
        for u, v in ((0.5, 0.5), (g.shape.x - 0.5, 0.5), (0.5, g.shape.y - 0.5), (g.shape.x / 2, g.shape.y / 2), (1.5, 2.5)):
            wa, wb = g.pix2wld(u, v), back.pix2wld(u, v)
            ok = ok and abs(wa[0] - wb[0]) < 1e-3 and abs(wa[1] - wb[1]) < 1e-3  # the mapping is affine here: fits agree to rounding
        prove("recovered_box_maps_every_pixel_where_the_original_does", ok and tuple(back.shape) == tuple(g.shape))
        return
    n = 3
    pix = [(Real(f"px{k}"), Real(f"py{k}")) for k in range(n)]
    wld = [(Real(f"wx{k}"), Real(f"wy{k}")) for k in range(n)]
    tx, ty = Real("tx"), Real("ty")
    if kind == "crop":
        A = Affine.translation(tx, ty)
    else:
        sx, sy = Real("sx"), Real("sy")
        assume(And(sx > 0, sy > 0))
        A = Affine.translation(tx, ty) * Affine.scale(sx, sy)
    g = gcp.GCPGeoBox((ny, nx), _PtsMapping(pix, wld), A)
    stub = types.ModuleType("rasterio.control")
    stub.GroundControlPoint = _GCP
    saved = sys.modules.get("rasterio.control")
    sys.modules["rasterio.control"] = stub
    try:
        coords = xr.xr_coords(g)
    finally:
        if saved is None:
            sys.modules.pop("rasterio.control", None)
        else:
            sys.modules["rasterio.control"] = saved
    dims = tuple(g.dimensions)
    prove("one_label_axis_per_dimension", all(d in coords for d in dims))
    src = DA(None, coords={d: coords[d] for d in dims}, dims=dims)
    T = xr._extract_transform(src, dims, None, True)
    if T is None:
        T = Affine.identity()
    j, i = Int("probe_row", 0), Int("probe_col", 0)
    assume(And(j < ny, i < nx))
    h = F(1, 2)
    px, py = T * (i + h, j + h)
    prove("labels_are_positions_in_this_box:x", ex(px) == i + h)
    prove("labels_are_positions_in_this_box:y", ex(py) == j + h)


class _Arr:
    """pixel payload stand-in (the warp itself is GDAL's): only its shape and dtype are observable"""

    def __init__(self, shape, dtype="uint8"):
        self.shape, self.dtype = tuple(shape), dtype


class DAN(DA):
    """N-d container with a payload of known shape and the .odc accessor of the real library"""

    def __init__(self, data=None, coords=None, dims=(), attrs=None, name=None):
        DA.__init__(self, data, coords, dims, attrs, name)

    @property
    def shape(self):
        return self.values.shape

    @property
    def dtype(self):
        return self.values.dtype

    @property
    def data(self):
        return self.values

    @property
    def odc(self):
        import odc.geo._xr_interop as xr

        return xr.ODCExtensionDa(self)


def h_reproject_assembly(crs_name, dst_crs, enc=True):
    """_xr_reproject_da with the warp stubbed: the output's recovered GeoBox equals the requested
    destination GeoBox (shape, CRS, all six coefficients) -- also after an operation that drops
    the encoding (arithmetic) --, exactly one CRS coordinate remains, coordinates over the old
    spatial dims are gone, other coordinates and dims are kept, stale spatial attributes pruned"""
    import odc.geo._xr_interop as xr
    import odc.geo.geobox as gbx
    from affine import Affine

    from .. import npmodel

    ny, nx = Int("ny", 2), Int("nx", 2)
    my, mx = Int("my", 2), Int("mx", 2)
    sa, se = Real("sa"), Real("se")
    da_, de = Real("da"), Real("de")
    assume(And(sa != 0, se != 0, da_ != 0, de != 0))
    src_g = gbx.GeoBox((ny, nx), Affine(sa, 0.0, Real("sc"), 0.0, se, Real("sf")), "epsg:3857")
    dst_g = gbx.GeoBox((my, mx), Affine(da_, 0.0, Real("dc"), 0.0, de, Real("df")), dst_crs)
    conc = symx.concrete_mode()
    if conc:
        import numpy as np
        import xarray

        coords = xr.xr_coords(src_g, crs_coord_name=crs_name)
        src = xarray.DataArray(np.zeros((2, ny, nx), dtype="uint8"), coords={**coords, "time": [10, 20], "tag": "v1"}, dims=("time", "y", "x"),
                               attrs={"units": "m", "crs": "EPSG:3857", "epsg": 3857, "grid_mapping": crs_name})
        src = src.assign_coords(cell=(("y", "x"), np.zeros((ny, nx))))
        if enc:
            src.encoding["grid_mapping"] = crs_name
        else:  # a source that went through arithmetic: no encoding, no grid_mapping attribute
            src.attrs.pop("grid_mapping")
        out = xr._xr_reproject_da(src, dst_g)
        out2 = out + 1  # arithmetic drops the encoding
        for nm, o in (("direct", out), ("after_arithmetic", out2)):
            gb = o.odc.geobox
            prove(f"{nm}:geobox_is_the_destination", gb is not None and gb.shape == dst_g.shape and gb.crs == dst_g.crs and gb.affine.almost_equals(dst_g.affine, 1e-6 * max(1.0, abs(dst_g.affine.c), abs(dst_g.affine.f))))
        prove("old_spatial_coordinate_dropped", "cell" not in out.coords)
        prove("other_coordinates_kept", "time" in out.coords and "tag" in out.coords)
        prove("stale_attributes_pruned", not ({"crs", "epsg", "grid_mapping"} & set(out.attrs)) and out.attrs.get("units") == "m")
        return
    coords = xr.xr_coords(src_g, crs_coord_name=crs_name)
    coords["time"] = DA([10, 20], dims=("time",), name="time")
    coords["tag"] = DA("v1", dims=(), name="tag")
    coords["cell"] = DA(None, dims=("y", "x"), name="cell")
    src = DAN(_Arr((2, ny, nx)), coords=coords, dims=("time", "y", "x"), attrs={"units": "m", "crs": "EPSG:3857", "epsg": 3857, "grid_mapping": crs_name})
    if enc:
        src.encoding["grid_mapping"] = crs_name
    else:
        src.attrs.pop("grid_mapping")
    saved = (xr.rio_reproject, npmodel.NP.__dict__.get("empty"))
    calls = []

    def fake_warp(src_values, dst, s_gbox, d_gbox, **kw):
        calls.append((s_gbox, d_gbox, kw))
        return dst

    xr.rio_reproject = fake_warp
    npmodel.NP.empty = staticmethod(lambda shape, dtype=None: _Arr(shape, dtype))
    saved_da = FakeXarray.DataArray
    FakeXarray.DataArray = DAN
    try:
        out = xr._xr_reproject_da(src, dst_g)
    finally:
        xr.rio_reproject = saved[0]
        FakeXarray.DataArray = saved_da
        if saved[1] is None:
            del npmodel.NP.empty
        else:
            npmodel.NP.empty = saved[1]
    prove("warped_once_between_the_two_geoboxes", len(calls) == 1 and calls[0][1] is dst_g and calls[0][2].get("ydim") == 1)
    sg = calls[0][0]
    prove("warp_source_geobox", And(sg.shape.y == ny, sg.shape.x == nx, sg.crs == src_g.crs, sg.affine.a == sa, sg.affine.e == se, sg.affine.c == src_g.affine.c, sg.affine.f == src_g.affine.f))
    ydim_n, xdim_n = dst_g.dimensions
    prove("dims", out.dims == ("time", ydim_n, xdim_n))
    prove("payload_shape", And(len(out.values.shape) == 3, out.values.shape[0] == 2, out.values.shape[1] == my, out.values.shape[2] == mx))
    arith = DAN(out.values, coords=dict(out.coords), dims=out.dims, attrs=dict(out.attrs))  # encoding dropped
    for nm, o in (("direct", out), ("after_arithmetic", arith)):
        st = xr._locate_geo_info(o)
        gb = st.geobox
        prove(f"{nm}:geobox_recovered", gb is not None)
        if gb is None:
            continue
        A, B_ = dst_g.affine, gb.affine
        prove(f"{nm}:geobox_is_the_destination", And(gb.shape.y == my, gb.shape.x == mx, gb.crs == dst_g.crs, B_.a == A.a, B_.b == A.b, B_.c == A.c, B_.d == A.d, B_.e == A.e, B_.f == A.f))
        prove(f"{nm}:exactly_one_crs_coordinate", len([c_ for c_ in o.coords.values() if xr._is_spatial_ref(c_)]) == 1)
    prove("old_spatial_coordinate_dropped", "cell" not in out.coords)
    prove("other_coordinates_kept", "time" in out.coords and "tag" in out.coords)
    prove("stale_attributes_pruned", not ({"crs", "epsg", "grid_mapping"} & set(out.attrs)) and out.attrs.get("units") == "m")



class DS:
    """passive Dataset: named variables sharing coordinates.  map() models xarray's: the function
    is applied per data variable and -- depending on the xarray release (keep_attrs default) --
    the attributes of the source variables AND of same-named source coordinates are copied onto
    the result; which of the two it is, is a symbolic flag of the environment"""

    copies_attrs = False

    def __init__(self, data_vars=None, coords=None, attrs=None):
        self.data_vars = dict(data_vars or {})
        self.attrs = dict(attrs or {})
        self.encoding = {}
        self.coords = dict(coords or {})
        for v in self.data_vars.values():
            for k, c_ in v.coords.items():
                self.coords.setdefault(k, c_)

    @property
    def dims(self):
        out = []
        for v in self.data_vars.values():
            for d in v.dims:
                if d not in out:
                    out.append(d)
        return tuple(out)

    def __getitem__(self, k):
        return self.coords[k] if k in self.coords else self.data_vars[k]

    @property
    def odc(self):
        import odc.geo._xr_interop as xr

        return xr.ODCExtensionDs(self)

    def map(self, func, keep_attrs=None, **kw):
        out = {k: func(v) for k, v in self.data_vars.items()}
        res = DS(out, attrs=self.attrs if DS.copies_attrs else {})
        if DS.copies_attrs:
            for k, v in out.items():
                v.attrs = dict(self.data_vars[k].attrs)
            for k, c_ in res.coords.items():
                if k in self.coords:
                    c2 = DA(c_.values, dims=c_.dims, attrs=dict(self.coords[k].attrs), name=c_.name)
                    c2.encoding = dict(c_.encoding)
                    res.coords[k] = c2
                    for v in out.values():
                        if k in v.coords:
                            v.coords[k] = c2
        return res


def h_reproject_dataset(dst_crs, profile=False):
    """xr_reproject of a Dataset: the Dataset and each georegistered variable recover the
    requested destination GeoBox, CRS included -- whichever way the installed xarray's
    Dataset.map treats attributes; variables without a GeoBox pass through"""
    import odc.geo._xr_interop as xr
    import odc.geo.geobox as gbx
    from affine import Affine

    from .. import npmodel

    ny, nx = Int("ny", 2), Int("nx", 2)
    my, mx = Int("my", 2), Int("mx", 2)
    sa, se, da_, de = Real("sa"), Real("se"), Real("da"), Real("de")
    assume(And(sa != 0, se != 0, da_ != 0, de != 0))
    src_g = gbx.GeoBox((ny, nx), Affine(sa, 0.0, Real("sc"), 0.0, se, Real("sf")), "epsg:3857")
    dst_g = gbx.GeoBox((my, mx), Affine(da_, 0.0, Real("dc"), 0.0, de, Real("df")), dst_crs)
    if symx.concrete_mode():
        import numpy as np
        import xarray

        a = xarray.DataArray(np.zeros((ny, nx), dtype="uint8"), coords=xr.xr_coords(src_g), dims=("y", "x"))
        ds = xarray.Dataset({"a": a, "b": a + 1, "c": xarray.DataArray([2, 3, 4])})
        if profile:
            ds["p"] = a.astype("float32").mean("y")  # a column profile: lives on the x axis of the source grid only
        out = xr._xr_reproject_ds(ds, dst_g)
        if profile:
            prove("every_variable_left_on_a_spatial_axis_is_on_the_destination_grid", dict(out.sizes).get("y") == my and dict(out.sizes).get("x") == mx)
        for nm, o in (("dataset", out), ("var_a", out.a), ("var_b", out.b)):
            gb = o.odc.geobox
            prove(f"{nm}:geobox_is_the_destination", gb is not None and gb.shape == dst_g.shape and gb.crs == dst_g.crs and gb.affine.almost_equals(dst_g.affine, 1e-6 * max(1.0, abs(dst_g.affine.c), abs(dst_g.affine.f))))
        prove("plain_variable_passes_through", bool((out.c == ds.c).all()))
        return
    DS.copies_attrs = bool(Bool("xarray_map_copies_attrs"))  # forks: both xarray behaviours
    mk = lambda: DAN(_Arr((ny, nx)), coords=xr.xr_coords(src_g), dims=("y", "x"))  # noqa: E731
    plain = DAN(_Arr((3,)), coords={}, dims=("dim_0",))
    vars_ = {"a": mk(), "b": mk(), "c": plain}
    if profile:
        # a column profile (the mean over rows): one of the two spatial axes, with the source labels
        full = mk()
        vars_["p"] = DAN(_Arr((nx,)), coords={"x": full.coords["x"]}, dims=("x",))
    ds = DS(vars_)
    saved = (xr.rio_reproject, npmodel.NP.__dict__.get("empty"), FakeXarray.DataArray, FakeXarray.Dataset)
    xr.rio_reproject = lambda src_values, dst, s_gbox, d_gbox, **kw: dst
    npmodel.NP.empty = staticmethod(lambda shape, dtype=None: _Arr(shape, dtype))
    FakeXarray.DataArray, FakeXarray.Dataset = DAN, DS
    try:
        out = xr._xr_reproject_ds(ds, dst_g)
    finally:
        xr.rio_reproject, FakeXarray.DataArray, FakeXarray.Dataset = saved[0], saved[2], saved[3]
        if saved[1] is None:
            del npmodel.NP.empty
        else:
            npmodel.NP.empty = saved[1]
    A = dst_g.affine
    for nm, o in (("dataset", out), ("var_a", out.data_vars["a"]), ("var_b", out.data_vars["b"])):
        gb = xr._locate_geo_info(o).geobox
        prove(f"{nm}:geobox_recovered", gb is not None)
        if gb is None:
            continue
        B_ = gb.affine
        prove(f"{nm}:geobox_is_the_destination", And(gb.shape.y == my, gb.shape.x == mx, gb.crs == dst_g.crs, B_.a == A.a, B_.b == A.b, B_.c == A.c, B_.d == A.d, B_.e == A.e, B_.f == A.f))
    prove("plain_variable_passes_through", out.data_vars["c"].values is plain.values)
    if profile:
        # a Dataset has one set of labels per dimension: whatever is left on "x" must carry the
        # destination's labels (xarray would otherwise join the two label sets into a wider grid)
        ref = out.data_vars["a"].coords["x"]
        for nm, v in out.data_vars.items():
            if "x" in v.dims:
                lab = v.coords["x"]
                lv, rv = getattr(lab, "values", lab), getattr(ref, "values", ref)
                prove(f"{nm}:x_labels_are_the_destinations", And(lv.n == rv.n, ex(lv.a) == ex(rv.a), ex(lv.b) == ex(rv.b)))



SL_Q = [dict(yn=3, yk=1, xn=4, xk=1), dict(yn=2, yk=2, xn=5, xk=-1), dict(yn=7, yk=-3, xn=2, xk=2)]
SL_T = SL_Q + [dict(yn=a, yk=b, xn=c, xk=d) for a, b, c, d in ((2, 1, 2, 1), (100, 1, 50, 2), (3, -1, 3, -1), (5, 4, 9, -2), (1000, 3, 2, 7))]

OBLIGATIONS = [
    Ob("X1_axis_aligned", h_axis_aligned, tiered([dict(s, via="locate") for s in SL_Q] + [dict(SL_Q[1], via="extract")], [dict(s, via=v) for s in SL_T for v in ("locate", "extract")]),
       descr="axis-aligned GeoBox -> xr_coords -> positional slice [a:a+n*k:k] per axis -> recovered GeoBox sends new pixel centre j+1/2 to the world location of original pixel a+j*k; shape and CRS recovered",
       functions=("odc.geo._xr_interop.xr_coords", "odc.geo._xr_interop._coord_to_xr", "odc.geo._xr_interop._mk_crs_coord", "odc.geo._xr_interop._locate_geo_info", "odc.geo._xr_interop._extract_transform",
                  "odc.geo._xr_interop._locate_crs_coords", "odc.geo._xr_interop._extract_crs", "odc.geo.math.affine_from_axis", "odc.geo.math.data_resolution_and_offset"),
       bounds="GeoBox affine (axis-aligned) and shape symbolic; slice origin symbolic; (length, stride) per axis from a grid incl. negative strides",
       stubs=("passive xarray container", "LinSeq labels", "float tokens through the GeoTransform string"), setup=setup, timeout_ms=20000),
    Ob("X1_identity", h_identity, fixed(), descr="no slicing: the recovered GeoBox has the original shape, CRS and affine", functions=("odc.geo._xr_interop._locate_geo_info",), stubs=("passive xarray container", "LinSeq"), setup=setup),
    Ob("X2_single_pixel_axis", h_single_pixel_axis, fixed(*([dict(which=w, with_crs_coord=c) for w in ("y", "x") for c in (True, False)] + [dict(which=w, with_crs_coord=True, ok=k) for w in ("y", "x") for k in (2, -1, -3)])),
       descr="an axis of length 1: the GeoTransform fallback resolution is used; without the CRS coordinate no GeoBox rather than a wrong one",
       functions=("odc.geo._xr_interop._extract_transform", "odc.geo._xr_interop._extract_geo_transform", "odc.geo.math.affine_from_axis"), stubs=("passive xarray container", "float tokens"), setup=setup, timeout_ms=20000),
    Ob("X3_rotated", h_rotated, tiered(SL_Q[:2] + [dict(yn=1, yk=1, xn=3, xk=1, kind="rotgrid1"), dict(yn=4, yk=1, xn=1, xk=1, kind="rotgrid2")],
                                       SL_T[:5] + [dict(yn=1, yk=1, xn=3, xk=1, kind="rotgrid1"), dict(yn=4, yk=1, xn=1, xk=1, kind="rotgrid2"), dict(yn=1, yk=1, xn=1, xk=1, kind="rotgrid1"), dict(yn=1, yk=1, xn=5, xk=-2, kind="rotgrid2")]), descr="rotated/sheared GeoBox: pixel-space labels + encoded transform compose to original o slice",
       functions=("odc.geo._xr_interop._mk_pixel_coord", "odc.geo._xr_interop._extract_transform"), bounds="fully symbolic affine with shear/rotation; slices as X1 plus single-row / single-column results", stubs=("passive xarray container", "LinSeq"), setup=setup, timeout_ms=60000, fresh_only=True),
    Ob("X5_gcp_write", h_gcp_write, fixed(dict(kind="crop"), dict(kind="zoom"), dict(kind="general")),
       descr="GCPGeoBox.gcps(): written (col,row) are in this GeoBox's own pixel frame (internal affine applied gives back the control point's pixel position); world side unchanged; ids in order",
       functions=("odc.geo.gcp.GCPGeoBox.gcps",), bounds="3 symbolic control points; internal affine: translation / translation x scale / any invertible affine",
       stubs=("rasterio GroundControlPoint record", "control-point multipoints as vertex lists"), setup=setup, fresh_only=True),
    Ob("X8_gcp_round_trip", h_gcp_round_trip, fixed(dict(kind="crop"), dict(kind="zoom")),
       descr="a GCP GeoBox with its own pixel affine (crop, overview) written with xr_coords and read back: the labels are positions in this box's pixel grid (the affine recovered from them is the identity over the re-based control points written by gcps(), X5)",
       functions=("odc.geo._xr_interop.xr_coords", "odc.geo._xr_interop._mk_pixel_coord", "odc.geo._xr_interop._extract_transform"), bounds="shape (sides >= 2), crop offset / overview scale, control points, probed pixel symbolic",
       stubs=("passive xarray container", "LinSeq labels", "rasterio.control.GroundControlPoint record"), setup=setup),
    Ob("X6_reproject_assembly", h_reproject_assembly, fixed(dict(crs_name="spatial_ref", dst_crs="epsg:32633"), dict(crs_name="crs", dst_crs="epsg:32633"), dict(crs_name="crs", dst_crs="epsg:4326"), dict(crs_name="_crs", dst_crs="epsg:32633", enc=False), dict(crs_name="spatial_ref", dst_crs="epsg:4326", enc=False)),
       descr="_xr_reproject_da output assembly (warp stubbed): recovered GeoBox == requested destination (also once the encoding is gone), one CRS coordinate, old spatial coordinates dropped, others kept, stale attributes pruned",
       functions=("odc.geo._xr_interop._xr_reproject_da", "odc.geo._xr_interop.xr_coords", "odc.geo._xr_interop._locate_geo_info", "odc.geo._xr_interop._locate_crs_coords"),
       bounds="source and destination GeoBoxes axis-aligned with symbolic coefficients and shapes (>= 2); leading time axis; CRS coordinate named spatial_ref or crs",
       stubs=("rio_reproject (GDAL warp) recorder", "passive xarray container"), setup=setup),
    Ob("X7_reproject_dataset", h_reproject_dataset, fixed(dict(dst_crs="epsg:32633"), dict(dst_crs="epsg:3857"), dict(dst_crs="epsg:32633", profile=True)),
       descr="_xr_reproject_ds: Dataset and each georegistered variable recover the destination GeoBox (CRS included) under either attribute behaviour of xarray's Dataset.map; plain variables pass through",
       functions=("odc.geo._xr_interop._xr_reproject_ds", "odc.geo._xr_interop._xr_reproject_da", "odc.geo._xr_interop._locate_geo_info"),
       bounds="axis-aligned symbolic source/destination GeoBoxes (shapes >= 2), two georegistered variables and one plain", stubs=("rio_reproject recorder", "passive Dataset whose map() copies source attributes or not (symbolic environment flag)"), setup=setup),
    Ob("X4_gcp_pixel_labels", h_gcp_pixel_labels, tiered(SL_Q[:2] + [dict(yn=1, yk=1, xn=3, xk=1), dict(yn=4, yk=2, xn=1, xk=1), dict(yn=1, yk=1, xn=1, xk=1)], SL_T[:5] + [dict(yn=1, yk=1, xn=3, xk=1), dict(yn=4, yk=2, xn=1, xk=1), dict(yn=1, yk=1, xn=1, xk=1), dict(yn=1, yk=1, xn=5, xk=-2)]), descr="GCP GeoBox pixel labels: the crop/stride affine is recovered from the labels", functions=("odc.geo._xr_interop._mk_pixel_coord", "odc.geo._xr_interop._extract_transform"),
       stubs=("passive xarray container", "LinSeq"), setup=setup),
]
