"""C04 -- tilings are exact partitions and blocks reassemble the mosaic."""
from __future__ import annotations

from fractions import Fraction as F

from .. import shims, symx
from ..runner import Ob, fixed, tiered
from ..symx import (And, Bool, Implies, Int, Not, Or, Real, assume, const, ex, ite, prove,
                    s_max, s_min)

EXPLANATION = (
    "Tiles / VariableSizedTiles / clip_tiles / GeoboxTiles / BlockAssembler executed on symbolic image sizes, chunk "
    "tuples, tile indices, windows and probe pixels; every law of an exact partition, the lookup inverses, crop/clip "
    "re-basing and the per-pixel semantics of BlockAssembler.extract (over a recording numpy model) decided by z3."
)
ASSUMPTIONS = [
    "regular tile sizes come from a finite grid; image sizes, indices, pixels and variable chunk sizes are unbounded symbolic ints (variable tilings: total <= 2^31-1, the int32 offsets the code uses)",
    "chunk tuples of length <= 3 (quick) / <= 4 (thorough) per axis; Tiles.chunks for tile counts <= 8 (case split)",
    "BlockAssembler: block layouts <= 2x2 (quick) / <= 3x2 (thorough), each block present or absent (symbolic flag); numpy's copy/cast kernels are outside the claim -- np.full / np.copyto are replaced by a recording model, dtype resolution runs on real numpy dtypes",
]


def setup():
    shims.install_core()
    import odc.geo._blocks as blk

    from .. import npmodel

    shims.instrument(blk)
    blk.np = npmodel._np_singleton


def preflight():
    from .. import npmodel

    npmodel.selfcheck()


def roi_mod():
    import odc.geo.roi as roi

    return roi


# ---- T1: regular tiles ------------------------------------------------------------------------
def _mk_tiles(ny, nx):
    roi = roi_mod()
    NY, NX = Int("NY", 1), Int("NX", 1)
    t = roi.Tiles((NY, NX), (ny, nx))
    return t, NY, NX


def h_tiles_count(ny, nx):
    t, NY, NX = _mk_tiles(ny, nx)
    cy, cx = t.shape.yx
    prove("count_y:ceil", And(cy * ny >= NY, (cy - 1) * ny < NY))
    prove("count_x:ceil", And(cx * nx >= NX, (cx - 1) * nx < NX))
    prove("base", And(t.base.y == NY, t.base.x == NX))


def h_tiles_region(ny, nx):
    t, NY, NX = _mk_tiles(ny, nx)
    cy, cx = t.shape.yx
    r, c = Int("r"), Int("c")
    assume(And(0 <= r, r < cy, 0 <= c, c < cx))
    sy, sx = t[r, c]
    prove("region_y", And(sy.start == r * ny, sy.stop == s_min((r + 1) * ny, NY), sy.start < sy.stop))
    prove("region_x", And(sx.start == c * nx, sx.stop == s_min((c + 1) * nx, NX), sx.start < sx.stop))
    ts = t.tile_shape((r, c))
    prove("tile_shape", And(ts.y == sy.stop - sy.start, ts.x == sx.stop - sx.start))
    # numpy-style negative indices address the same tile
    sy2, sx2 = t[r - cy, c - cx]
    prove("negative_index_region", And(sy2.start == sy.start, sy2.stop == sy.stop, sx2.start == sx.start, sx2.stop == sx.stop))
    ts2 = t.tile_shape((r - cy, c - cx))
    prove("negative_index_shape", And(ts2.y == ts.y, ts2.x == ts.x))
    # another tile: pairwise disjoint
    r2, c2 = Int("r2"), Int("c2")
    assume(And(0 <= r2, r2 < cy, 0 <= c2, c2 < cx))
    ty_, tx_ = t[r2, c2]
    prove("disjoint_rows", Or(sy.stop <= ty_.start, ty_.stop <= sy.start), when=r != r2)
    prove("disjoint_cols", Or(sx.stop <= tx_.start, tx_.stop <= sx.start), when=c != c2)
    # locate is the inverse of region lookup
    py, px = Int("py"), Int("px")
    assume(And(sy.start <= py, py < sy.stop, sx.start <= px, px < sx.stop))
    iy, ix = t.locate((py, px))
    prove("locate_inverse", And(iy == r, ix == c))


def h_tiles_locate(ny, nx):
    t, NY, NX = _mk_tiles(ny, nx)
    cy, cx = t.shape.yx
    py, px = Int("py"), Int("px")
    assume(And(0 <= py, py < NY, 0 <= px, px < NX))
    iy, ix = t.locate((py, px))
    prove("locate_in_range", And(0 <= iy, iy < cy, 0 <= ix, ix < cx))
    sy, sx = t[iy, ix]
    prove("locate_region_contains", And(sy.start <= py, py < sy.stop, sx.start <= px, px < sx.stop))


def h_tiles_locate_oob(ny, nx):
    t, NY, NX = _mk_tiles(ny, nx)
    py, px = Int("py"), Int("px")
    assume(Or(py < 0, py >= NY, px < 0, px >= NX))
    try:
        t.locate((py, px))
    except IndexError:
        return
    prove("locate_outside_raises", False)


def h_tiles_oob(ny, nx):
    t, NY, NX = _mk_tiles(ny, nx)
    cy, cx = t.shape.yx
    r, c = Int("r"), Int("c")
    assume(Or(r >= cy, r < -cy, c >= cx, c < -cx))
    try:
        t[r, c]
    except IndexError:
        pass
    else:
        prove("getitem_outside_raises", False)
    try:
        t.tile_shape((r, c))
    except IndexError:
        return
    prove("tile_shape_outside_raises", False)


def h_tiles_slice(ny, nx):
    roi = roi_mod()
    t, NY, NX = _mk_tiles(ny, nx)
    cy, cx = t.shape.yx
    a, b, c, d = Int("a"), Int("b"), Int("c"), Int("d")
    assume(And(0 <= a, a < b, b <= cy, 0 <= c, c < d, d <= cx))
    sy, sx = t[a:b, c:d]
    prove("hull_y", And(sy.start == a * ny, sy.stop == s_min(b * ny, NY)))
    prove("hull_x", And(sx.start == c * nx, sx.stop == s_min(d * nx, NX)))
    # crop = the tiling of the cropped rectangle, indices re-based
    tc = t.crop((slice(a, b), slice(c, d)))
    prove("crop_base", And(tc.base.y == sy.stop - sy.start, tc.base.x == sx.stop - sx.start))
    prove("crop_shape", And(tc.shape.y == b - a, tc.shape.x == d - c))
    r, q = Int("r"), Int("q")
    assume(And(0 <= r, r < b - a, 0 <= q, q < d - c))
    cy_, cx_ = tc[r, q]
    oy, ox = t[a + r, c + q]
    prove("crop_region_rebased", And(cy_.start + sy.start == oy.start, cy_.stop + sy.start == oy.stop,
                                     cx_.start + sx.start == ox.start, cx_.stop + sx.start == ox.stop))
    # open-ended and negative tile slices mean what they mean for arrays
    s2y, s2x = t[a:, :d]
    prove("open_slices", And(s2y.start == a * ny, s2y.stop == NY, s2x.start == 0, s2x.stop == s_min(d * nx, NX)))


def h_tiles_chunks(ny, nx):
    t, NY, NX = _mk_tiles(ny, nx)
    assume(And(NY <= 8 * ny, NX <= 8 * nx))
    chy, chx = t.chunks
    cy, cx = t.shape.yx
    prove("chunks_len", And(len(chy) == cy, len(chx) == cx))
    prove("chunks_sum", And(symx.s_sum(chy) == NY, symx.s_sum(chx) == NX))
    for i, v in enumerate(chy):
        prove(f"chunks_y{i}", v == t.tile_shape((i, 0)).y)
    for i, v in enumerate(chx):
        prove(f"chunks_x{i}", v == t.tile_shape((0, i)).x)


def h_tiles_eq(ny, nx):
    roi = roi_mod()
    t, NY, NX = _mk_tiles(ny, nx)
    t2 = roi.Tiles((NY, NX), (ny, nx))
    prove("eq_same", t == t2)
    M = Int("M", 1)
    assume(M != NY)
    t3 = roi.Tiles((M, NX), (ny, nx))
    prove("ne_other_base", Not(t == t3) if isinstance(t == t3, symx.Sym) else not (t == t3))


# ---- T2: variable tiles -------------------------------------------------------------------------
def _mk_var(ky, kx):
    roi = roi_mod()
    chy = tuple(Int(f"cy{i}", 1) for i in range(ky))
    chx = tuple(Int(f"cx{i}", 1) for i in range(kx))
    assume(And(symx.s_sum(chy) <= 2**31 - 1, symx.s_sum(chx) <= 2**31 - 1))
    t = roi.VariableSizedTiles((chy, chx))
    offy = [0]
    for v in chy:
        offy.append(offy[-1] + v)
    offx = [0]
    for v in chx:
        offx.append(offx[-1] + v)
    return t, chy, chx, offy, offx


def _sel(lst, i):
    """lst[i] for symbolic i (ite chain)"""
    r = lst[-1]
    for k in range(len(lst) - 2, -1, -1):
        r = ite(i == k, lst[k], r)
    return r


def h_var_basic(ky, kx):
    t, chy, chx, offy, offx = _mk_var(ky, kx)
    prove("shape", And(t.shape.y == ky, t.shape.x == kx))
    prove("base", And(t.base.y == offy[-1], t.base.x == offx[-1]))
    cy, cx = t.chunks
    prove("chunks_roundtrip", And(*[a == b for a, b in zip(cy, chy)], *[a == b for a, b in zip(cx, chx)], len(cy) == ky, len(cx) == kx))
    # numpy-style indices: -count .. count-1 (negative counts from the end)
    r_, c_ = Int("r", -ky, ky - 1), Int("c", -kx, kx - 1)
    r, c = ite(r_ < 0, r_ + ky, r_), ite(c_ < 0, c_ + kx, c_)
    sy, sx = t[r_, c_]
    prove("region_y", And(sy.start == _sel(offy, r), sy.stop == _sel(offy, r + 1)))
    prove("region_x", And(sx.start == _sel(offx, c), sx.stop == _sel(offx, c + 1)))
    ts = t.tile_shape((r_, c_))
    prove("tile_shape", And(ts.y == sy.stop - sy.start, ts.x == sx.stop - sx.start))
    py, px = Int("py"), Int("px")
    assume(And(sy.start <= py, py < sy.stop, sx.start <= px, px < sx.stop))
    iy, ix = t.locate((py, px))
    prove("locate_inverse", And(iy == r, ix == c))


def h_var_locate(ky, kx):
    t, chy, chx, offy, offx = _mk_var(ky, kx)
    py, px = Int("py"), Int("px")
    assume(And(0 <= py, py < offy[-1], 0 <= px, px < offx[-1]))
    iy, ix = t.locate((py, px))
    prove("locate_in_range", And(0 <= iy, iy < ky, 0 <= ix, ix < kx))
    sy, sx = t[iy, ix]
    prove("locate_region_contains", And(sy.start <= py, py < sy.stop, sx.start <= px, px < sx.stop))
    qy = Int("qy")
    assume(Or(qy < 0, qy >= offy[-1]))
    try:
        t.locate((qy, px))
    except IndexError:
        return
    prove("locate_outside_raises", False)


def h_var_crop(ky, kx):
    t, chy, chx, offy, offx = _mk_var(ky, kx)
    a, b = Int("a", 0, ky - 1), Int("b", 1, ky)
    c, d = Int("c", 0, kx - 1), Int("d", 1, kx)
    assume(And(a < b, c < d))
    a, b, c, d = (v.__index__() if isinstance(v, symx.Sym) else v for v in (a, b, c, d))
    sy, sx = t[a:b, c:d]
    prove("hull", And(sy.start == offy[a], sy.stop == offy[b], sx.start == offx[c], sx.stop == offx[d]))
    tc = t.crop((slice(a, b), slice(c, d)))
    prove("crop_shape", And(tc.shape.y == b - a, tc.shape.x == d - c))
    prove("crop_base", And(tc.base.y == offy[b] - offy[a], tc.base.x == offx[d] - offx[c]))
    for r in range(b - a):
        cy_, _ = tc[r, 0]
        oy, _ = t[a + r, c]
        prove(f"crop_region_y{r}", And(cy_.start + offy[a] == oy.start, cy_.stop + offy[a] == oy.stop))
    for q in range(d - c):
        _, cx_ = tc[0, q]
        _, ox = t[a, c + q]
        prove(f"crop_region_x{q}", And(cx_.start + offx[c] == ox.start, cx_.stop + offx[c] == ox.stop))


def h_var_oob(ky, kx):
    t, chy, chx, offy, offx = _mk_var(ky, kx)
    r = Int("r")
    # (indices below -count are not validated by the variable tiling and the statement does not
    # ask for it; only the natural upper range error is checked)
    assume(r >= ky)
    try:
        t[r, 0]
    except IndexError:
        pass
    else:
        prove("getitem_outside_raises", False)
    q = Int("q")
    assume(Or(q >= ky, q < -ky))
    try:
        t.tile_shape((q, 0))
    except IndexError:
        pass
    else:
        prove("tile_shape_outside_raises", False)


# ---- T3: clip_tiles ------------------------------------------------------------------------------
def h_clip(kind, nsel):
    roi = roi_mod()
    if kind == "regular":
        t, NY, NX = _mk_tiles(3, 7)
        assume(And(NY <= 2**31 - 1, NX <= 2**31 - 1))
        cy, cx = t.shape.yx
    else:
        t, chy, chx, offy, offx = _mk_var(3, 3)
        cy, cx = 3, 3
    sel = []
    for k in range(nsel):
        r, c = Int(f"r{k}"), Int(f"c{k}")
        assume(And(0 <= r, r < cy, 0 <= c, c < cx))
        sel.append((r, c))
    tc, crop, new = roi.clip_tiles(t, sel)
    ry, rx = crop
    # crop = bounding block of the selection
    for k, (r, c) in enumerate(sel):
        prove(f"bbox_contains{k}", And(ry.start <= r, r < ry.stop, rx.start <= c, c < rx.stop))
    prove("bbox_tight_y", And(Or(*[r == ry.start for r, _ in sel]), Or(*[r == ry.stop - 1 for r, _ in sel])))
    prove("bbox_tight_x", And(Or(*[c == rx.start for _, c in sel]), Or(*[c == rx.stop - 1 for _, c in sel])))
    hy, hx = t[ry, rx]
    for k, ((r, c), (r2, c2)) in enumerate(zip(sel, new)):
        prove(f"rebased_index{k}", And(r2 == r - ry.start, c2 == c - rx.start))
        oy, ox = t[r, c]
        ny_, nx_ = tc[r2, c2]
        prove(f"regions_agree{k}", And(ny_.start + hy.start == oy.start, ny_.stop + hy.start == oy.stop,
                                       nx_.start + hx.start == ox.start, nx_.stop + hx.start == ox.stop))


# ---- T4: GeoboxTiles -----------------------------------------------------------------------------
def h_gbt(kind):
    from affine import Affine

    import odc.geo.geobox as gbx

    a, b, c, d, e, f = (Real(n) for n in "abcdef")
    assume(a * e - b * d != 0)
    if kind == "regular":
        NY, NX = Int("NY", 1, 2**31 - 1), Int("NX", 1, 2**31 - 1)
        ny, nx = 3, 7
        base = gbx.GeoBox((NY, NX), Affine(a, b, c, d, e, f), None)
        gbt = gbx.GeoboxTiles(base, (ny, nx))
        cy, cx = gbt.shape.yx
        r, q = Int("r"), Int("q")
        assume(And(0 <= r, r < cy, 0 <= q, q < cx))
        y0, y1 = r * ny, s_min((r + 1) * ny, NY)
        x0, x1 = q * nx, s_min((q + 1) * nx, NX)
    else:
        chy = tuple(Int(f"cy{i}", 1) for i in range(2))
        chx = tuple(Int(f"cx{i}", 1) for i in range(3))
        assume(And(symx.s_sum(chy) <= 2**31 - 1, symx.s_sum(chx) <= 2**31 - 1))
        base = gbx.GeoBox((symx.s_sum(chy), symx.s_sum(chx)), Affine(a, b, c, d, e, f), None)
        gbt = gbx.GeoboxTiles(base, (chy, chx))
        r, q = Int("r", 0, 1), Int("q", 0, 2)
        offy = [0, chy[0], chy[0] + chy[1]]
        offx = [0, chx[0], chx[0] + chx[1], chx[0] + chx[1] + chx[2]]
        y0, y1 = _sel(offy, r), _sel(offy, r + 1)
        x0, x1 = _sel(offx, q), _sel(offx, q + 1)
    g = gbt[r, q]
    prove("tile_shape", And(g.shape.y == y1 - y0, g.shape.x == x1 - x0))
    cs = gbt.chunk_shape((r, q))
    prove("chunk_shape", And(cs.y == y1 - y0, cs.x == x1 - x0))
    # tile pixel (i,j) == base pixel (i+x0, j+y0)
    i, j = Real("i"), Real("j")
    wx, wy = g.pix2wld(i, j)
    bx, by = base.pix2wld(i + x0, j + y0)
    prove("tile_is_cropped_base", And(ex(wx) == ex(bx), ex(wy) == ex(by)))
    pb = gbt.pix_bbox((r, q))
    prove("pix_bbox", And(pb.left == x0, pb.right == x1, pb.bottom == y0, pb.top == y1))
    prove("crs_kept", g.crs is None)
    if kind == "regular":
        # chunks of the tiled geobox agree with the tiling; crop[...] = tiled geobox of the cropped base
        r0, r1 = Int("crop_r0"), Int("crop_r1")
        assume(And(0 <= r0, r0 <= r, r < r1, r1 <= cy))
        gcrop = gbt.crop[r0:r1, 0:cx]
        prove("crop_tile_count", And(gcrop.shape.y == r1 - r0, gcrop.shape.x == cx))
        gct = gcrop[r - r0, q]
        cwx, cwy = gct.pix2wld(i, j)
        prove("crop_reindexes_same_tiles", And(cwx == wx, cwy == wy, gct.shape.y == g.shape.y, gct.shape.x == g.shape.x))
        bwx, bwy = gcrop.base.pix2wld(i, j)
        owx, owy = base.pix2wld(i, j + r0 * ny)
        prove("crop_base_is_cropped_geobox", And(bwx == owx, bwy == owy))
        # clip to two selected tiles: cropped tiling indexes the same geoboxes
        r2, q2 = Int("r2"), Int("q2")
        assume(And(0 <= r2, r2 < cy, 0 <= q2, q2 < cx))
        gc, new = gbt.clip([(r, q), (r2, q2)])
        (nr, nq), (nr2, nq2) = new
        g1 = gc[nr, nq]
        g2 = gc[nr2, nq2]
        o2 = gbt[r2, q2]
        for nm, ga, gb_ in (("first", g1, g), ("second", g2, o2)):
            ax_, ay_ = ga.pix2wld(i, j)
            bx_, by_ = gb_.pix2wld(i, j)
            prove(f"clip_{nm}_same_geobox", And(ax_ == bx_, ay_ == by_, ga.shape.y == gb_.shape.y, ga.shape.x == gb_.shape.x))


# ---- T5: BlockAssembler -----------------------------------------------------------------------
def h_blocks(ky, kx, extra, dtype):
    import numpy as real_np

    import odc.geo._blocks as blk

    from ..npmodel import FakeBlock, RecArray

    chy = tuple(Int(f"cy{i}", 1) for i in range(ky))
    chx = tuple(Int(f"cx{i}", 1) for i in range(kx))
    assume(And(symx.s_sum(chy) <= 2**31 - 1, symx.s_sum(chx) <= 2**31 - 1))
    axis = 1 if extra == "lead" else 0
    T = 2
    pre = (T,) if extra == "lead" else ()
    post = (T,) if extra == "trail" else ()
    blocks = {}
    present = {}
    for iy in range(ky):
        for ix in range(kx):
            p = Bool(f"present_{iy}_{ix}")
            present[(iy, ix)] = p
            if p:  # forks
                shape = (*pre, chy[iy], chx[ix], *post)
                if symx.concrete_mode():
                    blocks[(iy, ix)] = real_np.full(shape, 10 * iy + ix + 1, dtype=dtype)
                else:
                    blocks[(iy, ix)] = FakeBlock((iy, ix), shape, dtype)
    if extra != "none":
        # with no block at all the leading/trailing dimensions are unknowable: outside the domain
        assume(Or(*present.values()))
    ba = blk.BlockAssembler(blocks, (chy, chx), axis=axis)
    NY, NX = symx.s_sum(chy), symx.s_sum(chx)
    prove("shape", ba.shape == (*pre, NY, NX, *post) if not symx.concrete_mode() else tuple(ba.shape) == (*pre, NY, NX, *post))
    y0, y1, x0, x1 = Int("y0"), Int("y1"), Int("x0"), Int("x1")
    assume(And(0 <= y0, y0 < y1, y1 <= NY, 0 <= x0, x0 < x1, x1 <= NX))
    out = ba.extract(roi=(slice(y0, y1), slice(x0, x1)))
    py, px = Int("py"), Int("px")
    assume(And(y0 <= py, py < y1, x0 <= px, px < x1))
    offy = [0]
    for v in chy:
        offy.append(offy[-1] + v)
    offx = [0]
    for v in chx:
        offx.append(offx[-1] + v)
    if symx.concrete_mode():
        prove("out_shape", tuple(out.shape) == (*pre, y1 - y0, x1 - x0, *post))
        # oracle: the pixel equals the covering block's constant, or NaN/0 fill
        val = out[(*([0] * len(pre)), py - y0, px - x0, *([0] * len(post)))]
        want = None
        for (iy, ix), b in blocks.items():
            if offy[iy] <= py < offy[iy + 1] and offx[ix] <= px < offx[ix + 1]:
                want = 10 * iy + ix + 1
        if want is None:
            prove("fill", (val != val) if real_np.issubdtype(out.dtype, real_np.floating) else val == 0)
        else:
            prove("pixel", val == want)
        return
    prove("recorded", isinstance(out, RecArray))
    prove("out_shape", And(*[a == b for a, b in zip(out.shape, (*pre, y1 - y0, x1 - x0, *post))], len(out.shape) == len(pre) + 2 + len(post)))
    wy, wx = py - y0, px - x0
    ncover = 0
    for d_roi, b, s_roi in out.writes:
        dy, dx = d_roi[axis], d_roi[axis + 1]
        sy, sx = s_roi[axis], s_roi[axis + 1]
        iy, ix = b.name
        L = f"w{iy}{ix}"
        prove(L + ":same_extent", And(dy.stop - dy.start == sy.stop - sy.start, dx.stop - dx.start == sx.stop - sx.start))
        prove(L + ":dst_in_window", And(0 <= dy.start, dy.stop <= y1 - y0, 0 <= dx.start, dx.stop <= x1 - x0))
        prove(L + ":src_in_block", And(0 <= sy.start, sy.stop <= chy[iy], 0 <= sx.start, sx.stop <= chx[ix]))
        cov = And(dy.start <= wy, wy < dy.stop, dx.start <= wx, wx < dx.stop)
        inblock = And(offy[iy] <= py, py < offy[iy + 1], offx[ix] <= px, px < offx[ix + 1])
        prove(L + ":written_iff_in_block", cov == inblock)
        prove(L + ":source_offset", And(sy.start + (wy - dy.start) == py - offy[iy], sx.start + (wx - dx.start) == px - offx[ix]), when=cov)
        # extra dims pass through whole
        for k in range(len(pre)):
            prove(L + f":lead{k}", And(s_roi[k].start == 0, s_roi[k].stop == T))
        for k in range(len(post)):
            prove(L + f":trail{k}", And(s_roi[axis + 2 + k].start == 0, s_roi[axis + 2 + k].stop == T))
    prove("one_write_per_present_block", len(out.writes) == len(blocks))
    # fill value / dtype resolution ran on real numpy dtypes
    want_dtype = real_np.dtype(dtype) if blocks else real_np.dtype("float32")
    prove("dtype", out.dtype == want_dtype)
    fv = out.fill
    if real_np.issubdtype(want_dtype, real_np.floating):
        prove("fill_nan", fv != fv)
    else:
        prove("fill_zero", fv == 0)


def h_blocks_two_requests(dtype):
    """state between requests: a window handed out earlier is still that window after the next
    request (same assembler, same window size, another place)"""
    import numpy as real_np

    import odc.geo._blocks as blk

    from ..npmodel import FakeBlock, RecArray

    chy = (Int("cy0", 1, 1000), Int("cy1", 1, 1000))
    chx = (Int("cx0", 1, 1000), Int("cx1", 1, 1000))
    conc = symx.concrete_mode()
    blocks = {}
    for iy in range(2):
        for ix in range(2):
            shape = (chy[iy], chx[ix])
            blocks[(iy, ix)] = real_np.full(shape, 10 * iy + ix + 1, dtype=dtype) if conc else FakeBlock((iy, ix), shape, dtype)
    ba = blk.BlockAssembler(blocks, (chy, chx))
    NY, NX = symx.s_sum(chy), symx.s_sum(chx)
    h, w = Int("h", 1), Int("w", 1)
    y0, x0, y1, x1 = Int("y0", 0), Int("x0", 0), Int("y1", 0), Int("x1", 0)
    assume(And(y0 + h <= NY, x0 + w <= NX, y1 + h <= NY, x1 + w <= NX))
    a = ba.extract(roi=(slice(y0, y0 + h), slice(x0, x0 + w)))
    if conc:
        a0 = a.copy()
        b = ba[y1 : y1 + h, x1 : x1 + w]
        prove("earlier_window_is_left_as_it_was", bool(real_np.array_equal(a, a0)))
        return
    wa, fa = list(a.writes), a.fill
    b = ba.extract(roi=(slice(y1, y1 + h), slice(x1, x1 + w)))
    prove("each_request_gets_its_own_array", isinstance(a, RecArray) and isinstance(b, RecArray) and a is not b)
    prove("earlier_window_is_left_as_it_was", a.writes == wa and a.fill is fa)


def h_blocks_roi(form):
    """the other ways of asking for a window: no roi, __getitem__, N-d roi with an integer on the
    extra axis (squeezed), leading-axes-only roi, negative/open slice bounds, integer in Y, too many
    indices; and planes_yx"""
    import numpy as real_np

    import odc.geo._blocks as blk

    from ..npmodel import FakeBlock, RecArray

    chy = (Int("cy0", 1),)
    chx = (Int("cx0", 1), Int("cx1", 1))
    NY, NX = chy[0], chx[0] + chx[1]
    assume(And(NY <= 2**31 - 1, NX <= 2**31 - 1))
    T = 3
    blocks = {}
    for ix in range(2):
        shape = (T, chy[0], chx[ix])
        blocks[(0, ix)] = real_np.full(shape, ix + 1, dtype="uint8") if symx.concrete_mode() else FakeBlock((0, ix), shape, "uint8")
    ba = blk.BlockAssembler(blocks, (chy, chx), axis=1)
    offx = [0, chx[0], NX]
    y0, y1, x0, x1 = Int("y0"), Int("y1"), Int("x0"), Int("x1")
    assume(And(0 <= y0, y0 < y1, y1 <= NY, 0 <= x0, x0 < x1, x1 <= NX))
    want_t = (0, T)
    squeezed = ()
    if form == "none":
        out = ba.extract()
        y0, y1, x0, x1 = 0, NY, 0, NX
    elif form == "getitem":
        out = ba[y0:y1, x0:x1]
    elif form == "lead_int":
        t = Int("t")
        assume(And(-T <= t, t < T))
        out = ba[t, y0:y1, x0:x1]
        tt = ite(t < 0, t + T, t)
        want_t = (tt, tt + 1)
        squeezed = (0,)
    elif form == "lead_only":
        t0, t1 = Int("t0"), Int("t1")
        assume(And(0 <= t0, t0 < t1, t1 <= T))
        out = ba[t0:t1]
        want_t = (t0, t1)
        y0, y1, x0, x1 = 0, NY, 0, NX
    elif form == "neg":
        k, m = Int("k"), Int("m")
        assume(And(1 <= k, k <= NY, 1 <= m, m < NX))
        out = ba[-k:, :-m]
        y0, y1, x0, x1 = NY - k, NY, 0, NX - m
    elif form == "y_int":
        yi = Int("yi")
        assume(And(-NY <= yi, yi < NY))
        out = ba[yi, x0:x1]
        y0 = ite(yi < 0, yi + NY, yi)
        y1 = y0 + 1
    elif form == "too_many":
        try:
            ba[0:1, 0:1, 0:1, 0:1]
        except IndexError:
            return
        prove("too_many_indices_refused", False)
        return
    elif form == "planes_trail":
        blocks = {}
        for ix in range(2):
            shape = (chy[0], chx[ix], T)
            blocks[(0, ix)] = real_np.full(shape, ix + 1, dtype="uint8") if symx.concrete_mode() else FakeBlock((0, ix), shape, "uint8")
        ba = blk.BlockAssembler(blocks, (chy, chx), axis=0)
        pl = list(ba.planes_yx((slice(y0, y1), slice(x0, x1))))
        prove("planes_count", len(pl) == T)
        for k_, p_ in enumerate(pl):
            prove(f"plane_roi{k_}", And(len(p_) == 3, p_[-1] == k_, p_[0].start == y0, p_[0].stop == y1, p_[1].start == x0, p_[1].stop == x1))
        return
    elif form == "planes":
        pl = list(ba.planes_yx())
        prove("planes_count", len(pl) == T)
        for k_, p_ in enumerate(pl):
            prove(f"plane{k_}", And(p_[0] == k_, p_[1] == slice(None), p_[2] == slice(None), len(p_) == 3))
        pl = list(ba.planes_yx((slice(y0, y1), slice(x0, x1))))
        for k_, p_ in enumerate(pl):
            prove(f"plane_roi{k_}", And(p_[0] == k_, p_[1].start == y0, p_[1].stop == y1, p_[2].start == x0, p_[2].stop == x1))
        return
    py, px = Int("py"), Int("px")
    assume(And(y0 <= py, py < y1, x0 <= px, px < x1))
    full_shape = (want_t[1] - want_t[0], y1 - y0, x1 - x0)
    if symx.concrete_mode():
        want_shape = tuple(int(v) for i_, v in enumerate(full_shape) if i_ not in squeezed)
        prove("out_shape", tuple(out.shape) == want_shape)
        idx = (py - y0, px - x0) if squeezed else (0, py - y0, px - x0)
        prove("pixel", out[idx] == (1 if px < offx[1] else 2))
        return
    prove("recorded", isinstance(out, RecArray))
    prove("out_shape", And(len(out.shape) == 3, *[a == b for a, b in zip(out.shape, full_shape)]))
    prove("squeezed_axes", tuple(out.squeezed or ()) == squeezed)
    wy, wx = py - y0, px - x0
    for d_roi, b, s_roi in out.writes:
        dy, dx = d_roi[1], d_roi[2]
        sy, sx = s_roi[1], s_roi[2]
        ix = b.name[1]
        L = f"w{ix}"
        prove(L + ":same_extent", And(dy.stop - dy.start == sy.stop - sy.start, dx.stop - dx.start == sx.stop - sx.start))
        prove(L + ":dst_in_window", And(0 <= dy.start, dy.stop <= y1 - y0, 0 <= dx.start, dx.stop <= x1 - x0))
        prove(L + ":src_in_block", And(0 <= sy.start, sy.stop <= chy[0], 0 <= sx.start, sx.stop <= chx[ix]))
        cov = And(dy.start <= wy, wy < dy.stop, dx.start <= wx, wx < dx.stop)
        inblock = And(offx[ix] <= px, px < offx[ix + 1])
        prove(L + ":written_iff_in_block", cov == inblock)
        prove(L + ":source_offset", And(sy.start + (wy - dy.start) == py, sx.start + (wx - dx.start) == px - offx[ix]), when=cov)
        prove(L + ":lead_src", And(s_roi[0].start == want_t[0], s_roi[0].stop == want_t[1]))
        prove(L + ":lead_dst_whole", d_roi[0] == slice(None))
    prove("one_write_per_block", len(out.writes) == 2)


def h_blocks_errors():
    """construction refuses blocks whose Y/X shape differs from the chunk table, blocks with
    differing extra dimensions, and blocks with too few dimensions"""
    import odc.geo._blocks as blk

    from ..npmodel import FakeBlock

    cy, cx0, cx1 = Int("cy0", 1), Int("cx0", 1), Int("cx1", 1)
    by, bx = Int("by", 1), Int("bx", 1)
    assume(And(cy <= 2**31 - 1, cx0 + cx1 <= 2**31 - 1, by <= 2**31 - 1, bx <= 2**31 - 1))  # numpy index width
    mk_b = (lambda nm, sh: __import__("numpy").zeros(sh, dtype="uint8")) if symx.concrete_mode() else (lambda nm, sh: FakeBlock(nm, sh, "uint8"))
    blocks = {(0, 0): mk_b((0, 0), (cy, cx0)), (0, 1): mk_b((0, 1), (by, bx))}
    matches = And(by == cy, bx == cx1)
    try:
        ba = blk.BlockAssembler(blocks, ((cy,), (cx0, cx1)))
    except ValueError:
        prove("refused_only_on_mismatch", Not(matches))
    else:
        prove("accepted_only_on_match", matches)
        prove("shape", And(ba.shape[0] == cy, ba.shape[1] == cx0 + cx1))
    # extra dims differ
    blocks = {(0, 0): mk_b((0, 0), (2, cy, cx0)), (0, 1): mk_b((0, 1), (3, cy, cx1))}
    try:
        blk.BlockAssembler(blocks, ((cy,), (cx0, cx1)), axis=1)
    except ValueError:
        pass
    else:
        prove("differing_extra_dims_refused", False)
    try:
        blk.BlockAssembler({(0, 0): mk_b((0, 0), (cy, cx0))}, ((cy,), (cx0,)), axis=1)
    except ValueError:
        return
    prove("too_few_dims_refused", False)


def h_blocks_fill(dtype, fill):
    """dtype/fill resolution on real numpy dtypes (concrete grid; no symbolic inputs needed)"""
    import numpy as real_np

    import odc.geo._blocks as blk

    b = real_np.full((2, 3), 1, dtype=dtype)
    ba = blk.BlockAssembler({(0, 0): b}, ((2, 2), (3,)))
    fv = {"nan": float("nan"), "255": 255, "-1": -1, "none": None}[fill]
    out = ba.extract(fv)
    prove("present_block", bool((out[:2] == 1).all()))
    if fv is None:
        prove("default_fill", bool(real_np.isnan(out[2:]).all()) if real_np.issubdtype(real_np.dtype(dtype), real_np.floating) else bool((out[2:] == 0).all()))
    elif fv != fv:
        prove("nan_fill_upgrades_to_float", real_np.issubdtype(out.dtype, real_np.floating) and bool(real_np.isnan(out[2:]).all()))
    else:
        prove("fill_value", bool((out[2:] == fv).all()))
        prove("fill_representable", out.dtype.kind in "iuf")


GRID_Q = [(1, 1), (3, 7), (16, 2), (256, 256)]
GRID_T = GRID_Q + [(2, 3), (7, 1), (512, 16), (1000, 999)]
T1 = dict(bounds="NY, NX >= 1 unbounded; tile size (ny, nx) from grid incl. tile > image; indices/pixels unbounded", setup=setup)
VAR_Q = [(1, 1), (2, 3), (3, 2)]
VAR_T = VAR_Q + [(4, 1), (1, 4), (4, 4), (3, 3)]


def _g(grid):
    return [dict(ny=a, nx=b) for a, b in grid]


def _v(grid):
    return [dict(ky=a, kx=b) for a, b in grid]


OBLIGATIONS = [
    Ob("T1_count", h_tiles_count, tiered(_g(GRID_Q), _g(GRID_T)), descr="tile count is ceil(N/n) per axis", functions=("odc.geo.roi.Tiles.__init__",), **T1),
    Ob("T1_region", h_tiles_region, tiered(_g(GRID_Q), _g(GRID_T)),
       descr="region(r,c) = [rn, min((r+1)n, N)); tile_shape agrees; negative indices; distinct tiles disjoint; locate(pixel of region) == index",
       functions=("odc.geo.roi.Tiles.__getitem__", "odc.geo.roi.Tiles.tile_shape", "odc.geo.roi.Tiles.locate", "odc.geo.roi.norm_slice_2d"), **T1),
    Ob("T1_locate", h_tiles_locate, tiered(_g(GRID_Q), _g(GRID_T)), descr="every pixel lies in region(locate(pixel))", functions=("odc.geo.roi.Tiles.locate",), **T1),
    Ob("T1_locate_oob", h_tiles_locate_oob, tiered(_g(GRID_Q[:2]), _g(GRID_T)), descr="locate outside the image raises IndexError", functions=("odc.geo.roi.Tiles.locate",), **T1),
    Ob("T1_oob", h_tiles_oob, tiered(_g(GRID_Q[:2]), _g(GRID_T)), descr="tile index outside [-count, count) raises IndexError", functions=("odc.geo.roi.Tiles.__getitem__", "odc.geo.roi.Tiles.tile_shape"), **T1),
    Ob("T1_slice_crop", h_tiles_slice, tiered(_g(GRID_Q), _g(GRID_T)), descr="a slice of tiles gives the hull; crop() is the tiling of the cropped rectangle with re-based indices",
       functions=("odc.geo.roi.Tiles.__getitem__", "odc.geo.roi.Tiles.crop"), **T1),
    Ob("T1_chunks", h_tiles_chunks, tiered(_g(GRID_Q[:3]), _g(GRID_T[:6])), descr="chunks sums to N and agrees with tile_shape (tile counts <= 8 by case split)",
       functions=("odc.geo.roi.Tiles.chunks",), bounds="N <= 8 n", setup=setup),
    Ob("T1_eq", h_tiles_eq, fixed(dict(ny=3, nx=7)), descr="Tiles equality", functions=("odc.geo.roi.Tiles.__eq__",), setup=setup),
    Ob("T2_var_basic", h_var_basic, tiered(_v(VAR_Q), _v(VAR_T)), descr="variable tiles: shape/base/chunks; region = cumulative offsets; tile_shape; locate inverse",
       functions=("odc.geo.roi.VariableSizedTiles",), bounds="chunk sizes >= 1 symbolic, total <= 2^31-1", stubs=("NumpyModel (int32 cumsum, diff, searchsorted)",), setup=setup),
    Ob("T2_var_locate", h_var_locate, tiered(_v(VAR_Q + [(4, 1), (1, 4)]), _v(VAR_T)), descr="every pixel lies in region(locate(pixel)); outside raises", functions=("odc.geo.roi.VariableSizedTiles.locate",), stubs=("NumpyModel",), setup=setup),
    Ob("T2_var_crop", h_var_crop, tiered(_v(VAR_Q), _v(VAR_T)), descr="slice of tiles = hull; crop = tiling of the cropped rectangle", functions=("odc.geo.roi.VariableSizedTiles.crop", "odc.geo.roi.VariableSizedTiles.__getitem__"), stubs=("NumpyModel",), setup=setup),
    Ob("T2_var_oob", h_var_oob, fixed(dict(ky=2, kx=2)), descr="index outside raises IndexError", functions=("odc.geo.roi.VariableSizedTiles.__getitem__",), stubs=("NumpyModel",), setup=setup),
    Ob("T3_clip", h_clip, tiered([dict(kind="regular", nsel=2), dict(kind="var", nsel=2)], [dict(kind=k, nsel=n) for k in ("regular", "var") for n in (1, 2, 3)]),
       descr="clip_tiles: crop = bounding block of the selection, indices re-based, regions agree after shifting by the crop origin",
       functions=("odc.geo.roi.clip_tiles",), bounds="<= 3 selected tile indices symbolic", stubs=("NumpyModel",), setup=setup),
    Ob("T4_geobox_tiles", h_gbt, fixed(dict(kind="regular"), dict(kind="var")), descr="GeoboxTiles[r,c] is the base GeoBox cropped to region(r,c); chunk_shape, pix_bbox, clip consistent",
       functions=("odc.geo.geobox.GeoboxTiles.__getitem__", "odc.geo.geobox.GeoboxTiles.clip", "odc.geo.geobox.GeoBox.__getitem__"),
       bounds="fully symbolic 6-parameter affine (det != 0), symbolic shapes", setup=setup, timeout_ms=20000),
    Ob("T5_blocks", h_blocks,
       tiered([dict(ky=1, kx=1, extra="none", dtype="float32"), dict(ky=1, kx=2, extra="none", dtype="uint8"), dict(ky=2, kx=2, extra="none", dtype="int16"),
               dict(ky=1, kx=2, extra="lead", dtype="float64"), dict(ky=2, kx=1, extra="trail", dtype="uint8")],
              [dict(ky=a, kx=b, extra=e, dtype=d) for (a, b) in ((1, 1), (1, 2), (2, 2), (3, 2)) for e, d in (("none", "float32"), ("lead", "uint8"), ("trail", "int16"))]),
       descr="BlockAssembler.extract: every window pixel is written exactly once from the block covering it at offset (pixel - block origin), or keeps the fill value",
       functions=("odc.geo._blocks.BlockAssembler", "odc.geo.roi.roi_intersect3", "odc.geo.roi.VariableSizedTiles"),
       bounds="chunk sizes symbolic, presence flags symbolic, window and probe pixel symbolic", stubs=("NumpyModel recording full/copyto",), setup=setup, timeout_ms=20000),
    Ob("T5_roi_forms", h_blocks_roi, fixed(*[dict(form=f) for f in ("none", "getitem", "lead_int", "lead_only", "neg", "y_int", "too_many", "planes", "planes_trail")]),
       descr="window given as None / __getitem__ / N-d roi with an integer on the extra axis (squeezed) / leading-axes-only / negative and open bounds / integer row; too many indices refused; planes_yx",
       functions=("odc.geo._blocks.BlockAssembler._norm_roi", "odc.geo._blocks.BlockAssembler.__getitem__", "odc.geo._blocks.BlockAssembler.planes_yx", "odc.geo.roi.roi_normalise"),
       bounds="1x2 blocks with a leading axis of 3; chunk sizes, window, indices and probe pixel symbolic", stubs=("NumpyModel recording full/copyto/squeeze",), setup=setup, timeout_ms=20000),
    Ob("T5_two_requests", h_blocks_two_requests, fixed(dict(dtype="int16"), dict(dtype="float32")), descr="a window handed out by an earlier request is still that window after the next request of the same size",
       functions=("odc.geo._blocks.BlockAssembler.extract", "odc.geo._blocks.BlockAssembler.__getitem__"), bounds="2x2 blocks with symbolic sizes, two windows of one symbolic size at symbolic places", stubs=("NumpyModel (recording full/empty/copyto, whole-array assignment)",), setup=setup),
    Ob("T5_errors", h_blocks_errors, fixed(), descr="BlockAssembler refuses blocks not matching the chunk table (iff), differing extra dims, too few dims",
       functions=("odc.geo._blocks.BlockAssembler._verify_shape",), bounds="chunk sizes and the second block's shape symbolic", setup=setup),
    Ob("T5_fill", h_blocks_fill, fixed(*[dict(dtype=d, fill=f) for d in ("uint8", "int16", "float32", "bool") for f in ("none", "nan", "255", "-1") if not (d == "bool" and f in ("255", "-1", "nan"))]),
       descr="dtype/fill resolution on real numpy (grid; concrete)", functions=("odc.geo._blocks.BlockAssembler.extract", "odc.geo._blocks._find_common_type"), bounds="dtype x fill grid", setup=setup),
]
