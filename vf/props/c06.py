"""C06 -- multi-part assembly preserves the byte stream under any schedule."""
from __future__ import annotations

import itertools
from fractions import Fraction as F

from .. import shims, symx
from ..runner import Ob, fixed, tiered
from ..symx import (And, Bool, Implies, Int, Not, Or, Real, assume, const, ex, ite, prove,
                    m_max, m_min)

EXPLANATION = (
    "The real MPUChunk protocol (gen_bunch, _mpu_append_chunks_op, _merge_and_spill_op, _mpu_collate_op, "
    "_finalizer_dask_op, part-id allocation by the real mpu_write with the dask calls captured) is run on stream-interval "
    "abstractions of byte buffers: every buffer is the interval [lo,hi) of the final stream it denotes, so reordering, "
    "duplication or loss is a failed adjacency test. Chunk sizes, header/footer sizes, min_write_sz and spill_sz are "
    "unbounded symbolic integers; partition layouts, merge trees, sub-streams, header/footer presence and "
    "writes-per-partition are enumerated. An inductive step over arbitrary states satisfying the representation "
    "invariant extends the verdict beyond the partition bound (advisory)."
)
ASSUMPTIONS = [
    "byte contents are irrelevant to the protocol (it only concatenates, slices and measures): buffers are intervals of the output stream (Seg); replay uses real bytes",
    "partitions P <= 3 (thorough: 4), chunks per partition <= 2 (thorough: 3 for P <= 2), all binary merge trees over adjacent partitions, 1-2 sub-streams through collate, header/footer on/off, writes-per-partition in {1,2,3}",
    "the writer's part-number range can hold 1 + P * writes_per_chunk ids (min_part 1 or 5, max_part = min_part + 9999)",
    "dask's own graph execution (which tree it picks, retries) is outside the claim: every tree over adjacent partitions is explored instead",
    "spill_sz >= 0 (0 disables spilling, as mpu_write does); min_write_sz >= 1; chunk sizes >= 0; header/footer sizes >= 1",
]


class Broken(Exception):
    """bytes reordered, duplicated or lost"""


class Seg:
    """A byte string as the contiguous interval [lo, hi) of the one global output stream
    (lo is None for a fresh empty buffer)."""

    def __init__(self, lo=None, hi=None):
        if isinstance(lo, Seg):  # bytearray(seg): copy
            lo, hi = lo.lo, lo.hi
        self.lo, self.hi = lo, hi

    def _len(self):
        return 0 if self.lo is None else self.hi - self.lo

    def __bool__(self):
        return bool(self._len() > 0)

    def __add__(self, o):
        if not isinstance(o, Seg):
            return NotImplemented
        if o.lo is None:
            return Seg(self.lo, self.hi)
        if self.lo is None:
            return Seg(o.lo, o.hi)
        if self._len() == 0:  # forks
            return Seg(o.lo, o.hi)
        if o._len() == 0:
            return Seg(self.lo, self.hi)
        if not (self.hi == o.lo):
            raise Broken("concatenation of non-adjacent stream intervals")
        return Seg(self.lo, o.hi)

    def __iadd__(self, o):
        r = self + o
        if not isinstance(self, BSeg):
            return r  # bytes are immutable: += rebinds
        self.lo, self.hi = r.lo, r.hi
        return self

    def __getitem__(self, s):
        if not isinstance(s, slice) or s.step is not None:
            raise symx.Unsupported("Seg index")
        n = self._len()
        from .c17 import pysel

        lo, cnt = pysel(s.start, s.stop, n)
        if self.lo is None:
            return Seg()
        return Seg(self.lo + lo, self.lo + lo + cnt)

    def __len__(self):
        raise symx.Unsupported("len(Seg) must go through the shim")


class BSeg(Seg):
    """a bytearray (mutable: += grows it in place); the plain Seg is an immutable bytes value"""

    def __add__(self, o):
        r = Seg.__add__(self, o)
        return r if r is NotImplemented else BSeg(r.lo, r.hi)

    def __getitem__(self, s):
        r = Seg.__getitem__(self, s)
        return BSeg(r.lo, r.hi)


def s_len(x):
    if isinstance(x, Seg):
        return x._len()
    return len(x)


def setup():
    if symx.concrete_mode():
        return
    import odc.geo.cog._mpu as mpu

    mpu.len = s_len
    mpu.bytearray = BSeg
    shims.instrument(mpu, names=["min", "max", "isinstance"], scan=False)


class Writer:
    def __init__(self, min_write_sz, min_part=1, max_part=10000):
        self.min_write_sz = min_write_sz
        self.max_write_sz = 5 * (1 << 40)
        self.min_part = min_part
        self.max_part = max_part
        self.calls = []
        self.fin = None
        self.fin_calls = 0

    def __call__(self, part, data):
        if symx.concrete_mode():
            self.calls.append((part, bytes(data)))
        else:
            self.calls.append((part, Seg(data)))
        return {"PartNumber": part, "n": len(self.calls)}

    def finalise(self, parts):
        self.fin = list(parts)
        self.fin_calls += 1
        return "done"

    def __dask_tokenize__(self):
        return ("vf-writer",)


class FakeBag:
    """stands in for a dask bag: only .npartitions is read by mpu_write"""

    def __init__(self, partitions):
        self.partitions = partitions
        self.npartitions = len(partitions)


def all_trees(lo, hi):
    """all binary merge trees over adjacent leaves lo..hi-1"""
    if hi - lo == 1:
        return [lo]
    out = []
    for m in range(lo + 1, hi):
        for l in all_trees(lo, m):
            for r in all_trees(m, hi):
                out.append([l, r])
    return out


def h_scenario(parts, header, footer, wpc, trees, writer=True, spill="sym", min_part=1, buf="bytes", tight=False):
    """parts: per sub-stream, list of chunks-per-partition; trees: per sub-stream merge tree;
    buf: the caller hands its chunks over as bytes or as bytearray objects (which it keeps)"""
    import odc.geo.cog._mpu as mpu

    minw = Int("min_write_sz", 1)
    if spill == "sym":
        spill_sz = Int("spill_sz", 0)
    elif spill == "ge_min":
        spill_sz = Int("spill_sz", 0)
        assume(spill_sz >= minw)
    else:
        spill_sz = int(spill)
    hdr = Int("hdr_sz", 1) if header else 0
    ftr = Int("ftr_sz", 1) if footer else 0
    conc = symx.concrete_mode()

    def mk_data(lo, n, tag, kind="bytes"):
        if conc:
            b = bytes(((tag * 37 + i) % 251) for i in range(n))
            return bytearray(b) if kind == "bytearray" else b
        return BSeg(lo, lo + n) if kind == "bytearray" else Seg(lo, lo + n)

    cur = hdr
    originals = []
    bags = []
    expected_obs = []
    expected_stream = []
    cid = 0
    for si, sub in enumerate(parts):
        plist = []
        for pi, nch in enumerate(sub):
            cc = []
            for k in range(nch):
                sz = Int(f"sz_{si}_{pi}_{k}", 0)
                d = mk_data(cur, sz, cid + 1, buf)
                cc.append((d, ("chunk", cid)))
                expected_obs.append((sz, ("chunk", cid)))
                expected_stream.append(d)
                originals.append((d, bytes(d) if conc else (d.lo, d.hi)))
                cur = cur + sz
                cid += 1
            plist.append(cc)
        bags.append(FakeBag(plist))
    data_end = cur
    total = data_end + ftr
    # tight: a writer with few part numbers (symbolic upper end of its range)
    max_part = Int("max_part", min_part, min_part + 16) if tight else min_part + 9999
    w = Writer(minw, min_part=min_part, max_part=max_part) if writer else None
    seen = {}

    def mk_h(obs, **kw):
        seen["hdr"] = list(obs)
        return mk_data(0, hdr, 0)

    def mk_f(obs, **kw):
        seen["ftr"] = list(obs)
        return mk_data(data_end, ftr, 250)

    # ---- run the real mpu_write with the dask calls captured (eager stand-ins) ----
    tree_of = {id(b): t for b, t in zip(bags, trees)}

    def from_dask_bag(partId, chunks, *, writes_per_chunk=1, mark_final=False, lhs_keep=0, write=None, spill_sz=0, split_every=4):
        leaves = list(mpu.MPUChunk.gen_bunch(partId, chunks.npartitions, writes_per_chunk=writes_per_chunk, mark_final=mark_final, lhs_keep=lhs_keep))
        leaves = [mpu._mpu_append_chunks_op([m], cc, write=write, spill_sz=spill_sz)[0] for m, cc in zip(leaves, chunks.partitions)]

        def fold(t):
            if isinstance(t, int):
                return leaves[t]
            l, r = t
            return mpu._merge_and_spill_op(fold(l), fold(r), write=write, spill_sz=spill_sz)

        return fold(tree_of[id(chunks)])

    def collate_substreams(substreams, *, write=None, spill_sz=0):
        return mpu._mpu_collate_op(substreams, write=write, spill_sz=spill_sz)

    import importlib

    dbase = importlib.import_module("dask.base")
    ddel = importlib.import_module("dask.delayed")  # (the attribute dask.delayed is the function)

    class _Eager:
        def __init__(self, f):
            self.f = f

        def __call__(self, *a, dask_key_name=None, **kw):
            return self.f(*a, **kw)

    saved = (mpu.MPUChunk.from_dask_bag, mpu.MPUChunk.collate_substreams, dbase.tokenize, ddel.delayed)
    mpu.MPUChunk.from_dask_bag = staticmethod(from_dask_bag)
    mpu.MPUChunk.collate_substreams = staticmethod(collate_substreams)
    # the token distinguishes everything it is given (by identity): whatever the task name is
    # derived from, it can only tell two calls apart through what was passed to tokenize
    tok_args = []

    def _tokenize(*a, **k):
        tok_args.append(a)
        return "tok"

    dbase.tokenize = _tokenize
    ddel.delayed = lambda f, name=None, pure=None: _Eager(f)
    failure = None
    rr = None
    try:
        try:
            rr = mpu.mpu_write(
                bags if len(bags) > 1 else bags[0],
                w,
                mk_header=mk_h if header else None,
                mk_footer=mk_f if footer else None,
                writes_per_chunk=wpc,
                spill_sz=spill_sz,
            )
        except (AssertionError, RuntimeError, Broken, IndexError, ValueError, TypeError) as e:
            failure = e
    finally:
        mpu.MPUChunk.from_dask_bag, mpu.MPUChunk.collate_substreams = staticmethod(saved[0]), staticmethod(saved[1])
        dbase.tokenize, ddel.delayed = saved[2], saved[3]

    if tight and writer:
        # every partition owns writes_per_chunk part numbers after the one for the header/left-over
        # part: a writer that has fewer is refused when the graph is built, before anything is written
        need_last = min_part + sum(len(sub) for sub in parts) * wpc
        if bool(max_part < need_last):  # forks
            prove("M3_too_few_part_numbers_refused_before_anything_is_written", isinstance(failure, ValueError) and not w.calls and w.fin_calls == 0)
            return
    if failure is not None:
        prove(f"M1_no_failure[{type(failure).__name__}: {str(failure)[:60]}]", False)
        return
    # the final task is named after a token: the token must depend on the data (the chunk
    # collections or something derived from them), or two writes that differ only in their data
    # share one dask key and one of them is silently served the other's result
    def _from_data(x):
        return isinstance(x, (mpu.MPUChunk, FakeBag)) or (isinstance(x, (list, tuple)) and any(_from_data(y) for y in x))

    prove("M8_task_key_depends_on_the_data", any(_from_data(x) for a in tok_args[-1:] for x in a))
    # the caller keeps its chunk objects (a reused buffer, one bag feeding two writes): they are only read
    if conc:
        prove("M9_callers_chunks_left_as_they_were", all(bytes(d) == o for d, o in originals))
        want = (mk_data(0, hdr, 0) if header else b"") + b"".join(o for _, o in originals) + (mk_data(data_end, ftr, 250) if footer else b"")
    else:
        prove("M9_callers_chunks_left_as_they_were", And(*[And(d.lo == o[0], d.hi == o[1]) for d, o in originals]) if originals else True)

    if not writer:
        # no writer: the root chunk holds the whole stream, nothing was written
        root = rr
        if conc:
            prove("M2_root_holds_stream", bytes(root.left_data) + bytes(root.data) == want and not root.parts)
        else:
            whole = root.left_data + root.data
            prove("M2_root_holds_stream", And(whole._len() == total, Or(total == 0, whole.lo == 0)))
            prove("M2_nothing_written", len(root.parts) == 0)
        return

    calls = sorted(w.calls, key=lambda c: c[0])
    ids = [c[0] for c in calls]
    prove("M3_ids_unique", len(set(ids)) == len(ids))
    prove("M3_ids_in_range", all(w.min_part <= i <= w.max_part for i in ids))
    prove("M5_finalise_called_once", w.fin_calls == 1)
    prove("M5_finalise_gets_written_parts_in_order", [p["PartNumber"] for p in (w.fin or [])] == ids)
    prove("M5_receipts_are_the_writers", sorted(p["n"] for p in (w.fin or [])) == list(range(1, len(w.calls) + 1)))
    if conc:
        got = b"".join(c[1] for c in calls)
        prove("M2_stream_preserved", got == want)
        for idx, (pid, data) in enumerate(calls[:-1]):
            prove(f"M4_min_part_size[{idx}]", len(data) >= minw)
    else:
        pos = 0
        for idx, (pid, seg) in enumerate(calls):
            n = seg._len()
            # M2: parts in increasing id are adjacent intervals from 0 (ids increase along the stream)
            prove(f"M2_part{idx}_adjacent", Or(n == 0, seg.lo == pos) if seg.lo is not None else True)
            pos = pos + n
            if idx < len(calls) - 1:
                prove(f"M4_part{idx}_min_size", n >= minw)
        prove("M2_total_length", pos == total)
    # M6 header/footer callbacks observe the complete ordered list of (size, chunk id)
    for nm in (["hdr"] if header else []) + (["ftr"] if footer else []):
        obs = seen.get(nm)
        prove(f"M6_{nm}_called", obs is not None)
        if obs is not None:
            prove(f"M6_{nm}_count", len(obs) == len(expected_obs))
            ok = [And(o[0] == e[0], o[1] == e[1]) for o, e in zip(obs, expected_obs)]
            prove(f"M6_{nm}_observed", And(*ok) if ok else True)


# ---- inductive step (advisory): Inv preserved by merge+spill ------------------------------------------
def h_induction(rhs_started, lhs_started, lhs_final_is_rhs):
    """two adjacent chunks in arbitrary states satisfying the representation invariant go through
    the real _merge_and_spill_op; the invariant is asserted for the result.  A failure here is
    'induction not established', never a violation (a pre-state is not replayable)."""
    import odc.geo.cog._mpu as mpu

    if symx.concrete_mode():
        return
    minw = Int("min_write_sz", 1)
    spill_sz = Int("spill_sz", 1)
    assume(spill_sz >= minw)
    w = Writer(minw)
    keep = minw

    def mk_chunk(tag, L, started, final):
        """state of a chunk standing for stream interval [L, R) with id range [I0, I1)"""
        I0 = Int(f"{tag}_I0", 2, 5000)
        used = Int(f"{tag}_used", 0, 3)
        cred = Int(f"{tag}_credits", 0, 3)
        nobs = 1
        if started:
            assume(used >= 1)
            a = Int(f"{tag}_leftlen", 0)
            assume(a >= keep)
            wlen = Int(f"{tag}_written", 1)
            assume(wlen >= minw)
            dlen = Int(f"{tag}_datalen", 0)
            if not final:
                assume(And(cred >= 1, dlen >= minw))
            left = Seg(L, L + a)
            parts = [{"PartNumber": I0, "summary": (L + a, L + a + wlen)}]
            data = Seg(L + a + wlen, L + a + wlen + dlen)
            R = L + a + wlen + dlen
            nxt = I0 + used
        else:
            assume(used == 0)
            dlen = Int(f"{tag}_datalen", 0)
            left = Seg()
            parts = []
            data = Seg(L, L + dlen)
            R = L + dlen
            nxt = I0
        c = mpu.MPUChunk(nxt, cred, data, left, parts, [(dlen, tag)], final, keep)
        return c, R, I0, nxt + cred

    L0 = Int("L0", 0)
    lhs, mid, lI0, lI1 = mk_chunk("lhs", L0, lhs_started, False)
    rhs, R, rI0, rI1 = mk_chunk("rhs", mid, rhs_started, lhs_final_is_rhs)
    assume(lI1 <= rI0)  # id ranges of adjacent chunks are ordered
    try:
        mm = mpu._merge_and_spill_op(lhs, rhs, write=w, spill_sz=spill_sz)
    except (AssertionError, RuntimeError, Broken) as e:
        prove(f"step_no_failure[{type(e).__name__}]", False)
        return
    # Inv(mm) for interval [L0, R)
    started = len(mm.parts) > 0
    if not started:
        prove("inv_unstarted_left_empty", mm.left_data._len() == 0)
        prove("inv_unstarted_data_whole", And(mm.data._len() == R - L0, Or(R == L0, mm.data.lo == L0)))
    else:
        prove("inv_left_keeps_lhs_keep", mm.left_data._len() >= keep)
        prove("inv_left_starts_at_L", mm.left_data.lo == L0)
        if not mm.is_final:
            prove("inv_nonfinal_has_credit_and_data", And(mm.write_credits >= 1, mm.data._len() >= minw))
        prove("inv_data_ends_at_R", Or(mm.data._len() == 0, mm.data.hi == R) if mm.data.lo is not None else True)
    for idx, (pid, seg) in enumerate(w.calls):
        prove(f"new_part{idx}_min_size", Or(seg._len() >= minw, mm.is_final))
        prove(f"new_part{idx}_id_in_range", And(pid >= lI0, pid < rI1))


# ---- enumeration of scenario shapes ---------------------------------------------------------------
def shapes(maxP, maxC, wpcs=(1, 2), two_substreams=True):
    out = []
    for P in range(1, maxP + 1):
        for layout in itertools.product(range(1, maxC + 1), repeat=P):
            for tree in all_trees(0, P):
                for header in (True, False):
                    for footer in (True, False):
                        for wpc in wpcs:
                            out.append(dict(parts=[list(layout)], header=header, footer=footer, wpc=wpc, trees=[tree]))
    if two_substreams:
        for P1, P2 in ((1, 1), (2, 1), (1, 2)):
            if P1 + P2 > maxP:
                continue
            for header in (True, False):
                for footer in (True, False):
                    for t1 in all_trees(0, P1):
                        for t2 in all_trees(0, P2):
                            out.append(dict(parts=[[1] * P1, [min(2, maxC)] + [1] * (P2 - 1)], header=header, footer=footer, wpc=1, trees=[t1, t2]))
                            out.append(dict(parts=[[min(2, maxC)] * P1, [1] * P2], header=header, footer=footer, wpc=2, trees=[t1, t2]))
    return out


def _empty_partition_shapes():
    """partitions without any chunk (a dask bag after .filter(), a short last partition): legal,
    and where they fall must not matter"""
    out = []
    for layout in ([0, 1], [1, 0], [0, 0, 1], [1, 0, 0], [0, 1, 0], [0, 2, 0], [0, 0], [0]):
        P = len(layout)
        for tree in all_trees(0, P):
            for header, footer in ((True, True), (False, False), (True, False)):
                out.append(dict(parts=[list(layout)], header=header, footer=footer, wpc=(1 if header else 2), trees=[tree]))
    out.append(dict(parts=[[0], [1]], header=True, footer=True, wpc=1, trees=[0, 0]))
    out.append(dict(parts=[[1], [0, 0]], header=False, footer=True, wpc=2, trees=[0, [0, 1]]))
    return out


def _scn_params(tier, rng):
    if tier == "quick":
        base = shapes(2, 2, (1, 2))
        p3 = shapes(3, 2, (1, 2), two_substreams=True)
        p3 = [s for s in p3 if sum(len(x) for x in s["parts"]) == 3]
        rng.shuffle(p3)
        # fixed P=3 shapes that historically matter + a seeded sample
        fixed3 = [
            dict(parts=[[1, 1, 1]], header=True, footer=False, wpc=2, trees=[[[0, 1], 2]]),
            dict(parts=[[1, 1, 1]], header=True, footer=True, wpc=1, trees=[[0, [1, 2]]]),
            dict(parts=[[2, 1, 2]], header=False, footer=False, wpc=1, trees=[[[0, 1], 2]]),
        ]
        out = base + fixed3 + p3[:6]
        out.append(dict(parts=[[1, 2]], header=True, footer=True, wpc=1, trees=[[0, 1]], writer=False))
        out.append(dict(parts=[[2]], header=True, footer=False, wpc=3, trees=[0]))
        # a writer whose part numbers do not start at 1
        out.append(dict(parts=[[1, 2]], header=True, footer=True, wpc=1, trees=[[0, 1]], min_part=5))
        out.append(dict(parts=[[2], [1]], header=False, footer=False, wpc=2, trees=[0, 0], min_part=5))
        out += _empty_partition_shapes()[::2]
        # sub-streams with different partition counts (the later one shorter): id ranges must not meet
        out.append(dict(parts=[[1, 1], [1]], header=True, footer=True, wpc=1, trees=[[0, 1], 0]))
        out.append(dict(parts=[[2, 1], [1]], header=False, footer=False, wpc=2, trees=[[0, 1], 0]))
        out.append(dict(parts=[[1, 1, 1], [1, 1]], header=False, footer=True, wpc=1, trees=[[[0, 1], 2], [0, 1]]))
        # the caller's chunks are bytearray objects (mutable): nothing may be appended to them
        out.append(dict(parts=[[2, 1]], header=True, footer=False, wpc=1, trees=[[0, 1]], buf="bytearray"))
        out.append(dict(parts=[[2], [2]], header=False, footer=True, wpc=2, trees=[0, 0], buf="bytearray"))
        # writers with few part numbers
        out.append(dict(parts=[[1, 1, 1]], header=True, footer=True, wpc=1, trees=[[[0, 1], 2]], tight=True))
        out.append(dict(parts=[[2], [1, 1]], header=False, footer=False, wpc=2, trees=[0, [0, 1]], tight=True, min_part=5))
        # a short leading sub-stream in front of a longer one, several writes per chunk (right-nested merges)
        for hdr_ in (True, False):
            out.append(dict(parts=[[1], [1, 1]], header=hdr_, footer=False, wpc=2, trees=[0, [0, 1]]))
            out.append(dict(parts=[[1], [2, 1]], header=hdr_, footer=True, wpc=3, trees=[0, [0, 1]]))
        return out
    out = shapes(3, 2, (1, 2, 3)) + _empty_partition_shapes()
    out += [dict(s, spill="0") for s in shapes(2, 2, (1,), two_substreams=False)]
    out += [dict(s, writer=False) for s in shapes(2, 1, (1,), two_substreams=True)]
    out += shapes(2, 3, (1, 2), two_substreams=False)[-40:]
    p4 = [s for s in shapes(4, 1, (1, 2), two_substreams=False) if len(s["parts"][0]) == 4]
    rng.shuffle(p4)
    out += p4[:24]
    out += [dict(s, buf="bytearray") for s in shapes(2, 2, (1, 2))[::3]]
    out += [dict(s, tight=True) for s in shapes(3, 1, (1, 2, 3))[::2]]
    out += [dict(parts=[[1], [c, 1]], header=h_, footer=f_, wpc=w_, trees=[0, [0, 1]]) for c in (1, 2) for h_ in (True, False) for f_ in (True, False) for w_ in (2, 3)]
    return out


OBLIGATIONS = [
    Ob("M_scenarios", h_scenario, _scn_params,
       descr="M1 no failure; M2 parts in id order are adjacent intervals covering header+chunks+footer; M3 ids unique/in range/increasing along the stream; M4 every part but the last >= min_write_sz; M5 finalise gets exactly the written receipts in order; M6 header/footer callbacks observe every (size, id) in order",
       functions=("odc.geo.cog._mpu.mpu_write", "odc.geo.cog._mpu.MPUChunk.gen_bunch", "odc.geo.cog._mpu._mpu_append_chunks_op", "odc.geo.cog._mpu._merge_and_spill_op", "odc.geo.cog._mpu._mpu_collate_op",
                  "odc.geo.cog._mpu._finalizer_dask_op", "odc.geo.cog._mpu.MPUChunk.merge", "odc.geo.cog._mpu.MPUChunk.flush_rhs", "odc.geo.cog._mpu.MPUChunk.flush", "odc.geo.cog._mpu.MPUChunk.maybe_write", "odc.geo.cog._mpu.MPUChunk.append"),
       bounds="chunk sizes >= 0, header/footer sizes >= 1, min_write_sz >= 1, spill_sz >= 0 unbounded symbolic; shapes enumerated (see assumptions)",
       stubs=("Seg stream intervals for bytes/bytearray", "dask.bag / delayed / tokenize captured by eager stand-ins", "recording writer"), setup=setup, timeout_ms=20000, deadline_s=1500),
    Ob("M_induction", h_induction, tiered([], [dict(rhs_started=a, lhs_started=b, lhs_final_is_rhs=c) for a in (False, True) for b in (False, True) for c in (False, True)]),
       descr="(advisory) inductive step: representation invariant preserved by _merge_and_spill_op from arbitrary invariant-satisfying pre-states, assuming spill_sz >= min_write_sz",
       functions=("odc.geo.cog._mpu._merge_and_spill_op",), bounds="arbitrary pre-states; already-written parts as one summary receipt", stubs=("Seg",), setup=setup, timeout_ms=20000),
]
