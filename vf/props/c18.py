"""C18 -- part writers: upload initiated exactly once; sinks honour their contract."""
from __future__ import annotations

import itertools
import time
from fractions import Fraction as F

import z3

from .. import po, shims, symx
from ..runner import Ob, fixed, tiered
from ..symx import (And, Bool, Implies, Int, Not, Or, Real, assume, const, ex, ite, prove,
                    SymBool, m_max, m_min)

EXPLANATION = (
    "Interleavings are SMT variables: the real DelayedS3Writer.__call__ / .finalise are run symbolically per thread "
    "(every read of shared state a fresh symbol, every shared access an event), then for each choice of one path per "
    "thread a z3 query over integer timestamps (program order, reads-from, lock exclusion, fresh-id distinctness) asks "
    "for a schedule with two initiations, a failing writer, or parts under different upload ids. Exhaustive for N = 2, 3 "
    "threads (thread bodies are loop-free), for the in-process (shared object + lock) and the cluster (shared variable + "
    "distributed lock) configurations. Sink limits and MPUFileSink.finalise are decided by symbolic execution on a fake "
    "file system with stream-interval contents."
)
ASSUMPTIONS = [
    "sequential consistency at the granularity of one shared access (CPython attribute load/store, one call on the storage client / variable / lock)",
    "boto client, distributed.Variable / Lock, threading.Lock are event-logging fakes; create_multipart_upload returns a fresh id; Variable.get returns the latest value set (or None)",
    "a finalise call happens after the writes it depends on have finished (dask dependency); it may run on a worker that never wrote",
    "real S3 / distributed failures (timeouts, lost variables) are outside the claim",
    "file sink: pathlib/open/mmap replaced by an in-memory file system whose file contents are stream intervals; parts after the first are non-empty; OS-level failures are outside the claim",
    "limits: keyword limits supplied by the caller are consistent (effective minimum < effective maximum)",
]


# ---- symbolic stand-ins ---------------------------------------------------------------------------------
class SymId:
    """string-like upload id: term 0 <-> ''"""

    def __init__(self, t):
        self.t = t

    def __eq__(self, o):
        if isinstance(o, str):
            return SymBool(z3.simplify(self.t == 0)) if o == "" else False
        if isinstance(o, SymId):
            return SymBool(z3.simplify(self.t == o.t))
        return False

    def __ne__(self, o):
        r = self.__eq__(o)
        return (~r) if isinstance(r, SymBool) else (not r)

    def __bool__(self):
        return symx.ctx().decide(self.t != 0)

    def _len(self):
        return symx.wrap(z3.If(self.t != 0, z3.IntVal(1), z3.IntVal(0)))

    __hash__ = None  # type: ignore[assignment]


def s_len(x):
    return x._len() if isinstance(x, SymId) else len(x)


def _idterm(val):
    if isinstance(val, SymId):
        return val.t
    if isinstance(val, str):
        return z3.IntVal(0 if val == "" else -1)
    if val is None:
        return z3.IntVal(0)
    raise TypeError(val)


class FakeS3:
    def create_multipart_upload(self, **kw):
        v = po.rec().fresh("newid")
        po.rec().add("CREATE", None, v)
        return {"UploadId": SymId(v)}

    def upload_part(self, **kw):
        po.rec().add("PART", None, _idterm(kw["UploadId"]))
        return {"ETag": "e"}

    def complete_multipart_upload(self, **kw):
        po.rec().add("COMPLETE", None, _idterm(kw["UploadId"]))
        return {"ETag": "E"}


FAKE_S3 = FakeS3()


def _dlock_misused(args, kwargs):
    """the call is bound against the signature of the INSTALLED distributed.Lock: handing it a
    client where that release expects its scheduler connection gives a lock that fails on first
    use (AttributeError: 'Client' object has no attribute 'semaphore_register')"""
    sig = _REAL_DLOCK_SIG
    ba = sig.bind(None, *args, **kwargs)  # TypeError for arguments that release does not take, as the real class raises
    return ba.arguments.get("scheduler_rpc") is not None


def _capture_dlock_sig():
    import inspect

    import distributed

    real = getattr(distributed, "_vf_real_Lock", None) or distributed.Lock
    if not isinstance(real, type):
        return inspect.signature(lambda self, name=None, client=None: None)
    distributed._vf_real_Lock = real
    return inspect.signature(real.__init__)


_REAL_DLOCK_SIG = _capture_dlock_sig()


class FakeLock:
    def __init__(self, name="lock", broken=False):
        self.name, self.broken = name, broken

    def __enter__(self):
        if self.broken:
            raise AttributeError("'Client' object has no attribute 'semaphore_register'")
        po.rec().add("ACQ", self.name)
        return self

    def __exit__(self, *a):
        po.rec().add("REL", self.name)
        return False


class FakeVar:
    def __init__(self, name=None, client=None, **k):
        self.name = name  # distributed.Variable has it

    def get(self, timeout=None):
        v = po.rec().fresh("rdv")
        po.rec().add("R", "dvar", v)
        if symx.ctx().decide(v == 0):
            return None
        return SymId(v)

    def set(self, val):
        po.rec().add("W", "dvar", _idterm(val))

    def delete(self):
        po.rec().add("W", "dvar", z3.IntVal(0))


def _mods():
    import odc.geo.cog._s3 as s3m

    return s3m


def _mk_shared_mpu():
    s3m = _mods()

    class SharedMPU(s3m.MultiPartUpload):
        """all threads share this object (in-process use): uploadId is the shared variable"""

        def s3_client(self):
            return FAKE_S3

        @property
        def uploadId(self):
            v = po.rec().fresh("rd")
            po.rec().add("R", "uploadId", v)
            return SymId(v)

        @uploadId.setter
        def uploadId(self, val):
            if po.REC is None:
                return
            po.rec().add("W", "uploadId", _idterm(val))

    class WorkerMPU(s3m.MultiPartUpload):
        """each worker holds its own unpickled copy: uploadId is worker-local"""

        def s3_client(self):
            return FAKE_S3

    return SharedMPU, WorkerMPU


def _install(mode):
    import distributed

    s3m = _mods()
    s3m.len = s_len
    s3m._state["mpu_lock"] = FakeLock("local_lock")
    if mode == "local":
        s3m._dask_client = lambda: None
    else:
        s3m._dask_client = lambda: object()
        distributed.Variable = FakeVar
        distributed.Lock = lambda *a, **k: FakeLock("dlock", broken=_dlock_misused(a, k))


def c_interleave(param, tier):
    """custom obligation: partial-order encoding"""
    t0 = time.time()
    mode, n_writers, with_final = param["mode"], param["writers"], param["finalise"]
    _install(mode)
    s3m = _mods()
    SharedMPU, WorkerMPU = _mk_shared_mpu()
    if mode == "local":
        mpu = SharedMPU("b", "k")
        w = s3m.DelayedS3Writer(mpu, {})
        write_body = lambda: w(1, b"x")  # noqa: E731
        fin_body = lambda: w.finalise([{"PartNumber": 1, "ETag": "e"}])  # noqa: E731
    else:
        def write_body():
            wk = s3m.DelayedS3Writer(WorkerMPU("b", "k"), {})
            wk(1, b"x")

        def fin_body():
            wk = s3m.DelayedS3Writer(WorkerMPU("b", "k"), {})
            wk.finalise([{"PartNumber": 1, "ETag": "e"}])

    if param.get("after_earlier_upload"):
        # state between uploads: the same object (bucket, key) was uploaded before in this process,
        # start to finish; whatever that left behind in the process must not be taken for this upload
        def earlier():
            if mode == "local":
                w0 = s3m.DelayedS3Writer(SharedMPU("b", "k"), {})
            else:
                w0 = s3m.DelayedS3Writer(WorkerMPU("b", "k"), {})
            w0(1, b"x")
            w0.finalise([{"PartNumber": 1, "ETag": "e"}])

        po.thread_paths(earlier)
    wp = po.thread_paths(write_body)
    threads = [wp] * n_writers
    after = []
    if with_final:
        fp = po.thread_paths(fin_body)
        threads = threads + [fp]
        after = [(i, n_writers) for i in range(n_writers)]
    r = po.check_interleavings(threads, initial={"uploadId": 0, "dvar": 0}, after=after)
    viol = []
    for s in r["sat"][:3]:
        viol.append(dict(label=f"interleaving: outcomes={s['outcomes']} creates={s['creates']}", models=[{"schedule": s["schedule"], "combo": s["combo"]}],
                         kind="schedule", schedule=s["schedule"]))
    inconclusive = []
    if r["unknown"]:
        inconclusive.append({"reason": f"solver unknown on {r['unknown']} path combinations"})
    if r["aborted_paths"]:
        inconclusive.append({"reason": f"{r['aborted_paths']} path combinations contain an aborted thread path"})
    sample = dict(path_condition=[str(p)[:120] for p in wp[0].pc], witness={"events_of_path0": [repr(e) for e in wp[0].events]}, atoms_on_path=1)
    return dict(paths=r["combos"], nontrivial_paths=r["combos"] - len(r["sat"]), violations=viol, inconclusive=inconclusive, queries=r["queries"],
                solver_s=r["solver_s"], unsat=r["queries"] - len(r["sat"]) - r["unknown"], sat=len(r["sat"]), unknown=r["unknown"],
                atoms_proved=r["queries"] - len(r["sat"]) - r["unknown"], atoms_trivial=0, wall_s=time.time() - t0, exhausted=True,
                samples=[sample, {"thread_paths": [dict(outcome=p.outcome, events=[repr(e) for e in p.events]) for p in wp]}], unreached=[], known_hits=[])


def replay_interleave(param, model):
    """re-run the schedule with real threads on the un-shimmed classes (in-process configuration)"""
    import threading

    import odc.geo.cog._s3 as s3m

    sched = model.get("schedule")
    if not sched:
        return {"reproduced": False, "note": "no schedule in the model"}
    if param["mode"] != "local":
        return _replay_cluster(param, sched)
    order = [e[0] for e in sched]
    ts = po.Turnstile(order, timeout=3.0)
    tid_of = {}

    def tid():
        return tid_of[threading.current_thread().name]

    calls = {"create": 0, "ids": []}

    class S3:
        def create_multipart_upload(self, **kw):
            def eff():
                calls["create"] += 1
                return {"UploadId": f"upload-{calls['create']}"}

            return ts.step(tid(), eff)

        def upload_part(self, **kw):
            ts.step(tid(), lambda: calls["ids"].append(kw["UploadId"]))
            return {"ETag": "e"}

        def complete_multipart_upload(self, **kw):
            ts.step(tid(), lambda: calls["ids"].append(kw["UploadId"]))
            return {"ETag": "E"}

    s3 = S3()

    class MPU(s3m.MultiPartUpload):
        def s3_client(self):
            return s3

        @property
        def uploadId(self):
            return ts.step(tid(), lambda: self.__dict__.get("_uid", ""))

        @uploadId.setter
        def uploadId(self, v):
            if threading.current_thread().name not in tid_of:
                self.__dict__["_uid"] = v
                return
            ts.step(tid(), lambda: self.__dict__.__setitem__("_uid", v))

    real_lock = threading.Lock()

    class Lk:
        def __enter__(self):
            ts.step(tid(), lambda: real_lock.acquire(timeout=3.0))
            return self

        def __exit__(self, *a):
            ts.step(tid(), real_lock.release)
            return False

    s3m._state["mpu_lock"] = Lk()
    s3m._dask_client = lambda: None
    mpu = MPU("b", "k")
    w = s3m.DelayedS3Writer(mpu, {})
    errors = []

    def body(i, final):
        try:
            if final:
                w.finalise([{"PartNumber": 1, "ETag": "e"}])
            else:
                w(i + 1, b"x")
        except BaseException as e:  # noqa: BLE001
            errors.append(f"{type(e).__name__}: {e}")

    n = param["writers"] + (1 if param["finalise"] else 0)
    ths = []
    for i in range(n):
        t = threading.Thread(target=body, args=(i, param["finalise"] and i == n - 1), name=f"vf-t{i}")
        tid_of[t.name] = i
        ths.append(t)
    for t in ths:
        t.start()
    for t in ths:
        t.join(20)
    bad = bool(errors) or calls["create"] > 1 or len(set(calls["ids"])) > 1
    return {"reproduced": bad, "errors": errors, "creates": calls["create"], "ids": calls["ids"], "diverged": ts.diverged, "model": {"schedule": sched}}


def _replay_cluster(param, sched):
    """cluster configuration: every worker thread holds its own MultiPartUpload copy; they share a
    Variable and a Lock (real objects behind the turnstile)"""
    import threading

    import distributed

    import odc.geo.cog._s3 as s3m

    order = [e[0] for e in sched]
    _ts = po.Turnstile(order, timeout=3.0)

    class _Free:
        """the main thread (an earlier upload, before the scheduled threads start) runs freely"""

        diverged = property(lambda self: _ts.diverged)

        def step(self, t, f):
            return f() if t is None else _ts.step(t, f)

    ts = _Free()
    tid_of = {}

    def tid():
        return tid_of.get(threading.current_thread().name)

    calls = {"create": 0, "ids": []}
    shared = {"v": None}
    real_lock = threading.Lock()

    class S3:
        def create_multipart_upload(self, **kw):
            def eff():
                calls["create"] += 1
                return {"UploadId": f"upload-{calls['create']}"}

            return ts.step(tid(), eff)

        def upload_part(self, **kw):
            ts.step(tid(), lambda: calls["ids"].append(kw["UploadId"]))
            return {"ETag": "e"}

        def complete_multipart_upload(self, **kw):
            ts.step(tid(), lambda: calls["ids"].append(kw["UploadId"]))
            return {"ETag": "E"}

    s3 = S3()

    class MPU(s3m.MultiPartUpload):
        def s3_client(self):
            return s3

    class Var:
        def __init__(self, name=None, client=None, **k):
            self.name = name

        def get(self, timeout=None):
            def eff():
                if shared["v"] is None:
                    raise TimeoutError()
                return shared["v"]

            return ts.step(tid(), eff)

        def set(self, v):
            ts.step(tid(), lambda: shared.__setitem__("v", v))

        def delete(self):
            ts.step(tid(), lambda: shared.__setitem__("v", None))

    class DL:
        def __init__(self, *a, **k):
            self.broken = _dlock_misused(a, k)

        def __enter__(self):
            if self.broken:
                raise AttributeError("'Client' object has no attribute 'semaphore_register'")
            ts.step(tid(), lambda: real_lock.acquire(timeout=3.0))
            return self

        def __exit__(self, *a):
            ts.step(tid(), real_lock.release)
            return False

    distributed.Variable = Var
    distributed.Lock = DL
    s3m._dask_client = lambda: object()
    earlier_ids, creates_before = set(), 0
    if param.get("after_earlier_upload"):
        w0 = s3m.DelayedS3Writer(MPU("b", "k"), {})
        w0(1, b"x")
        w0.finalise([{"PartNumber": 1, "ETag": "e"}])
        earlier_ids, creates_before = set(calls["ids"]), calls["create"]
        del calls["ids"][:]
    errors = []

    def body(i, final):
        try:
            wk = s3m.DelayedS3Writer(MPU("b", "k"), {})
            if final:
                wk.finalise([{"PartNumber": 1, "ETag": "e"}])
            else:
                wk(i + 1, b"x")
        except BaseException as e:  # noqa: BLE001
            errors.append(f"{type(e).__name__}: {e}")

    n = param["writers"] + (1 if param["finalise"] else 0)
    ths = []
    for i in range(n):
        t = threading.Thread(target=body, args=(i, param["finalise"] and i == n - 1), name=f"vf-t{i}")
        tid_of[t.name] = i
        ths.append(t)
    for t in ths:
        t.start()
    for t in ths:
        t.join(20)
    new_ids = set(calls["ids"])
    bad = bool(errors) or (calls["create"] - creates_before) > 1 or len(new_ids) > 1 or bool(new_ids & earlier_ids) or (bool(new_ids) and calls["create"] == creates_before)
    return {"reproduced": bad, "errors": errors, "creates": calls["create"], "ids": calls["ids"], "diverged": ts.diverged, "model": {"schedule": sched}}


# ---- W3/W4: limits ---------------------------------------------------------------------------------------
def setup_fs():
    if symx.concrete_mode():
        return
    import odc.geo.cog._mpu_fs as fsm

    shims.instrument(fsm, names=["isinstance"], scan=False)


def h_limits():
    from odc.geo.cog._mpu_fs import MPUFileSink

    defaults = {"min_write_sz": 4096, "max_write_sz": 5 * (1 << 30), "min_part": 1, "max_part": 10_000}
    kw = {}
    eff = {}
    for k, dv in defaults.items():
        present = Bool(f"has_{k}")
        v = Int(k, 0)
        if present:  # forks
            kw[k] = v
            eff[k] = v
        else:
            eff[k] = dv
    consistent = And(eff["min_write_sz"] < eff["max_write_sz"], eff["min_part"] < eff["max_part"])
    try:
        sink = MPUFileSink("/tmp/vf-dst.bin", **kw)
    except ValueError:
        # a contradictory configuration may be refused -- never a consistent one
        prove("only_contradictory_limits_are_refused", Not(consistent))
        return
    for k in defaults:
        prove(f"{k}_is_configured_or_default", getattr(sink, k) == eff[k])
    prove("max_write_above_min", sink.max_write_sz > sink.min_write_sz)
    prove("max_part_above_min", sink.max_part > sink.min_part)


def h_s3_limits():
    from odc.geo.cog._s3 import DelayedS3Writer, MultiPartUpload, S3Limits

    for obj in (S3Limits(), MultiPartUpload("b", "k"), DelayedS3Writer(MultiPartUpload("b", "k"), {})):
        prove(f"{type(obj).__name__}:write_sz", 0 < obj.min_write_sz < obj.max_write_sz)
        prove(f"{type(obj).__name__}:parts", 1 <= obj.min_part < obj.max_part)
        prove(f"{type(obj).__name__}:s3_values", obj.min_write_sz == 5 * (1 << 20) and obj.max_part == 10_000)


# ---- W5: file sink finalise on a fake file system ------------------------------------------------------------
class FakeFS:
    def __init__(self):
        self.files = {}
        self.dirs = {"/", "/out", "/scratch"}
        self.log = []
        self.two_devices = False  # /scratch on another file system than /out


class FPath:
    fs: FakeFS = None  # type: ignore[assignment]

    def __init__(self, p):
        p = str(p)
        self.p = p if p == "/" else p.rstrip("/")

    def __truediv__(self, o):
        return FPath(self.p.rstrip("/") + "/" + str(o))

    def __str__(self):
        return self.p

    __fspath__ = __str__

    def __repr__(self):
        return f"FPath({self.p})"

    def __eq__(self, o):
        return isinstance(o, FPath) and o.p == self.p

    def __hash__(self):
        return hash(self.p)

    @property
    def parent(self):
        i = self.p.rfind("/")
        return FPath(self.p[:i] or "/")

    @property
    def name(self):
        return self.p[self.p.rfind("/") + 1 :]

    def absolute(self):
        return self  # every path of the fake file system is absolute

    resolve = absolute

    def exists(self):
        return self.p in self.fs.files or self.p in self.fs.dirs

    def mkdir(self, parents=False, exist_ok=False):
        if self.p in self.fs.dirs:
            if exist_ok:
                return
            raise FileExistsError(self.p)
        if not parents and self.parent.p not in self.fs.dirs:
            raise FileNotFoundError(self.p)
        q = self
        while q.p not in self.fs.dirs:
            self.fs.dirs.add(q.p)
            q = q.parent

    def _dev(self):
        return 2 if (self.p + "/").startswith("/scratch/") and self.fs.two_devices else 1

    def rename(self, dst):
        dst = FPath(dst)
        if self.p not in self.fs.files:
            raise FileNotFoundError(self.p)
        if dst.parent.p not in self.fs.dirs:
            raise FileNotFoundError(dst.p)
        if self._dev() != dst._dev():
            raise OSError(18, "Invalid cross-device link", self.p)
        self.fs.files[dst.p] = self.fs.files.pop(self.p)
        return dst

    def open(self, mode="r"):
        return FFile(self.fs, self.p, mode)

    def unlink(self):
        if self.p not in self.fs.files:
            raise FileNotFoundError(self.p)
        del self.fs.files[self.p]

    def rmdir(self):
        if self.p not in self.fs.dirs:
            raise FileNotFoundError(self.p)
        if any(f.startswith(self.p + "/") for f in self.fs.files) or any(d.startswith(self.p + "/") for d in self.fs.dirs):
            raise OSError("Directory not empty: " + self.p)
        self.fs.dirs.discard(self.p)


class FFile:
    def __init__(self, fs, p, mode):
        from .c06 import Seg

        self.fs, self.p, self.mode = fs, str(p), mode
        if "w" in mode or ("a" in mode and self.p not in fs.files):
            if FPath(self.p).parent.p not in fs.dirs:
                raise FileNotFoundError(self.p)
            fs.files[self.p] = Seg()
        elif self.p not in fs.files:
            raise FileNotFoundError(self.p)

    def __enter__(self):
        return self

    def __exit__(self, *a):
        return False

    def write(self, data):
        from .c06 import Seg, s_len

        if isinstance(data, FMmap):
            data = data.seg
        self.fs.files[self.p] = self.fs.files[self.p] + Seg(data)
        return s_len(data)

    def fileno(self):
        return self


class FMmap:
    ACCESS_READ = 1

    def __init__(self, f, length, access=None):
        from .c06 import s_len

        self.seg = f.fs.files[f.p]
        if bool(s_len(self.seg) == 0):
            raise ValueError("cannot mmap an empty file")

    def __enter__(self):
        return self

    def __exit__(self, *a):
        return False


class _MmapMod:
    ACCESS_READ = 1
    mmap = FMmap


class _ShutilMod:
    """shutil on the fake file system: move() works across devices (copy + delete)"""

    @staticmethod
    def move(src, dst):
        src, dst = FPath(src), FPath(dst)
        fs = FPath.fs
        if src.p not in fs.files:
            raise FileNotFoundError(src.p)
        if dst.parent.p not in fs.dirs:
            raise FileNotFoundError(dst.p)
        fs.files[dst.p] = fs.files.pop(src.p)
        return dst

    @staticmethod
    def copyfileobj(src, dst, length=0):
        dst.write(src.fs.files[src.p])


class _StatResult:
    def __init__(self, size):
        self.st_size = size


def _fpath_stat(self):
    from .c06 import s_len

    if self.p not in self.fs.files:
        raise FileNotFoundError(self.p)
    return _StatResult(s_len(self.fs.files[self.p]))


FPath.stat = _fpath_stat


class _OsPath:
    @staticmethod
    def getsize(p):
        return FPath(p).stat().st_size

    @staticmethod
    def exists(p):
        return FPath(p).exists()

    @staticmethod
    def isfile(p):
        return str(p) in FPath.fs.files

    @staticmethod
    def isdir(p):
        return str(FPath(p)) in FPath.fs.dirs

    @staticmethod
    def join(a, *b):
        q = FPath(a)
        for x in b:
            q = q / x
        return str(q)


class _OsMod:
    path = _OsPath

    @staticmethod
    def remove(p):
        FPath(p).unlink()

    unlink = remove

    @staticmethod
    def rmdir(p):
        FPath(p).rmdir()

    @staticmethod
    def replace(a, b):
        FPath(a).rename(b)

    rename = replace


def setup_sink():
    if symx.concrete_mode():
        return
    import odc.geo.cog._mpu_fs as fsm

    from .c06 import s_len

    fsm.Path = FPath
    fsm.open = lambda p, mode="r": FFile(FPath.fs, p, mode)
    fsm.mmap = _MmapMod
    fsm.shutil = _ShutilMod
    fsm.os = _OsMod  # os.path.getsize / exists / isfile on the fake file system, should the module use them
    fsm.len = lambda x: s_len(x.seg) if isinstance(x, FMmap) else s_len(x)
    shims.instrument(fsm, names=["isinstance"], scan=False)


def h_sink_finalise(nparts, parts_base, keep_parts):
    """parts written through the real sink in a symbolic id order, then finalise(parts as given)"""
    import odc.geo.cog._mpu_fs as fsm

    from .c06 import Seg

    conc = symx.concrete_mode()
    sizes = [Int(f"size{k}", 0) for k in range(nparts)]  # empty parts included
    # ids: an arbitrary injective assignment (the order GIVEN to finalise is what counts)
    ids = [Int(f"id{k}", 1, 9999) for k in range(nparts)]
    for a, b in itertools.combinations(ids, 2):
        assume(a != b)
    if conc:
        import os
        import shutil
        import tempfile

        root = tempfile.mkdtemp(prefix="vf-sink-")
        scratch = root + "/scratch"
        other_fs = None
        if parts_base and Bool("parts_dir_on_another_file_system"):
            # a second real file system, when the machine has one that is writable
            if os.path.isdir("/dev/shm") and os.access("/dev/shm", os.W_OK) and os.stat("/dev/shm").st_dev != os.stat(root).st_dev:
                other_fs = tempfile.mkdtemp(prefix="vf-sink-", dir="/dev/shm")
                scratch = other_fs
        try:
            os.makedirs(root + "/out")
            os.makedirs(scratch, exist_ok=True)
            dst = root + "/out/result.tif"
            sink = fsm.MPUFileSink(dst, parts_base=scratch if parts_base else None)
            if Bool("destination_exists_before"):
                with open(dst, "wb") as f_:
                    f_.write(b"\xff" * Int("stale_size", 0))
            blobs = [bytes(((k + 1) * 41 + i) % 251 for i in range(sizes[k])) for k in range(nparts)]
            receipts = [sink(ids[k], blobs[k]) for k in range(nparts)]
            out = sink.finalise(receipts, keep_parts=keep_parts)
            prove("destination_is_concatenation_in_given_order", open(dst, "rb").read() == b"".join(blobs))
            pdir = str(sink._parts_dir)
            prove("parts_dir_is_under_the_requested_base", os.path.dirname(pdir) == (scratch if parts_base else root + "/out"))
            if keep_parts:
                prove("parts_kept", os.path.isdir(pdir))
            else:
                prove("parts_removed", not os.path.exists(pdir))
            prove("returns_destination", str(out) == dst)
        finally:
            shutil.rmtree(root, ignore_errors=True)
            if other_fs:
                shutil.rmtree(other_fs, ignore_errors=True)
        return
    fs = FakeFS()
    fs.two_devices = bool(parts_base) and bool(Bool("parts_dir_on_another_file_system"))  # forks
    FPath.fs = fs
    dst = "/out/result.tif"
    sink = fsm.MPUFileSink(dst, parts_base="/scratch" if parts_base else None)
    if bool(Bool("destination_exists_before")):  # forks: a stale file from an earlier export
        fs.files[dst] = Seg(10**9, 10**9 + Int("stale_size", 0))
    pos = 0
    receipts = []
    segs = []
    for k in range(nparts):
        seg = Seg(pos, pos + sizes[k])
        segs.append(seg)
        pos = pos + sizes[k]
        # part file names are formatted from the id: the id is concretised by case split on a
        # bounded range inside the sink (f-string) -- give the sink a concrete name instead
        receipts.append(_sink_write(sink, ids[k], seg, k))
    out = sink.finalise(receipts, keep_parts=keep_parts)
    got = fs.files.get(dst)
    prove("destination_exists", got is not None)
    if got is not None:
        prove("destination_is_concatenation_in_given_order", And(got._len() == pos, Or(pos == 0, got.lo == 0) if got.lo is not None else pos == 0))
    pdir = str(sink._parts_dir)
    prove("parts_dir_is_under_the_requested_base", pdir.rsplit("/", 1)[0] == ("/scratch" if parts_base else "/out"))
    leftovers = [f for f in fs.files if f.startswith(pdir + "/")]
    if keep_parts:
        prove("parts_dir_kept", pdir in fs.dirs)
    else:
        prove("temporary_parts_removed", leftovers == [])
        prove("parts_dir_removed", pdir not in fs.dirs)
    prove("returns_destination", str(out) == dst)
    prove("nothing_else_left_in_out", sorted(f for f in fs.files if f.startswith("/out/") and not f.startswith(pdir + "/")) == [dst])


def h_two_sinks(same_name):
    """two exports in flight that share a parts directory (parts_base=) -- to destinations with the
    same file name in different directories, or with different names: each sink's finalisation
    still produces the concatenation of ITS parts"""
    import odc.geo.cog._mpu_fs as fsm

    from .c06 import Seg

    if symx.concrete_mode():
        import os
        import shutil
        import tempfile

        root = tempfile.mkdtemp(prefix="vf-sink2-")
        try:
            for d in ("a", "b", "scratch"):
                os.makedirs(f"{root}/{d}")
            d1, d2 = f"{root}/a/cog.tif", (f"{root}/b/cog.tif" if same_name else f"{root}/b/other.tif")
            s1, s2 = fsm.MPUFileSink(d1, parts_base=f"{root}/scratch"), fsm.MPUFileSink(d2, parts_base=f"{root}/scratch")
            A, B = b"A" * int(Int("size_a", 1, 64)), b"B" * int(Int("size_b", 1, 64))
            r1 = s1(1, A)
            r2 = s2(1, B)
            ok1 = ok2 = False
            try:
                s1.finalise([r1])
                ok1 = open(d1, "rb").read() == A
                s2.finalise([r2])
                ok2 = open(d2, "rb").read() == B
            except OSError:
                pass
            prove("first_sink_gets_its_own_parts", ok1)
            prove("second_sink_gets_its_own_parts", ok2)
        finally:
            shutil.rmtree(root, ignore_errors=True)
        return
    fs = FakeFS()
    fs.dirs |= {"/out/a", "/out/b"}
    FPath.fs = fs
    d1, d2 = "/out/a/cog.tif", ("/out/b/cog.tif" if same_name else "/out/b/other.tif")
    s1, s2 = fsm.MPUFileSink(d1, parts_base="/scratch"), fsm.MPUFileSink(d2, parts_base="/scratch")
    na, nb = Int("size_a", 1, 64), Int("size_b", 1, 64)
    segA, segB = Seg(0, na), Seg(1000, 1000 + nb)
    r1 = fsm.MPUFileSink.__call__(s1, 1, segA)
    r2 = fsm.MPUFileSink.__call__(s2, 1, segB)
    failed = None
    try:
        s1.finalise([r1])
        got1 = fs.files.get(d1)
        s2.finalise([r2])
        got2 = fs.files.get(d2)
    except (OSError, FileNotFoundError) as e:
        failed = e
        got1, got2 = fs.files.get(d1), fs.files.get(d2)
    prove("first_sink_gets_its_own_parts", got1 is not None and bool(And(got1.lo == 0, got1.hi == na)))
    prove("second_sink_gets_its_own_parts", failed is None and got2 is not None and bool(And(got2.lo == 1000, got2.hi == 1000 + nb)))


def _sink_write(sink, part_id, seg, k):
    """the real MPUFileSink.__call__ formats the file name from the part id (f'p{part:04d}.bin'):
    with a symbolic id the name is made distinct per part by the harness (ids are pairwise
    distinct by assumption), everything else is the real method"""
    import odc.geo.cog._mpu_fs as fsm

    orig = sink._ensure_dst_file

    def ensure(part):
        p = orig(0)
        return p.parent / f"p{k:04d}-sym.bin"

    sink._ensure_dst_file = ensure
    try:
        return fsm.MPUFileSink.__call__(sink, part_id, seg)
    finally:
        sink._ensure_dst_file = orig


def _inter_params(tier, rng):
    out = []
    for mode in ("local", "cluster"):
        out += [dict(mode=mode, writers=2, finalise=False), dict(mode=mode, writers=3, finalise=False), dict(mode=mode, writers=2, finalise=True)]
        out.append(dict(mode=mode, writers=2, finalise=False, after_earlier_upload=True))
        if tier == "thorough":
            out += [dict(mode=mode, writers=1, finalise=True), dict(mode=mode, writers=3, finalise=True), dict(mode=mode, writers=4, finalise=False)]
    return out


OBLIGATIONS = [
    Ob("W1_W2_initiated_once", None, _inter_params, custom=c_interleave, custom_replay=replay_interleave,
       descr="all interleavings of 2-3 concurrent first writes (+ a finalise): exactly one create_multipart_upload, every part / the completion under that one id, no writer fails",
       functions=("odc.geo.cog._s3.DelayedS3Writer.__call__", "odc.geo.cog._s3.DelayedS3Writer.finalise", "odc.geo.cog._s3.DelayedS3Writer._ensure_init", "odc.geo.cog._s3.MultiPartUpload.initiate",
                  "odc.geo.cog._s3.MultiPartUpload.write_part", "odc.geo.cog._s3.MultiPartUpload.finalise", "odc.geo.cog._s3.MultiPartUpload.started"),
       bounds="N = 2, 3 writer threads (thorough: 4) + optional finaliser; in-process and cluster configurations; exhaustive over interleavings at shared accesses",
       stubs=("event-logging fake S3 client / lock / distributed.Variable / Lock", "uploadId as a logging property (shared) or a plain worker-local attribute (cluster)")),
    Ob("W3_sink_limits", h_limits, fixed(), descr="MPUFileSink reports each limit as configured (or its default); each maximum above the corresponding minimum",
       functions=("odc.geo.cog._mpu_fs.MPUFileSink.min_write_sz", "odc.geo.cog._mpu_fs.MPUFileSink.max_write_sz", "odc.geo.cog._mpu_fs.MPUFileSink.min_part", "odc.geo.cog._mpu_fs.MPUFileSink.max_part"),
       bounds="each of the four keyword limits present or absent (symbolic flag) with symbolic values", setup=setup_fs),
    Ob("W4_s3_limits", h_s3_limits, fixed(), descr="S3 writers report the S3 limits, max above min", functions=("odc.geo.cog._s3.S3Limits",)),
    Ob("W6_two_sinks_one_parts_base", h_two_sinks, fixed(dict(same_name=True), dict(same_name=False)),
       descr="two file sinks in flight that share parts_base= (destinations with the same file name in different directories, or different names): each finalisation yields the concatenation of its own parts",
       functions=("odc.geo.cog._mpu_fs.MPUFileSink.__init__", "odc.geo.cog._mpu_fs.MPUFileSink.__call__", "odc.geo.cog._mpu_fs.MPUFileSink.finalise"),
       bounds="one part each of symbolic size; writes of both sinks before either finalisation", stubs=("in-memory file system (Path/open/mmap) with stream-interval contents",), setup=setup_sink),
    Ob("W5_sink_finalise", h_sink_finalise, tiered([dict(nparts=n, parts_base=b, keep_parts=k) for n, b, k in ((1, False, False), (2, False, False), (3, True, False), (2, True, True))],
                                                   [dict(nparts=n, parts_base=b, keep_parts=k) for n in (1, 2, 3, 4) for b in (False, True) for k in (False, True)]),
       descr="MPUFileSink.finalise: destination == concatenation of the parts in the order given; temporary parts and their directory removed (unless keep_parts)",
       functions=("odc.geo.cog._mpu_fs.MPUFileSink.__call__", "odc.geo.cog._mpu_fs.MPUFileSink.finalise", "odc.geo.cog._mpu_fs.MPUFileSink._ensure_dst_file"),
       bounds="1-3 parts (thorough 4) of symbolic size in a symbolic id order; parts directory inside or outside the destination's directory; keep_parts on/off",
       stubs=("in-memory file system (Path/open/mmap) with stream-interval contents",), setup=setup_sink),
]
