"""C03 -- reprojection planning never drops a needed pixel (same-CRS grids)."""
from __future__ import annotations

from fractions import Fraction as F

from .. import shims, symx
from ..runner import Ob, fixed, tiered
from ..symx import (And, Bool, Implies, Int, Not, Or, Real, assume, const, ex, ite, prove,
                    rconst, m_max, m_min)

EXPLANATION = (
    "compute_axis_overlap / box_overlap / _pick_read_scale and the whole compute_reproject_roi (paste path and padded "
    "sampled path through the numpy model) executed for same-CRS GeoBox pairs: source pixel size fixed, destination "
    "pixel = grid scale x source (per axis, optional mirroring, rational rotation), both origins, all four image sizes, "
    "the probed destination pixel and the padding symbolic."
)
ASSUMPTIONS = [
    "floats as exact reals; scales from a finite grid (they multiply sizes under floor/ceil); translations, sizes, probe pixel, padding symbolic and unbounded",
    "image sides <= 2^31-1 wherever the sampled path casts to integers (GDAL's own limit)",
    "different CRSs: the planning runs through the real GbxPointTransform with only the pyproj transformer standing in (R8: coordinates coincide, geographic input outside +-180/+-90 has no image) or through a non-linear wrapper of the pair's affine (R7); curved transforms are PROJ's and outside the claim",
    "roi_src may extend to the next multiple of read_shrink beyond the source image (the statement allows it)",
    "zero-area claim for separated rasters: separation beyond padding + alignment + 1 source pixels",
    "roi_boundary's float32 rounding of boundary points is outside the real model",
]


def setup():
    shims.install_core()


def preflight():
    from .. import npmodel

    npmodel.selfcheck()


def ovm():
    import odc.geo.overlap as ov

    return ov


# ---- R1 -----------------------------------------------------------------------------------------
def h_axis(s):
    ov = ovm()
    Ns, Nd = Int("Ns", 0), Int("Nd", 0)
    t = Real("t")
    sc = rconst(F(s))
    src, dst = ov.compute_axis_overlap(Ns, Nd, sc, t)
    prove("src_within", And(0 <= src.start, src.stop <= Ns))
    prove("dst_within", And(0 <= dst.start, dst.stop <= Nd))
    d = Int("d")
    assume(And(0 <= d, d < Nd))
    x = F(s) * (d + F(1, 2)) + ex(t)
    inside = And(x >= 0, x < Ns)
    fx = symx.s_floor(x)
    prove("needed_dst_pixel_kept", And(dst.start <= d, d < dst.stop), when=inside)
    prove("needed_src_pixel_kept", And(src.start <= fx, fx < src.stop), when=inside)


def h_box_overlap(sx, sy):
    from affine import Affine

    ov = ovm()
    Nsy, Nsx, Ndy, Ndx = Int("Nsy", 0), Int("Nsx", 0), Int("Ndy", 0), Int("Ndx", 0)
    tx, ty_ = Real("tx"), Real("ty")
    A = Affine(rconst(F(sx)), 0.0, tx, 0.0, rconst(F(sy)), ty_)
    (s0, s1), (d0, d1) = ov.box_overlap((Nsy, Nsx), (Ndy, Ndx), A)
    rs, rd = ov.compute_axis_overlap(Nsy, Ndy, rconst(F(sy)), ty_)
    cs, cd = ov.compute_axis_overlap(Nsx, Ndx, rconst(F(sx)), tx)
    prove("rows_use_y", And(s0.start == rs.start, s0.stop == rs.stop, d0.start == rd.start, d0.stop == rd.stop))
    prove("cols_use_x", And(s1.start == cs.start, s1.stop == cs.stop, d1.start == cd.start, d1.stop == cd.stop))


# ---- R3 -----------------------------------------------------------------------------------------
def h_pick_read_scale():
    ov = ovm()
    s = Real("s")
    assume(s > 0)
    tol = F(1e-3)
    k = ov._pick_read_scale(s)
    prove("integer_ge_1", k >= 1)
    prove("one_below_one", k == 1, when=ex(s) < 1)
    prove("not_too_small", k > ex(s) - 1)
    prove("exceeds_by_at_most_tol", k <= ex(s) + tol, when=ex(s) >= 1)
    prove("is_int", isinstance(k, (int, symx.SymInt)))


# ---- R4 .. R6: whole compute_reproject_roi ---------------------------------------------------------
PIN_CLASSES = {"aligned": "0", "shifted": "-3", "subpixel": "1/4", "near": "40001/20000"}


def mk_pair(kx, ky, mx, my, rot=None, bound=False, pin="none"):
    """src: pixel (10,-10) at symbolic origin; dst pixel = (kx, ky) x src, mirrored per (mx,my),
    optionally rotated by a rational rotation; dst origin = src pixel (tx, ty) (symbolic reals)."""
    from affine import Affine

    import odc.geo.geobox as gbx

    hi = 2**31 - 1 if bound else None
    # per-axis factoring (quick tier): one axis fully symbolic, the other pinned to a value class
    # (aligned / whole-pixel shift / sub-pixel shift / inside the paste tolerance) with fixed sizes
    pax, pcls = (pin.split(":") + [""])[:2] if pin != "none" else ("", "")
    if pax == "y":
        Nsy, Ndy, ty_ = 5, 7, rconst(F(PIN_CLASSES[pcls]))
    else:
        Nsy, Ndy, ty_ = Int("Nsy", 1, hi), Int("Ndy", 1, hi), Real("ty")
    if pax == "x":
        Nsx, Ndx, tx = 5, 7, rconst(F(PIN_CLASSES[pcls]))
    else:
        Nsx, Ndx, tx = Int("Nsx", 1, hi), Int("Ndx", 1, hi), Real("tx")
    if pax == "sizes":
        Nsy, Nsx, Ndy, Ndx = 50, 60, 40, 30
    ox, oy = Real("ox"), Real("oy")
    src = gbx.GeoBox((Nsy, Nsx), Affine(rconst(10), 0.0, ox, 0.0, rconst(-10), oy), "epsg:3857")
    kx, ky = F(kx), F(ky)
    # dst pixel (u,v) -> src pixel: [sx] = L [u] + [tx];  L = diag(mx kx, my ky) (. rotation)
    if rot is None:
        L = ((mx * kx, F(0)), (F(0), my * ky))
    else:
        c, s = F(rot[0]), F(rot[1])
        L = ((mx * kx * c, -my * ky * s), (mx * kx * s, my * ky * c))
    # world = src.affine * (L u + t)
    a = 10 * L[0][0]
    b = 10 * L[0][1]
    d = -10 * L[1][0]
    e = -10 * L[1][1]
    cx = ox + 10 * tx
    fy = oy - 10 * ty_
    dst = gbx.GeoBox((Ndy, Ndx), Affine(rconst(a), rconst(b) if b else 0.0, cx, rconst(d) if d else 0.0, rconst(e), fy), "epsg:3857")
    return src, dst, L, (ex(tx), ex(ty_)), (Nsy, Nsx, Ndy, Ndx)


def src_of(L, t, u, v):
    return L[0][0] * u + L[0][1] * v + t[0], L[1][0] * u + L[1][1] * v + t[1]


def _opts(padmode, align):
    kw = {}
    pad = None
    if padmode == "none":
        pass
    elif padmode == "sym":
        pad = Int("padding", 0, 64)
        kw["padding"] = pad
    else:
        pad = int(padmode)
        kw["padding"] = pad
    if align == "zero":
        kw["align"] = 0  # an explicit 0: "no alignment", which the planner itself equates with None
    elif align:
        kw["align"] = align
    return kw, pad


def _rs(rr):
    k = rr.read_shrink
    return k.__index__() if isinstance(k, symx.Sym) else int(k)


def h_reproject(kx, ky, mx, my, padmode, align, rot=None, pin="none"):
    ov = ovm()
    from odc.geo.math import align_up

    src, dst, L, t, (Nsy, Nsx, Ndy, Ndx) = mk_pair(kx, ky, mx, my, rot, bound=True, pin=pin)
    kw, pad = _opts(padmode, align)
    rr = ov.compute_reproject_roi(src, dst, **kw)
    (sy_, sx_), (dy_, dx_) = rr.roi_src, rr.roi_dst
    k = _rs(rr)
    prove("roi_dst_within", And(0 <= dx_.start, dx_.stop <= Ndx, 0 <= dy_.start, dy_.stop <= Ndy))
    prove("roi_src_within_x", And(0 <= sx_.start, sx_.stop <= ((Nsx + k - 1) // k) * k))
    prove("roi_src_within_y", And(0 <= sy_.start, sy_.stop <= ((Nsy + k - 1) // k) * k))
    # a destination pixel whose centre maps inside the source
    u, v = Int("u"), Int("v")
    assume(And(0 <= u, u < Ndx, 0 <= v, v < Ndy))
    sx, sy = src_of(L, t, u + F(1, 2), v + F(1, 2))
    inside = And(sx >= 0, sx < Nsx, sy >= 0, sy < Nsy)
    fx, fy = symx.s_floor(sx), symx.s_floor(sy)
    prove("needed_dst_col", And(dx_.start <= u, u < dx_.stop), when=inside)
    prove("needed_dst_row", And(dy_.start <= v, v < dy_.stop), when=inside)
    prove("needed_src_col", And(sx_.start <= fx, fx < sx_.stop), when=inside)
    prove("needed_src_row", And(sy_.start <= fy, fy < sy_.stop), when=inside)
    # ReprojectInfo.transform is the src->dst pixel map; .back applied to the destination pixel
    # centre gives the source location the harness computed from its own parameters
    from odc.geo.types import xy_

    hh = F(1, 2) if not symx.concrete_mode() else 0.5
    (bk,) = rr.transform.back([xy_(u + hh, v + hh)])
    if symx.concrete_mode():
        tolr = F(1, 10**6)
        prove("transform_back_is_the_pixel_map", And(abs(ex(bk.x) - sx) <= tolr * (1 + abs(sx)), abs(ex(bk.y) - sy) <= tolr * (1 + abs(sy))))
    else:
        prove("transform_back_is_the_pixel_map", And(bk.x == sx, bk.y == sy))
        (fw,) = rr.transform([bk])
        prove("transform_forward_inverts_back", And(fw.x == u + hh, fw.y == v + hh))
        prove("transform_linear_reported", rr.transform.linear is not None)
    # scale / scale2 / read_shrink
    kxf, kyf = F(kx), F(ky)
    prove("scale2", And(ex(rr.scale2.x) == kxf, ex(rr.scale2.y) == kyf))
    prove("scale_is_min", ex(rr.scale) == min(kxf, kyf))
    smin = min(kxf, kyf)
    prove("read_shrink_contract", And(k >= 1, k > smin - 1, Or(smin < 1, k <= smin + F(1e-3)), Or(smin >= 1, k == 1)))
    if rot is not None or pad not in (None, 0) or (align and align != "zero"):
        prove("no_paste_when_not_tight", rr.paste_ok is False or rr.paste_ok == False)  # noqa: E712


class _GenTr:
    """a point transform that is NOT declared linear (what two different CRSs give): the pixel map
    itself is the pair's affine -- one admissible instance of a CRS change -- so every clause of
    the statement can be evaluated exactly; calls are recorded"""

    def __init__(self, lin, log, back=None):
        self._lin, self._log, self._back = lin, log, back

    linear = None

    @property
    def back(self):
        if self._back is None:
            self._back = _GenTr(self._lin.back, self._log, self)
        return self._back

    def __call__(self, pts):
        pts = list(pts)
        self._log.append((self, pts))
        return self._lin(pts)


def h_reproject_general(kx, ky, mx, my, padmode, align, pin="none"):
    """the general (different-CRS) planning path, with the CRS change standing in as a transform
    that is not declared linear: regions within the images, needed pixels kept, the scale measured
    at the CENTRE of the destination region through the transform, never pasteable"""
    ov = ovm()
    from affine import Affine
    from odc.geo.types import xy_

    src, dst, L, t, (Nsy, Nsx, Ndy, Ndx) = mk_pair(kx, ky, mx, my, None, bound=True, pin=pin)
    kw, pad = _opts(padmode, align)
    log = []
    saved = (ov.native_pix_transform, ov.affine_from_pts)
    ov.native_pix_transform = lambda s_, d_: _GenTr(saved[0](s_, d_), log)

    def affine_from_5(XX, YY):
        # least squares on exactly affine data returns that affine: centre + unit steps
        (c0, xm, ym, xp, yp), (d0, dxm, dym, dxp, dyp) = XX, YY
        a = (dxp.x - dxm.x) / (xp.x - xm.x)
        d_ = (dxp.y - dxm.y) / (xp.x - xm.x)
        b = (dyp.x - dym.x) / (yp.y - ym.y)
        e = (dyp.y - dym.y) / (yp.y - ym.y)
        return Affine(a, b, d0.x - a * c0.x - b * c0.y, d_, e, d0.y - d_ * c0.x - e * c0.y)

    ov.affine_from_pts = affine_from_5
    try:
        rr = ov.compute_reproject_roi(src, dst, **kw)
    finally:
        ov.native_pix_transform, ov.affine_from_pts = saved
    (sy_, sx_), (dy_, dx_) = rr.roi_src, rr.roi_dst
    prove("not_pasteable", rr.paste_ok is False or rr.paste_ok == False)  # noqa: E712
    prove("roi_dst_within", And(0 <= dx_.start, dx_.stop <= Ndx, 0 <= dy_.start, dy_.stop <= Ndy))
    prove("roi_src_within", And(0 <= sx_.start, sx_.stop <= Nsx, 0 <= sy_.start, sy_.stop <= Nsy))
    u, v = Int("u"), Int("v")
    assume(And(0 <= u, u < Ndx, 0 <= v, v < Ndy))
    sx, sy = src_of(L, t, u + F(1, 2), v + F(1, 2))
    inside = And(sx >= 0, sx < Nsx, sy >= 0, sy < Nsy)
    fx, fy = symx.s_floor(sx), symx.s_floor(sy)
    prove("needed_dst_col", And(dx_.start <= u, u < dx_.stop), when=inside)
    prove("needed_dst_row", And(dy_.start <= v, v < dy_.stop), when=inside)
    prove("needed_src_col", And(sx_.start <= fx, fx < sx_.stop), when=inside)
    prove("needed_src_row", And(sy_.start <= fy, fy < sy_.stop), when=inside)
    empty = Or(dx_.stop <= dx_.start, dy_.stop <= dy_.start)
    if bool(empty):
        prove("empty_plan_reports_no_scale", And(ex(rr.scale) == 0, _rs(rr) == 1))
        return
    # the scale was measured through the transform around the centre of roi_dst, (x, y) = (column, row)
    probes = [pts for tr_, pts in log if len(pts) == 5]
    prove("scale_measured_once_through_the_transform", len(probes) == 1)
    c0 = probes[0][0]
    prove("scale_measured_at_the_centre_of_the_overlap", And(ex(c0.x) * 2 == dx_.start + dx_.stop, ex(c0.y) * 2 == dy_.start + dy_.stop))
    kxf, kyf = F(kx), F(ky)
    prove("scale2", And(ex(rr.scale2.x) == kxf, ex(rr.scale2.y) == kyf))
    prove("scale_is_min", ex(rr.scale) == min(kxf, kyf))
    k = _rs(rr)
    smin = min(kxf, kyf)
    prove("read_shrink_contract", And(k >= 1, k > smin - 1, Or(smin < 1, k <= smin + F(1e-3)), Or(smin >= 1, k == 1)))



# ---- R8: the real GbxPointTransform, lon/lat clamping -------------------------------------------------
class _DomainTransformer:
    """Stand-in for the pyproj transformer between two CRSs: the coordinates coincide numerically
    (one admissible CRS change: the harness can then evaluate every clause exactly), and PROJ's
    contract for geographic *input* is kept -- a longitude/latitude outside +-180/+-90 has no image
    (non-finite output).  Calls are recorded."""

    def __init__(self, geographic_input, log):
        self.geo, self.log = geographic_input, log

    def __call__(self, xx, yy, **kw):
        from ..npmodel import NP

        ox, oy = [], []
        for x, y in zip(list(xx), list(yy)):
            bad = False
            if self.geo:
                bad = bool(Or(ex(x) < -180, ex(x) > 180, ex(y) < -90, ex(y) > 90))
            self.log.append((self.geo, bad))
            ox.append(float("inf") if bad else x)
            oy.append(float("inf") if bad else y)
        return NP.asarray(ox), NP.asarray(oy)


def h_gbx_transform(side, k, padmode="none", align=0):
    """compute_reproject_roi between a projected source and a *geographic* destination that
    overhangs the valid lon/lat range by a symbolic amount on one corner (what rounding of a global
    grid's edges produces): through the real native_pix_transform / GbxPointTransform (both
    directions, clamping included) with only the pyproj transformer standing in."""
    ov = ovm()
    from affine import Affine

    import odc.geo.crs as crsm
    import odc.geo.geobox as gbx

    log = []
    # destination: global lon/lat grid, 8 x 4 pixels of 45 degrees, shifted by (ex_, ey_) beyond the
    # north-west (side="nw") or south-east corner of the valid range
    r = 45
    Ndx, Ndy = 8, 4
    ex_, ey_ = Real("over_x"), Real("over_y")
    assume(And(ex_ >= 0, ex_ <= 1, ey_ >= 0, ey_ <= 1))
    sgn = -1 if side == "nw" else 1
    dst = gbx.GeoBox((Ndy, Ndx), Affine(rconst(r), 0.0, -180 + sgn * ex_, 0.0, rconst(-r), 90 - sgn * ey_), "epsg:4326")
    # source: pixels of r/k "degrees" (the stand-in projected CRS shares its numbers with lon/lat),
    # origin and size symbolic
    kf = F(k)
    ps = F(r) / kf
    Nsx, Nsy = Int("Nsx", 1, 2**31 - 1), Int("Nsy", 1, 2**31 - 1)
    ox, oy = Real("ox"), Real("oy")
    src = gbx.GeoBox((Nsy, Nsx), Affine(rconst(ps), 0.0, ox, 0.0, rconst(-ps), oy), "epsg:3857")
    kw, pad = _opts(padmode, align)
    saved = (crsm.CRS.transformer_to_crs, ov.get_scale_at_point)
    crsm.CRS.transformer_to_crs = lambda self, other, always_xy=True: _DomainTransformer(bool(self.geographic), log)
    # the scale clauses are R7's; here the measurement is replaced by its contract (the pair's ratio)
    from odc.geo.types import XY

    ov.get_scale_at_point = lambda pt, tr, r=None: XY(x=rconst(kf), y=rconst(kf))
    try:
        rr = ov.compute_reproject_roi(src, dst, **kw)
        from odc.geo.types import xy_

        u, v = Int("u"), Int("v")
        assume(And(0 <= u, u < Ndx, 0 <= v, v < Ndy))
        hh = F(1, 2) if not symx.concrete_mode() else 0.5
        (bk,) = rr.transform.back([xy_(u + hh, v + hh)])
    finally:
        crsm.CRS.transformer_to_crs, ov.get_scale_at_point = saved
    (sy_, sx_), (dy_, dx_) = rr.roi_src, rr.roi_dst
    prove("not_pasteable", rr.paste_ok is False or rr.paste_ok == False)  # noqa: E712
    prove("roi_dst_within", And(0 <= dx_.start, dx_.stop <= Ndx, 0 <= dy_.start, dy_.stop <= Ndy))
    prove("roi_src_within", And(0 <= sx_.start, sx_.stop <= Nsx, 0 <= sy_.start, sy_.stop <= Nsy))
    # the centre of every destination pixel is a valid lon/lat (the overhang is below half a pixel):
    # it maps to source pixel ((lon - ox)/ps, (oy - lat)/ps)
    lon = -180 + sgn * ex(ex_) + r * (u + F(1, 2))
    lat = 90 - sgn * ex(ey_) - r * (v + F(1, 2))
    sx, sy = (lon - ex(ox)) / ps, (ex(oy) - lat) / ps
    inside = And(sx >= 0, sx < Nsx, sy >= 0, sy < Nsy)
    fx, fy = symx.s_floor(sx), symx.s_floor(sy)
    prove("needed_dst_col", And(dx_.start <= u, u < dx_.stop), when=inside)
    prove("needed_dst_row", And(dy_.start <= v, v < dy_.stop), when=inside)
    prove("needed_src_col", And(sx_.start <= fx, fx < sx_.stop), when=inside)
    prove("needed_src_row", And(sy_.start <= fy, fy < sy_.stop), when=inside)
    if symx.concrete_mode():
        import math

        prove("transform_back_of_a_pixel_centre_is_finite", math.isfinite(float(bk.x)) and math.isfinite(float(bk.y)))
        tolr = F(1, 10**6)
        prove("transform_back_is_the_pixel_map", And(abs(ex(bk.x) - sx) <= tolr * (1 + abs(sx)), abs(ex(bk.y) - sy) <= tolr * (1 + abs(sy))))
    else:
        prove("transform_back_of_a_pixel_centre_is_finite", isinstance(bk.x, symx.Sym) or bk.x == bk.x and abs(bk.x) != float("inf"))
        prove("transform_back_is_the_pixel_map", And(ex(bk.x) == sx, ex(bk.y) == sy))


def h_empty_source(k, axis):
    """a source image without rows (or columns): the planned source region lies within it (it is
    empty), whatever the destination and the read-shrink factor"""
    ov = ovm()
    from affine import Affine

    import odc.geo.geobox as gbx

    kf = F(k)
    N = Int("N", 1, 2**31 - 1)
    Ndy, Ndx = Int("Ndy", 1, 2**31 - 1), Int("Ndx", 1, 2**31 - 1)
    ox, oy, tx, ty_ = Real("ox"), Real("oy"), Real("tx"), Real("ty")
    shape = (0, N) if axis == "y" else (N, 0)
    src = gbx.GeoBox(shape, Affine(rconst(10), 0.0, ox, 0.0, rconst(-10), oy), "epsg:3857")
    dst = gbx.GeoBox((Ndy, Ndx), Affine(rconst(10 * kf), 0.0, ox + 10 * tx, 0.0, rconst(-10 * kf), oy - 10 * ty_), "epsg:3857")
    rr = ov.compute_reproject_roi(src, dst)
    (sy_, sx_), (dy_, dx_) = rr.roi_src, rr.roi_dst
    kk = _rs(rr)
    # (the source region may reach the next multiple of read_shrink: for the side without pixels that is 0)
    prove("roi_src_within_the_empty_image", And(0 <= sx_.start, sx_.stop <= ((shape[1] + kk - 1) // kk) * kk, 0 <= sy_.start, sy_.stop <= ((shape[0] + kk - 1) // kk) * kk))
    prove("roi_dst_within", And(0 <= dx_.start, dx_.stop <= Ndx, 0 <= dy_.start, dy_.stop <= Ndy))
    prove("no_destination_pixel_is_planned_from_an_empty_source", Or(dx_.stop <= dx_.start, dy_.stop <= dy_.start))


def h_separated(kx, ky, mx, my, padmode, align, axis):
    ov = ovm()
    src, dst, L, t, (Nsy, Nsx, Ndy, Ndx) = mk_pair(kx, ky, mx, my, None, bound=True)
    kw, pad = _opts(padmode, align)
    margin = (1 if pad is None else pad) + (0 if align == "zero" else (align or 0)) + 1
    # the destination image, mapped into source pixels, is further than the margin from the source
    if axis == "x":
        e0, _ = src_of(L, t, 0, 0)
        e1, _ = src_of(L, t, Ndx, 0)
        N = Nsx
    else:
        _, e0 = src_of(L, t, 0, 0)
        _, e1 = src_of(L, t, 0, Ndy)
        N = Nsy
    lo, hi = (e0, e1) if (mx if axis == "x" else my) > 0 else (e1, e0)
    side = Bool("right_of_source")
    if side:
        assume(lo > N + margin)
    else:
        assume(hi < -margin)
    rr = ov.compute_reproject_roi(src, dst, **kw)
    (sy_, sx_), (dy_, dx_) = rr.roi_src, rr.roi_dst
    prove("roi_src_zero_area", Or(sx_.stop <= sx_.start, sy_.stop <= sy_.start))
    prove("roi_dst_zero_area", Or(dx_.stop <= dx_.start, dy_.stop <= dy_.start))


def _cfgs(tier):
    q = [
        dict(kx="1", ky="1", mx=1, my=1, padmode="none", align=0),
        dict(kx="1", ky="1", mx=-1, my=1, padmode="none", align=0),
        dict(kx="2", ky="2", mx=1, my=-1, padmode="none", align=0),
        dict(kx="3/2", ky="3/2", mx=1, my=1, padmode="none", align=0),
        dict(kx="1/2", ky="1/2", mx=1, my=1, padmode="none", align=0),
        dict(kx="1", ky="1", mx=1, my=1, padmode="1", align=0),
        dict(kx="1", ky="1", mx=1, my=1, padmode="sym", align=4),
        dict(kx="2", ky="3", mx=1, my=1, padmode="0", align=0),
    ]
    if tier == "quick":
        return q
    t = list(q)
    for k in ("1", "2", "3", "7", "1/2", "1/3", "3/2", "7/3"):
        for mx, my in ((1, 1), (-1, 1), (1, -1), (-1, -1)):
            for pm, al in (("none", 0), ("0", 0), ("1", 0), ("sym", 0), ("none", 16), ("sym", 4)):
                c = dict(kx=k, ky=k, mx=mx, my=my, padmode=pm, align=al)
                if c not in t and (mx, my) in ((1, 1), (-1, -1)) or pm == "none":
                    if c not in t:
                        t.append(c)
    t += [dict(kx="2", ky="1", mx=1, my=1, padmode="none", align=0), dict(kx="1/2", ky="3", mx=-1, my=1, padmode="1", align=0)]
    return t


PINS_Q = ["y:aligned", "y:subpixel", "x:shifted", "x:near"]


def _r4(tier, rng):
    base = _cfgs(tier)
    out = []
    for c in base:
        for pin in PINS_Q:
            out.append(dict(c, pin=pin))
    if tier == "thorough":
        # both axes symbolic at once (couples the axes): a handful of configurations
        for c in base[:4] + base[5:7]:
            out.append(dict(c, pin="none"))
    return out


def _rot_cfgs(tier):
    q = [dict(kx="1", ky="1", mx=1, my=1, padmode="none", align=0, rot=["3/5", "4/5"], pin="sizes:"),
         dict(kx="1", ky="1", mx=1, my=1, padmode="0", align="zero", rot=["3/5", "4/5"], pin="sizes:")]
    if tier == "quick":
        return q
    return q + [
        dict(kx="1", ky="1", mx=1, my=1, padmode="none", align=0, rot=["3/5", "4/5"]),
        dict(kx="2", ky="2", mx=1, my=1, padmode="none", align=0, rot=["5/13", "12/13"]),
        dict(kx="1", ky="1", mx=1, my=1, padmode="1", align=0, rot=["0", "1"]),
        dict(kx="1/2", ky="1/2", mx=1, my=-1, padmode="none", align=0, rot=["3/5", "4/5"]),
    ]


def _sep_cfgs(tier):
    q = [
        dict(kx="1", ky="1", mx=1, my=1, padmode="none", align=0, axis="x"),
        dict(kx="2", ky="2", mx=-1, my=1, padmode="1", align=0, axis="y"),
        dict(kx="3/2", ky="3/2", mx=1, my=1, padmode="sym", align=4, axis="x"),
    ]
    if tier == "quick":
        return q
    return q + [dict(kx=k, ky=k, mx=mx, my=1, padmode=pm, align=al, axis=ax) for k in ("1", "3", "1/2") for mx in (1, -1)
                for pm, al in (("none", 0), ("0", 0), ("sym", 16)) for ax in ("x", "y")]


S_Q = ["1", "-1", "2", "1/2", "3/2", "-7/3"]
S_T = S_Q + ["3", "4", "7", "-2", "1/3", "-1/2", "7/3", "1023/1024", "1025/1024", "1000"]

OBLIGATIONS = [
    Ob("R1_axis_overlap", h_axis, tiered([dict(s=s) for s in S_Q], [dict(s=s) for s in S_T]),
       descr="compute_axis_overlap: regions within [0,Ns]/[0,Nd]; a destination pixel whose centre maps inside the source is kept together with its source pixel",
       functions=("odc.geo.overlap.compute_axis_overlap",), bounds="Ns, Nd >= 0, translation, probe pixel symbolic; scale from grid (either sign)", setup=setup),
    Ob("R2_box_overlap", h_box_overlap, fixed(dict(sx="1", sy="-2"), dict(sx="3/2", sy="1/2")), descr="box_overlap applies (sy,ty) to rows and (sx,tx) to columns",
       functions=("odc.geo.overlap.box_overlap",), bounds="per-axis scales from grid", setup=setup),
    Ob("R3_pick_read_scale", h_pick_read_scale, fixed(), descr="_pick_read_scale: integer >= 1, 1 below 1, > s-1, <= s + tol", functions=("odc.geo.overlap._pick_read_scale",),
       bounds="s > 0 symbolic", setup=setup),
    Ob("R4_reproject_roi", h_reproject, _r4,
       descr="compute_reproject_roi (same CRS): regions within the images (source up to the next multiple of read_shrink); every destination pixel whose centre maps inside the source lies in roi_dst and its source pixel in roi_src; scale/scale2/read_shrink",
       functions=("odc.geo.overlap.compute_reproject_roi", "odc.geo.overlap._relative_rois", "odc.geo.overlap.box_overlap", "odc.geo.overlap._can_paste", "odc.geo.roi.roi_from_points", "odc.geo.roi.roi_boundary", "odc.geo.math.snap_affine"),
       bounds="scale grid x mirroring x padding {None,0,1,symbolic 0..64} x align {None,4,16}; origins, image sizes (<= 2^31-1), probe pixel symbolic; quick tier factors the axes (one axis symbolic, the other pinned to aligned / shifted / sub-pixel / within-tolerance with fixed sizes), thorough adds runs with both axes symbolic",
       stubs=("NumpyModel", "exact Cholesky for rational matrices inside decompose_rws"), setup=setup, timeout_ms=30000, deadline_s=2400),
    Ob("R5_reproject_roi_rotated", h_reproject, lambda tier, rng: _rot_cfgs(tier),
       descr="same, destination rotated by a rational rotation (padded sampled path)", functions=("odc.geo.overlap.compute_reproject_roi", "odc.geo.overlap._relative_rois"),
       bounds="rotation grid {(3/5,4/5),(5/13,12/13),(0,1)}; quick: image sizes pinned (50x60 / 40x30), origins and probe symbolic", stubs=("NumpyModel",), setup=setup, timeout_ms=30000, deadline_s=2400),
    Ob("R7_general_path", h_reproject_general,
       tiered([dict(kx="1", ky="1", mx=1, my=1, padmode="none", align=0, pin="y:subpixel"), dict(kx="2", ky="3", mx=1, my=-1, padmode="none", align=0, pin="x:aligned"), dict(kx="1/2", ky="1/2", mx=-1, my=1, padmode="sym", align=0, pin="y:shifted"), dict(kx="3/2", ky="1", mx=1, my=1, padmode="1", align=4, pin="x:subpixel")],
              [dict(kx=a, ky=b, mx=m1, my=m2, padmode=pm, align=al, pin=pn) for a, b in (("1", "1"), ("2", "3"), ("1/2", "1/2"), ("3/2", "1")) for m1, m2 in ((1, 1), (-1, 1), (1, -1)) for pm, al in (("none", 0), ("sym", 0), ("1", 4)) for pn in ("y:subpixel", "x:aligned")]),
       descr="the general (different-CRS) path with the CRS change standing in as a transform not declared linear (its pixel map is the pair's affine): regions within the images, needed pixels kept, scale measured through the transform at the centre of roi_dst, read_shrink contract, never pasteable",
       functions=("odc.geo.overlap.compute_reproject_roi", "odc.geo.overlap._relative_rois", "odc.geo.overlap.get_scale_at_point", "odc.geo.roi.roi_from_points", "odc.geo.roi.roi_boundary", "odc.geo.roi.roi_center"),
       bounds="scale grid x mirroring x padding x align; per-axis factoring; the stand-in transform is affine (curved transforms are PROJ's and outside the claim)", stubs=("NumpyModel", "native_pix_transform wrapped (linear = None, calls recorded)", "affine_from_pts contract: exact on affine data"), setup=setup_rws_stub if False else setup, timeout_ms=30000, deadline_s=2400),
    Ob("R8_gbx_transform", h_gbx_transform,
       tiered([dict(side="nw", k="3"), dict(side="se", k="1/2", padmode="0")],
              [dict(side=sd, k=k, padmode=pm, align=al) for sd in ("nw", "se") for k in ("1", "3", "1/2", "7/3") for pm, al in (("none", 0), ("0", 0), ("sym", 4))]),
       descr="compute_reproject_roi onto a global lon/lat destination whose edges overhang +-180/+-90 by a symbolic amount (0 .. 1 degree), through the real native_pix_transform / GbxPointTransform in both directions (clamping included): needed pixels kept, regions within the images, ReprojectInfo.transform.back of a pixel centre finite and equal to the pixel map",
       functions=("odc.geo.overlap.compute_reproject_roi", "odc.geo.overlap.native_pix_transform", "odc.geo.overlap.GbxPointTransform.__call__", "odc.geo.overlap.GbxPointTransform.back", "odc.geo.overlap._relative_rois", "odc.geo.roi.roi_from_points"),
       bounds="destination 8x4 pixels of 45 degrees, overhang on the north-west or south-east corner 0..1 degree per axis (symbolic); source pixel 45/k, origin and size symbolic (<= 2^31-1); padding None/0/symbolic, align 0/4",
       stubs=("NumpyModel", "CRS.transformer_to_crs: coordinates coincide, geographic input outside +-180/+-90 gives non-finite output (PROJ's contract); PROJ itself outside the claim", "get_scale_at_point replaced by its contract (R7 checks it)"), setup=setup, timeout_ms=30000, deadline_s=2400),
    Ob("R10_empty_source", h_empty_source, fixed(*[dict(k=k, axis=a) for k in ("1", "2", "3/2", "1/3") for a in ("y", "x")]),
       descr="a source without rows or without columns: roi_src lies within it (is empty) and no destination pixel is planned, for pasteable and non-pasteable scales and every read-shrink factor",
       functions=("odc.geo.overlap.compute_reproject_roi", "odc.geo.geobox.GeoBox.zoom_out", "odc.geo.overlap.box_overlap", "odc.geo.roi.scaled_up_roi"),
       bounds="scale grid; destination size, the other source side, origins and offsets symbolic", stubs=("NumpyModel",), setup=setup, timeout_ms=30000, deadline_s=600),
    Ob("R9_near_unit_scale", h_reproject, fixed(dict(kx="10009/10000", ky="1", mx=1, my=1, padmode="none", align=0, pin="y:aligned")),
       descr="same CRS, destination pixels 0.09 % larger than the source's (inside the paste tolerance stol = 1e-3): the planner reports paste and plans with the scale snapped to 1; needed pixels must still be kept whatever the image width",
       functions=("odc.geo.overlap.compute_reproject_roi", "odc.geo.overlap._can_paste", "odc.geo.math.snap_affine", "odc.geo.overlap.box_overlap"),
       bounds="relative scale 1.0009 along x; origins, image sizes (<= 2^31-1), probe pixel symbolic", stubs=("NumpyModel",), setup=setup, timeout_ms=30000, deadline_s=600),
    Ob("R6_separated", h_separated, lambda tier, rng: _sep_cfgs(tier), descr="rasters separated by more than the padding margin: both regions have zero area",
       functions=("odc.geo.overlap.compute_reproject_roi",), bounds="separation along one axis, either side (symbolic flag)", stubs=("NumpyModel",), setup=setup, timeout_ms=30000),
]
