"""C01 -- operations never silently mix coordinate reference systems."""
from __future__ import annotations

import inspect
import itertools
from fractions import Fraction as F

import z3

from .. import shims, symx
from ..runner import Ob, fixed, tiered
from ..symx import (And, Bool, Implies, Int, Not, Or, Real, assume, const, ex, ite, prove,
                    SymBool, rconst)

EXPLANATION = (
    "Every combining operation (discovered by introspection of the real modules and compared with the harness's "
    "table, so a newly added combiner cannot escape) is run on operands whose CRS is a real odc.geo CRS instance with "
    "*symbolic slots* (class id of the underlying pyproj object, EPSG code, string id) or None; the real CRS.__eq__ / "
    "__ne__ run on those slots. Decided: operands denoting different CRSs (incl. exactly one None) => ValueError, "
    "never a result; operands denoting the same CRS (also in another spelling) => exactly the same-named shapely call "
    "on the raw shapes in operand order, predicates returned as is, results tagged with the operands' CRS."
)
ASSUMPTIONS = [
    "registry axioms relating the symbolic slots: equal non-zero EPSG codes => same pyproj class; same class and both coded => same code; equal strings => same class and code",
    "that pyproj itself equates an EPSG code and the equivalent WKT (CRS._crs == other._crs) is outside the claim; 'same CRS' means same class id",
    "shapely geometries are opaque recorders (the values GEOS computes are outside the claim); replay uses real shapely shapes and real CRS objects",
    "operands <= 3 for stream operations (mismatch position symbolic)",
    "operations that reproject a foreign-CRS argument by contract (GeoBox.enclosing, GeoboxTiles.tiles / range_from_bbox) are listed as exempt, not as combiners",
]

PREDICATES = ["contains", "covers", "crosses", "disjoint", "intersects", "touches", "within", "overlaps"]
SETOPS = ["difference", "intersection", "symmetric_difference", "union", "__and__", "__or__", "__xor__", "__sub__"]
TABLE = {
    **{f"Geometry.{n}": "wrapped" for n in PREDICATES + SETOPS},
    "Geometry.split": "split",
    "BoundingBox.__and__": "bbox", "BoundingBox.__or__": "bbox",
    "geom.bbox_union": "bbox_stream", "geom.bbox_intersection": "bbox_stream",
    "geom.common_crs": "common_crs", "geom.multigeom": "multigeom", "geom.unary_union": "unary_union",
    "geom.unary_intersection": "unary_intersection", "geom.intersects": "intersects_fn",
    "GeoBox.__or__": "gbox", "GeoBox.__and__": "gbox", "GeoBox.overlap_roi": "gbox", "GeoBox.snap_to": "gbox",
    "geobox.pixel_translation": "gbox_fn", "geobox.bounding_box_in_pixel_domain": "gbox_fn",
    "geobox.geobox_union_conservative": "gbox_list", "geobox.geobox_intersection_conservative": "gbox_list",
}
EXEMPT = {
    "GeoBox.enclosing": "reprojects the region into the GeoBox's CRS by contract (checked under C16); a region without CRS is rejected",
    "GeoboxTiles.tiles": "query geometry in another CRS is reprojected by contract (C12)",
    "GeoboxTiles.range_from_bbox": "bounding box with a CRS is projected into the pixel plane by contract (C12)",
}
TAGGED = ("Geometry", "BoundingBox", "GeoBox")


def discover():
    import odc.geo.geobox as gbx
    import odc.geo.geom as geom
    from odc.geo.geobox import GeoBox, GeoboxTiles
    from odc.geo.geom import BoundingBox, Geometry

    found = []

    def tagged(ann):
        s = ann if isinstance(ann, str) else str(ann)
        return any(t in s for t in TAGGED), any(k in s for k in ("Iterable", "List", "Sequence"))

    def scan(owner, name, fn, is_method):
        try:
            sig = inspect.signature(fn)
        except (TypeError, ValueError):
            return
        n = 1 if is_method else 0
        it = False
        for i, (pn, p) in enumerate(sig.parameters.items()):
            if is_method and i == 0:
                continue
            if p.annotation is inspect.Parameter.empty:
                if is_method and pn == "other":
                    n += 1
                continue
            t, multi = tagged(p.annotation)
            if t:
                n += 1
                it = it or multi
        if n >= 2 or it:
            found.append(f"{owner}.{name}")

    for n, v in vars(Geometry).items():
        if n == "__subclasshook__":
            continue
        if hasattr(v, "__wrapped__"):
            found.append(f"Geometry.{n}")
        elif inspect.isfunction(v) and not n.startswith("_"):
            scan("Geometry", n, v, True)
    for cls in (BoundingBox, GeoBox, GeoboxTiles):
        for n, v in vars(cls).items():
            f = v.__func__ if isinstance(v, staticmethod) else v
            if inspect.isfunction(f) and (not n.startswith("_") or n in ("__and__", "__or__")):
                scan(cls.__name__, n, f, not isinstance(v, staticmethod))
    for mod in (geom, gbx):
        for n, v in vars(mod).items():
            if inspect.isfunction(v) and v.__module__ == mod.__name__ and not n.startswith("_"):
                scan(mod.__name__.split(".")[-1], n, v, False)
    return found


def preflight():
    found = discover()
    unc = [f for f in found if f not in TABLE and f not in EXEMPT]
    if unc:
        raise RuntimeError(f"UNCOVERED-OP: combining operations discovered in the real modules but not in the harness table: {unc}")
    gone = [t for t in TABLE if t not in found]
    if gone:
        raise RuntimeError(f"operations in the harness table no longer discovered: {gone}")


# ---- abstract CRS tags -------------------------------------------------------------------------------------
class Opaque:
    """stands in for the pyproj CRS object: only equality is observable (class id)"""

    def __init__(self, cls, e70=None, geographic=None):
        self.cls, self.e70, self._geographic = cls, e70, geographic

    @property
    def is_geographic(self):
        if self._geographic is None:
            raise symx.Unsupported("is_geographic on a tag without that attribute")
        return bool(self._geographic)  # forks

    def to_epsg(self, *a, **kw):
        """what the projection library's code lookup answers (None: no code)"""
        if self.e70 is None:
            raise symx.Unsupported("to_epsg on a tag without a lookup answer")
        return None if bool(self.e70 == 0) else self.e70

    def __eq__(self, o):
        if isinstance(o, Opaque):
            return self.cls == o.cls
        return False

    def __ne__(self, o):
        r = self.__eq__(o)
        return ~r if isinstance(r, symx.Sym) else not r

    __hash__ = None  # type: ignore[assignment]


class SymStr:
    def __init__(self, sid):
        self.sid = sid

    def __eq__(self, o):
        if isinstance(o, SymStr):
            return self.sid == o.sid
        return False

    def __ne__(self, o):
        r = self.__eq__(o)
        return ~r if isinstance(r, symx.Sym) else not r

    def __str__(self):
        return "<crs-string>"

    def __hash__(self):
        # the hash of a CRS is the hash of its string form: a function of the string's identity
        # (concretised by case split), so equal CRSs spelled differently land in different buckets
        # of a set or dict exactly as the real ones do
        sid = self.sid
        return hash(("crs-string", symx._sym_index(sid) if isinstance(sid, symx.Sym) else sid))


_WKT = {}


_CUSTOM = ["+proj=laea +lat_0=10 +lon_0=20 +x_0=0 +y_0=0 +ellps=GRS80 +units=m +no_defs", "+proj=sinu +lon_0=0 +x_0=0 +y_0=0 +R=6371007.181 +units=m +no_defs"]


def _real_crs(cls, epsg, e70=1):
    """replay: class parity picks the base CRS, code 0 means 'spelled as WKT'; a tag whose code
    lookup answers nothing maps onto a custom CRS without an EPSG code"""
    from odc.geo.crs import CRS

    if e70 == 0 and epsg == 0:
        return CRS(_CUSTOM[cls % 2])
    base = 4326 if cls % 2 == 1 else 3857
    if epsg != 0:
        return CRS(f"epsg:{base}")
    if base not in _WKT:
        _WKT[base] = CRS(f"epsg:{base}").to_wkt()
    return CRS(_WKT[base])


class Tag:
    def __init__(self, name, allow_none=True):
        self.none = Bool(f"{name}_none") if allow_none else False
        self.cls = Int(f"{name}_class", 1, 4)
        self.epsg = Int(f"{name}_epsg", 0)
        self.e70 = Int(f"{name}_lookup", 0)  # what a code lookup in the projection library answers (0: nothing)
        self.sid = Int(f"{name}_str", 1, 6)
        self.is_none = bool(self.none)  # forks
        if self.is_none:
            self.crs = None
        elif symx.concrete_mode():
            self.crs = _real_crs(self.cls, self.epsg, self.e70)
        else:
            from odc.geo.crs import CRS

            c = CRS.__new__(CRS)
            c._crs = Opaque(self.cls, self.e70, Bool(f"{name}_geographic"))
            c._epsg = self.epsg
            c._str = SymStr(self.sid)
            self.crs = c


def _rebuilt(tag, name):
    """a NEW CRS object denoting the same CRS as the tag (same slots): what a caller gets who
    builds the CRS again from the same specification"""
    if tag.is_none:
        return None
    if symx.concrete_mode():
        return _real_crs(tag.cls, tag.epsg, tag.e70)
    from odc.geo.crs import CRS

    c = CRS.__new__(CRS)
    c._crs = Opaque(tag.cls, tag.e70, tag.crs._crs._geographic)
    c._epsg = tag.epsg
    c._str = SymStr(tag.sid)
    return c


def axioms(tags):
    if symx.concrete_mode():
        # replay maps (class parity, coded?) onto real CRS objects; codes/strings are not used
        return
    for t in tags:
        if not t.is_none:
            assume(Implies(t.epsg != 0, t.e70 == t.epsg))
    for a, b in itertools.combinations([t for t in tags if not t.is_none], 2):
        assume(Implies(a.cls == b.cls, a.e70 == b.e70))
        assume(Implies(And(a.epsg != 0, a.epsg == b.epsg), a.cls == b.cls))
        assume(Implies(And(a.cls == b.cls, a.epsg != 0, b.epsg != 0), a.epsg == b.epsg))
        assume(Implies(a.sid == b.sid, And(a.cls == b.cls, a.epsg == b.epsg)))


def same(a: Tag, b: Tag):
    if a.is_none or b.is_none:
        return a.is_none and b.is_none
    if symx.concrete_mode():
        return a.cls % 2 == b.cls % 2
    return a.cls == b.cls


def all_same(tags):
    r = True
    for t in tags[1:]:
        s = same(tags[0], t)
        r = And(r, s) if isinstance(r, symx.Sym) or isinstance(s, symx.Sym) else (r and s)
    return r


# ---- opaque shapes ---------------------------------------------------------------------------------------------
CALLS = []


class Pred:
    def __init__(self, name):
        self.name = name
        self.flag = None

    def __bool__(self):
        if self.flag is None:
            c = symx.ctx()
            c.fresh_n += 1
            v = z3.Bool(f"_pred{c.fresh_n}")
            symx._register(f"_pred{c.fresh_n}", v, "bool")  # part of the model: the replay picks shapes for which the predicate holds
            self.flag = SymBool(v)
        return bool(self.flag)


class Shape:
    geom_type = "Polygon"

    def __init__(self, name, origin=None):
        self.name, self.origin = name, origin
        self._empty = None

    @property
    def is_empty(self):
        """whether shapely reports the shape empty: unknown to the library, a symbolic flag per shape
        (results of operations included: an intersection may well be empty)"""
        if symx.concrete_mode():
            return False
        if self._empty is None:
            c = symx.ctx()
            c.fresh_n += 1
            v = z3.Bool(f"_empty{c.fresh_n}")
            symx._register(f"_empty{c.fresh_n}", v, "bool")  # part of the model: the replay picks disjoint shapes when one is set
            self._empty = SymBool(v)
        return bool(self._empty)  # forks

    def _call(self, op, other):
        if op in PREDICATES:
            r = Pred(op)
        else:
            r = Shape(f"{op}({self.name},{other.name})", origin=(op, self, other))
        CALLS.append((op, self, other, r))
        return r

    def __repr__(self):
        return f"<Shape {self.name}>"


for _op in PREDICATES + SETOPS:
    setattr(Shape, _op, (lambda op: lambda self, other: self._call(op, other))(_op))


class OpsShim:
    def __init__(self, real):
        self._real = real

    def __getattr__(self, k):
        return getattr(self._real, k)

    def unary_union(self, shapes):
        r = Shape("unary_union", origin=("unary_union", list(shapes)))
        CALLS.append(("unary_union", list(shapes), None, r))
        return r

    def split(self, a, b):
        parts = [Shape("part0"), Shape("part1")]
        CALLS.append(("split", a, b, parts))

        class R:
            geoms = parts

        return R()


def setup():
    shims.install_core()
    if symx.concrete_mode():
        return
    import odc.geo.crs as crsm
    import odc.geo.geom as geom

    shims.instrument(crsm)
    base = geom.base.BaseGeometry
    prev_isinstance = geom.isinstance

    def isinst(x, cls):
        if isinstance(x, Shape) and (cls is base or (isinstance(cls, tuple) and base in cls)):
            return True
        return prev_isinstance(x, cls)

    geom.isinstance = isinst
    geom.ops = OpsShim(geom.ops)

    def fake_multigeom(shapes):
        r = Shape("multi", origin=("multi", list(shapes)))
        CALLS.append(("_multigeom", list(shapes), None, r))
        return r

    geom._multigeom = fake_multigeom


def mk_geom(name, tag):
    from odc.geo.geom import Geometry

    if symx.concrete_mode():
        import shapely.geometry as sg

        polys = {"a": sg.box(0, 0, 2, 2), "b": sg.box(1, 1, 3, 3), "c": sg.box(1, 0, 4, 2)}
        if any(k.startswith("_empty") and v for k, v in symx.ctx().model_vals.items()):
            # the counterexample has an empty (intermediate) result: shapes a and b do not meet
            polys = {"a": sg.box(0, 0, 1, 1), "b": sg.box(10, 10, 11, 11), "c": sg.box(0.5, 0.5, 4, 2)}
            if symx.ctx().model_vals.get("_empty1"):  # the first shape asked is the leading operand: empty itself
                polys["a"] = sg.Polygon()
        return Geometry(polys[name], tag.crs)
    g = Geometry.__new__(Geometry)
    g.geom = Shape(name)
    g.crs = tag.crs
    return g


# ---- harnesses ------------------------------------------------------------------------------------------------------
def h_wrapped(op, shared):
    """shared: both operands carry the very same CRS object (the common case)"""
    from odc.geo.geom import Geometry

    ta = Tag("a")
    tb = ta if shared else Tag("b")
    axioms([ta, tb])
    a, b = mk_geom("a", ta), mk_geom("b", tb)
    del CALLS[:]
    sm = same(ta, tb)
    try:
        r = getattr(a, op)(b)
    except ValueError:
        prove("raised_only_for_different_crs", Not(sm))
        prove("no_shapely_call_before_the_error", len(CALLS) == 0)
        return
    prove("returned_only_for_same_crs", sm)
    if symx.concrete_mode():
        want = getattr(a.geom, op)(b.geom)
        if op in PREDICATES:
            prove("predicate_is_shapelys", r == want)
        else:
            prove("result_is_shapelys", isinstance(r, Geometry) and r.geom.equals(want))
            prove("result_tagged_with_operand_crs", r.crs == a.crs)
        return
    prove("exactly_one_shapely_call_in_operand_order", len(CALLS) == 1 and CALLS[0][0] == op and CALLS[0][1] is a.geom and CALLS[0][2] is b.geom)
    if op in PREDICATES:
        prove("predicate_returned_as_is", r is CALLS[0][3])
    else:
        prove("geometry_result_wrapped", isinstance(r, Geometry) and r.geom is CALLS[0][3])
        tg = r.crs is a.crs or (r.crs == a.crs)  # the operands' CRS (either operand's object: they are equal)
        prove("result_tagged_with_operand_crs", tg if isinstance(tg, symx.Sym) else bool(tg))


def h_history(op, rounds):
    """state carried between calls: a long-lived geometry is combined with short-lived ones whose
    CRS objects come and go (same CRS in a separate object, then a different CRS -- CPython hands
    the freed address to the next object of that size): every mixed pair is refused, whatever was
    accepted before"""
    import gc

    from odc.geo.geom import Geometry

    ta, tb, tc = Tag("a", allow_none=False), Tag("b", allow_none=False), Tag("c", allow_none=False)
    axioms([ta, tb, tc])
    assume(same(ta, tb))
    assume(Not(same(ta, tc)))
    conc = symx.concrete_mode()
    a = mk_geom("a", ta)
    tb_crs0, tc_crs0 = tb.crs, tc.crs  # keep the originals alive elsewhere: fresh objects below come and go

    def fresh(name, tag):
        g = mk_geom(name, tag)
        g.crs = _rebuilt(tag, name)
        return g

    for k in range(rounds):
        b = fresh("b", tb)
        try:
            getattr(a, op)(b)
        except ValueError:
            prove(f"round{k}:equal_crs_in_another_object_is_accepted", False)
            return
        del b
        gc.collect()
        c = fresh("c", tc)
        try:
            getattr(a, op)(c)
        except ValueError:
            del c
            gc.collect()
            continue
        prove(f"round{k}:different_crs_is_refused_whatever_was_accepted_before", False)
        return
    prove("all_rounds_done", True)


def h_split():
    ta, tb = Tag("a"), Tag("b")
    axioms([ta, tb])
    a, b = mk_geom("a", ta), mk_geom("b", tb)
    if symx.concrete_mode():
        import shapely.geometry as sg
        from odc.geo.geom import Geometry

        b = Geometry(sg.LineString([(-1, 1), (5, 1)]), tb.crs)
        if any(k.startswith("_pred") and v for k, v in symx.ctx().model_vals.items()):
            # the path asked shapely a yes/no question about the two raw shapes and got "yes" (say:
            # disjoint -- what coordinates in different reference systems usually are): a splitter far away
            b = Geometry(sg.LineString([(1000, 1001), (1005, 1001)]), tb.crs)
    del CALLS[:]
    sm = same(ta, tb)
    try:
        parts = list(a.split(b))
    except ValueError:
        prove("raised_only_for_different_crs", Not(sm))
        prove("no_shapely_call_before_the_error", len(CALLS) == 0)
        return
    prove("returned_only_for_same_crs", sm)
    prove("parts_tagged", all(p.crs is a.crs or p.crs == a.crs for p in parts) and len(parts) == 2)


def h_stream(fn, n, shared_first_two):
    """common_crs / multigeom / unary_union / unary_intersection over n geometries"""
    import odc.geo.geom as geom

    tags = [Tag("a")]
    tags.append(tags[0] if shared_first_two else Tag("b"))
    if n == 3:
        tags.append(Tag("c"))
    axioms(tags)
    gs = [mk_geom(nm, t) for nm, t in zip("abc", tags)]
    del CALLS[:]
    sm = all_same(tags)
    f = getattr(geom, fn)
    try:
        r = f(iter(gs)) if fn != "unary_intersection" else f(gs)
    except ValueError:
        prove("raised_only_for_different_crs", Not(sm))
        if fn in ("common_crs", "multigeom", "unary_union"):
            prove("no_shapely_call_before_the_error", len(CALLS) == 0)
        return
    prove("returned_only_for_same_crs", sm)
    if fn == "common_crs":
        prove("returns_the_common_crs", r is gs[0].crs or r == gs[0].crs)
    else:
        prove("result_tagged", r.crs is gs[0].crs or r.crs == gs[0].crs)
        if not symx.concrete_mode():
            if fn == "unary_union":
                prove("one_unary_union_over_all_shapes_in_order", len(CALLS) == 1 and CALLS[0][0] == "unary_union" and all(x is g.geom for x, g in zip(CALLS[0][1], gs)) and len(CALLS[0][1]) == n)
            if fn == "multigeom":
                prove("one_collection_over_all_shapes_in_order", len(CALLS) == 1 and all(x is g.geom for x, g in zip(CALLS[0][1], gs)) and len(CALLS[0][1]) == n)
            if fn == "unary_intersection":
                prove("left_fold_of_intersection", len(CALLS) == n - 1 and CALLS[0][1] is gs[0].geom and CALLS[0][2] is gs[1].geom and all(c[0] == "intersection" for c in CALLS))


def h_intersects_fn():
    import odc.geo.geom as geom

    ta, tb = Tag("a"), Tag("b")
    axioms([ta, tb])
    a, b = mk_geom("a", ta), mk_geom("b", tb)
    sm = same(ta, tb)
    try:
        geom.intersects(a, b)
    except ValueError:
        prove("raised_only_for_different_crs", Not(sm))
        return
    prove("returned_only_for_same_crs", sm)


def h_bbox(op, n):
    from odc.geo.geom import BoundingBox, bbox_intersection, bbox_union

    tags = [Tag(nm) for nm in "abc"[:n]]
    axioms(tags)
    bbs = [BoundingBox(k, k, k + 2, k + 3, t.crs) for k, t in enumerate(tags)]
    sm = all_same(tags)
    try:
        if op == "and":
            r = bbs[0] & bbs[1]
        elif op == "or":
            r = bbs[0] | bbs[1]
        elif op == "union":
            r = bbox_union(iter(bbs))
        else:
            r = bbox_intersection(iter(bbs))
    except ValueError:
        prove("raised_only_for_different_crs", Not(sm))
        return
    prove("returned_only_for_same_crs", sm)
    prove("result_tagged", r.crs is bbs[0].crs or r.crs == bbs[0].crs)
    want = (0, 0, n + 1, n + 2) if op in ("or", "union") else (n - 1, n - 1, 2, 3)
    prove("coordinates_as_computed_from_raw_boxes", tuple(r.bbox) == want)


def h_gbox(op, n=2):
    from affine import Affine

    import odc.geo.geobox as gbx

    tags = [Tag(nm) for nm in "abc"[:n]]
    axioms(tags)
    gbs = [gbx.GeoBox((4 + k, 5), Affine(10.0, 0.0, 100.0 + 10 * k, 0.0, -10.0, 200.0), t.crs) for k, t in enumerate(tags)]
    sm = all_same(tags)
    fn = {
        "or": lambda: gbs[0] | gbs[1], "and": lambda: gbs[0] & gbs[1], "overlap_roi": lambda: gbs[0].overlap_roi(gbs[1]), "snap_to": lambda: gbs[0].snap_to(gbs[1]),
        "pixel_translation": lambda: gbx.pixel_translation(gbs[0], gbs[1]), "bounding_box_in_pixel_domain": lambda: gbx.bounding_box_in_pixel_domain(gbs[0], gbs[1]),
        "union_list": lambda: gbx.geobox_union_conservative(gbs), "intersection_list": lambda: gbx.geobox_intersection_conservative(gbs),
    }[op]
    try:
        r = fn()
    except ValueError:
        prove("raised_only_for_different_crs", Not(sm))
        return
    prove("returned_only_for_same_crs", sm)
    if isinstance(r, gbx.GeoBox):
        prove("result_tagged", r.crs is gbs[0].crs or r.crs == gbs[0].crs)


def h_crs_eq():
    """the real CRS.__eq__ / __ne__ on the symbolic slots"""
    ta, tb = Tag("a", allow_none=False), Tag("b", allow_none=False)
    axioms([ta, tb])
    a, b = ta.crs, tb.crs
    prove("reflexive", a == a)
    e1, e2 = a == b, b == a
    sm = same(ta, tb)
    prove("eq_is_same_class", (e1 if isinstance(e1, symx.Sym) else bool(e1)) == sm if isinstance(e1, symx.Sym) or isinstance(sm, symx.Sym) else bool(e1) == bool(sm))
    prove("symmetric", (e2 if isinstance(e2, symx.Sym) else bool(e2)) == sm if isinstance(e2, symx.Sym) or isinstance(sm, symx.Sym) else bool(e2) == bool(sm))
    n1 = a != b
    prove("ne_is_negation", (n1 if isinstance(n1, symx.Sym) else bool(n1)) == Not(sm) if isinstance(n1, symx.Sym) or isinstance(sm, symx.Sym) else bool(n1) == (not sm))
    prove("not_equal_to_none", (a == None) is False and (a != None) is True)  # noqa: E711


def _wrapped_params(tier, rng):
    ops = PREDICATES + SETOPS
    return [dict(op=o, shared=s) for o in ops for s in (False, True)]


OBLIGATIONS = [
    Ob("O3_crs_eq", h_crs_eq, fixed(), descr="real CRS.__eq__/__ne__ on symbolic slots: reflexive, symmetric, each other's negation, False against None, coincide with 'same class' under the registry axioms",
       functions=("odc.geo.crs.CRS.__eq__", "odc.geo.crs.CRS.__ne__"), bounds="class ids 1..4, EPSG code >= 0 (0 = none), string id symbolic", stubs=("abstract CRS tags",), setup=setup),
    Ob("O1_O2_wrapped", h_wrapped, _wrapped_params, descr="16 wrap_shapely operations: mismatch (incl. exactly one None) => ValueError before any shapely call; same CRS (any spelling) => exactly the same-named shapely call in operand order, predicate returned as is / geometry wrapped and tagged with the operands' CRS object",
       functions=("odc.geo.geom.wrap_shapely",) + tuple(f"odc.geo.geom.Geometry.{n}" for n in PREDICATES + SETOPS), bounds="two operands, each None or an abstract CRS", stubs=("abstract CRS tags", "opaque recording shapes"), setup=setup),
    Ob("O4_history", h_history, fixed(dict(op="intersects", rounds=3), dict(op="union", rounds=3), dict(op="contains", rounds=4)),
       descr="a long-lived geometry combined in turn with short-lived ones (equal CRS in a separate object, then a different CRS whose object may get the freed address): every mixed pair is refused whatever was accepted before",
       functions=("odc.geo.geom.wrap_shapely", "odc.geo.crs.CRS.__eq__"), bounds="three abstract CRS tags (a = b != c), 3-4 rounds of accept / drop / refuse", stubs=("abstract CRS tags", "opaque recording shapes; CPython's own allocator and reference counting"), setup=setup),
    Ob("O1_split", h_split, fixed(), descr="Geometry.split", functions=("odc.geo.geom.Geometry.split",), stubs=("abstract CRS tags", "ops.split recorder"), setup=setup),
    Ob("O1_streams", h_stream, fixed(*[dict(fn=f, n=n, shared_first_two=s) for f in ("common_crs", "multigeom", "unary_union", "unary_intersection") for n, s in ((2, False), (3, False), (3, True))]),
       descr="common_crs / multigeom / unary_union / unary_intersection: any mismatch in the stream => ValueError; same => one shapely collection call over all shapes in order, tagged",
       functions=("odc.geo.geom.common_crs", "odc.geo.geom.multigeom", "odc.geo.geom.unary_union", "odc.geo.geom.unary_intersection"), bounds="2-3 operands, mismatch position symbolic", stubs=("abstract CRS tags", "recorders"), setup=setup),
    Ob("O1_intersects_fn", h_intersects_fn, fixed(), descr="geom.intersects", functions=("odc.geo.geom.intersects",), stubs=("abstract CRS tags",), setup=setup),
    Ob("O1_bbox", h_bbox, fixed(dict(op="and", n=2), dict(op="or", n=2), dict(op="union", n=3), dict(op="intersection", n=3)),
       descr="BoundingBox & | and bbox_union / bbox_intersection streams: mismatch => ValueError; same => coordinates from the raw boxes, tagged",
       functions=("odc.geo.geom.bbox_union", "odc.geo.geom.bbox_intersection", "odc.geo.geom.BoundingBox.__and__", "odc.geo.geom.BoundingBox.__or__"), stubs=("abstract CRS tags",), setup=setup),
    Ob("O1_geobox", h_gbox, fixed(*[dict(op=o) for o in ("or", "and", "overlap_roi", "snap_to", "pixel_translation", "bounding_box_in_pixel_domain")] + [dict(op="union_list", n=3), dict(op="intersection_list", n=3)]),
       descr="GeoBox | & overlap_roi snap_to, pixel_translation, bounding_box_in_pixel_domain, conservative union/intersection lists: CRS mismatch => ValueError before any grid arithmetic result",
       functions=("odc.geo.geobox.pixel_translation", "odc.geo.geobox.GeoBox.__or__", "odc.geo.geobox.GeoBox.__and__", "odc.geo.geobox.GeoBox.overlap_roi", "odc.geo.geobox.GeoBox.snap_to"), stubs=("abstract CRS tags",), setup=setup),
]
