"""C02 -- GeoBox views agree with the pixel<->world mapping."""
from __future__ import annotations

from fractions import Fraction as F

from .. import shims, symx
from ..runner import Ob, fixed, tiered
from ..symx import (And, Bool, Implies, Int, Not, Or, Real, assume, const, ex, ite, prove,
                    rconst, s_max, s_min)
from .c17 import pysel

EXPLANATION = (
    "All view-changing GeoBox operations executed on a GeoBox with a fully symbolic 6-parameter affine (det != 0), "
    "symbolic shape and symbolic operation parameters; each contract is an affine identity decided by z3 (polynomial "
    "real arithmetic, nlsat). GCP GeoBoxes: same relations with the fitted polynomial as an uninterpreted function."
)
ASSUMPTIONS = [
    "floats as exact reals; the affine is fully symbolic (a,b,c,d,e,f reals, ae-bd != 0) unless the obligation says axis-aligned",
    "zoom factors, target shapes, down-scale factors, buffers' pixel sizes come from finite grids (they multiply sizes under floor/ceil)",
    "rotate(): affine.cos_sin_deg replaced by a contract stub returning (c, s) with c^2+s^2 == 1",
    "GCP GeoBoxes: the polynomial fit itself (numpy lstsq) is outside the claim; pixel->world is an uninterpreted function",
    "extent: the shapely polygon constructor is captured (vertex list compared), GEOS is not executed symbolically",
]


def setup():
    shims.install_core()
    import odc.geo.gcp as gcp

    shims.instrument(gcp)


def mk(kind="full", crs=None):
    from affine import Affine

    import odc.geo.geobox as gbx

    c, f = Real("c"), Real("f")
    if kind == "full":
        a, b, d, e = Real("a"), Real("b"), Real("d"), Real("e")
        assume(a * e - b * d != 0)
    else:
        a, e = Real("a"), Real("e")
        assume(And(a != 0, e != 0))
        b, d = 0.0, 0.0
    ny, nx = Int("ny", 1), Int("nx", 1)
    return gbx.GeoBox((ny, nx), Affine(a, b, c, d, e, f), crs), ny, nx


def same_pt(label, p, q):
    prove(label + ":x", ex(p[0]) == ex(q[0]))
    prove(label + ":y", ex(p[1]) == ex(q[1]))


def close_pt(label, p, q, tol=F(1, 10**6)):
    """concrete replay comparison with a relative tolerance (binary64)"""
    for nm, u, v in (("x", p[0], q[0]), ("y", p[1], q[1])):
        u, v = ex(u), ex(v)
        prove(label + ":" + nm, abs(u - v) <= tol * (1 + abs(u) + abs(v)))


def eq_pt(label, p, q):
    if symx.concrete_mode():
        close_pt(label, p, q)
    else:
        same_pt(label, p, q)


def pt():
    return Real("i"), Real("j")


# ---- G1 inverse -------------------------------------------------------------------------------
def h_inverse():
    g, ny, nx = mk()
    i, j = pt()
    w = g.pix2wld(i, j)
    p = g.wld2pix(*w)
    eq_pt("wld2pix_of_pix2wld", p, (i, j))
    x, y = Real("x"), Real("y")
    q = g.wld2pix(x, y)
    eq_pt("pix2wld_of_wld2pix", g.pix2wld(*q), (x, y))


# ---- G2/G3 extent and bounding box --------------------------------------------------------------
class _Captured:
    def __init__(self, outer, crs, inners):
        self.outer, self.crs, self.inners = list(outer), crs, inners


def h_extent():
    import odc.geo.geom as geom

    g, ny, nx = mk()
    if symx.concrete_mode():
        pts = [tuple(p) for p in g.extent.exterior.coords]
    else:
        orig = geom.polygon
        geom.polygon = lambda outer, crs, *inners: _Captured(outer, crs, inners)
        try:
            cap = g.extent
        finally:
            geom.polygon = orig
        pts = cap.outer
        prove("extent_crs", cap.crs is None)
    want = [(0, 0), (0, ny), (nx, ny), (nx, 0), (0, 0)]
    prove("extent_5_vertices", len(pts) == 5)
    for k, (p, w) in enumerate(zip(pts, want)):
        eq_pt(f"extent_vertex{k}", p, g.pix2wld(*w))


def h_bbox(kind):
    g, ny, nx = mk(kind)
    bb = g.boundingbox
    corners = [g.pix2wld(*w) for w in ((0, 0), (0, ny), (nx, ny), (nx, 0))]
    xs = [ex(p[0]) for p in corners]
    ys = [ex(p[1]) for p in corners]
    L, B_, R, T = (ex(v) for v in bb.bbox)
    for k in range(4):
        prove(f"bbox_contains_corner{k}", And(L <= xs[k], xs[k] <= R, B_ <= ys[k], ys[k] <= T))
    prove("bbox_tight_left", Or(*[L == v for v in xs]))
    prove("bbox_tight_right", Or(*[R == v for v in xs]))
    prove("bbox_tight_bottom", Or(*[B_ == v for v in ys]))
    prove("bbox_tight_top", Or(*[T == v for v in ys]))


# ---- G4 coordinates ------------------------------------------------------------------------------
def h_coords():
    g, ny, nx = mk("st")
    cc = g.coordinates
    prove("dims", list(cc.keys()) == ["y", "x"])
    ky, kx = Int("ky"), Int("kx")
    assume(And(0 <= ky, ky < ny, 0 <= kx, kx < nx))
    if symx.concrete_mode():
        yl, xl = cc["y"].values[ky], cc["x"].values[kx]
        prove("len", len(cc["y"].values) == ny and len(cc["x"].values) == nx)
    else:
        yl, xl = cc["y"].values.at(ky), cc["x"].values.at(kx)
        prove("len", And(cc["y"].values.n == ny, cc["x"].values.n == nx))
    wx, wy = g.pix2wld(kx + F(1, 2) if not symx.concrete_mode() else kx + 0.5, ky + F(1, 2) if not symx.concrete_mode() else ky + 0.5)
    eq_pt("label_is_pixel_centre", (xl, yl), (wx, wy))
    prove("coord_resolution", And(ex(cc["y"].resolution) == ex(g.affine.e), ex(cc["x"].resolution) == ex(g.affine.a)))
    r = g.resolution
    prove("resolution_axis_aligned", And(ex(r.x) == ex(g.affine.a), ex(r.y) == ex(g.affine.e)))


def h_coords_rotated():
    g, ny, nx = mk("full")
    assume(Or(abs(g.affine.b) >= F(1e-10), abs(g.affine.d) >= F(1e-10)))
    try:
        g.coordinates
    except ValueError:
        return
    prove("coordinates_refused_for_rotated", False)


# ---- G6 indexing --------------------------------------------------------------------------------
def h_index(kind_y, kind_x):
    g, ny, nx = mk()
    i, j = pt()

    def mk_s(tag, kind):
        a = None if kind[0] == "n" else Int(f"{tag}_start")
        b = None if kind[1] == "n" else Int(f"{tag}_stop")
        return slice(a, b)

    sy, sx = mk_s("sy", kind_y), mk_s("sx", kind_x)
    # positions beyond +n are not clamped by GeoBox indexing (a larger GeoBox comes back) and the
    # statement does not ask for clamping: checked on start/stop <= n, any negative value
    for s_, n_ in ((sy, ny), (sx, nx)):
        if s_.start is not None:
            assume(s_.start <= n_)
        if s_.stop is not None:
            assume(s_.stop <= n_)
    y0, cy = pysel(sy.start, sy.stop, ny)
    x0, cx = pysel(sx.start, sx.stop, nx)
    # empty selections included: a reversed or empty slice gives an empty GeoBox (never a negative shape)
    g2 = g[sy, sx]
    prove("shape", And(g2.shape.y == cy, g2.shape.x == cx))
    eq_pt("pixel_maps", g2.pix2wld(i, j), g.pix2wld(i + x0, j + y0))
    prove("crs_preserved", g2.crs is g.crs)
    g3 = g[sy]
    prove("row_slice_shape", And(g3.shape.y == cy, g3.shape.x == nx))
    eq_pt("row_slice_maps", g3.pix2wld(i, j), g.pix2wld(i, j + y0))


def h_index_int():
    g, ny, nx = mk()
    i, j = pt()
    r = Int("r")
    assume(And(-ny <= r, r < ny))
    g2 = g[r]
    rr = ite(r < 0, r + ny, r)
    prove("shape", And(g2.shape.y == 1, g2.shape.x == nx))
    eq_pt("row_maps", g2.pix2wld(i, j), g.pix2wld(i, j + rr))
    col = Int("col")
    assume(And(-nx <= col, col < nx))
    g3 = g[r, col]
    cc = ite(col < 0, col + nx, col)
    prove("pixel_shape", And(g3.shape.y == 1, g3.shape.x == 1))
    eq_pt("pixel_maps", g3.pix2wld(i, j), g.pix2wld(i + cc, j + rr))


def h_index_step():
    g, ny, nx = mk()
    k = Int("k")
    assume(And(k != 1))
    try:
        g[0:ny:k]
    except NotImplementedError:
        pass
    else:
        prove("step_refused", False)
    try:
        g[0:1, 0:1, 0:1]
    except ValueError:
        return
    prove("3d_index_refused", False)


# ---- G6 crop by region -----------------------------------------------------------------------------
LIN = {"north_up": (10, 0, 0, -10), "mirrored": (-10, 0, 0, 10), "nonsquare": (F(1, 3), 0, 0, F(1, 4)),
       "rot": (6, 8, 8, -6), "shear": (2, 1, 0, 3)}


def setup_region():
    setup()
    from .c16 import setup_fakegeom

    setup_fakegeom()


def h_crop_region(lin, roi):
    """gbox[region] with the region given as a BoundingBox / pixel-plane polygon / another GeoBox:
    same grid, inside the image, covers region ∩ image, less than one pixel larger per side"""
    from affine import Affine

    import odc.geo.geobox as gbx
    from odc.geo.geom import BoundingBox

    if symx.concrete_mode() and roi == "pixgeom":
        from .c16 import setup_fakegeom

        setup_fakegeom()  # the replay uses the same vertex-list geometry, on plain floats
    a, b, d, e = LIN[lin]
    c, f = Real("c"), Real("f")
    A = Affine(rconst(a), rconst(b), c, rconst(d), rconst(e), f)
    ny, nx = Int("ny", 1), Int("nx", 1)
    g = gbx.GeoBox((ny, nx), A, "epsg:3857")
    if roi == "bbox":
        l, bt, w, h = Real("l"), Real("bt"), Real("w"), Real("h")
        assume(And(w >= 0, h >= 0))
        region = BoundingBox(l, bt, l + w, bt + h, "epsg:3857")
        wpts = [(l, bt), (l, bt + h), (l + w, bt + h), (l + w, bt)]
        ppts = [g.wld2pix(x, y) for x, y in wpts]
    elif roi == "pixgeom":
        ppts = [(Real(f"px{k}"), Real(f"py{k}")) for k in range(3)]
        from .c16 import FakeGeometry

        region = FakeGeometry(ppts + ppts[:1], None)
    else:
        c2, f2 = Real("c2"), Real("f2")
        my, mx = Int("my", 1), Int("mx", 1)
        other = gbx.GeoBox((my, mx), Affine(rconst(30), rconst(0), c2, rconst(0), rconst(-30), f2), "epsg:3857")
        region = other
        ppts = [g.wld2pix(*other.pix2wld(x, y)) for x, y in ((0, 0), (0, my), (mx, my), (mx, 0))]
    xs, ys = [ex(p[0]) for p in ppts], [ex(p[1]) for p in ppts]
    x0, x1, y0, y1 = symx.m_min(*xs), symx.m_max(*xs), symx.m_min(*ys), symx.m_max(*ys)
    X0, X1, Y0, Y1 = symx.m_max(x0, 0), symx.m_min(x1, nx), symx.m_max(y0, 0), symx.m_min(y1, ny)
    assume(And(X0 < X1, Y0 < Y1))  # the region's pixel-space box overlaps the image with positive area
    r = g[region]
    prove("same_grid", And(ex(r.affine.a) == ex(A.a), ex(r.affine.b) == ex(A.b), ex(r.affine.d) == ex(A.d), ex(r.affine.e) == ex(A.e)))
    tx, ty = g.wld2pix(*r.pix2wld(0, 0))
    tx, ty = ex(tx), ex(ty)
    eps = F(1, 10**6) if symx.concrete_mode() else 0
    if symx.concrete_mode():
        prove("whole_pixel_shift", And(abs(tx - round(tx)) <= eps, abs(ty - round(ty)) <= eps))
    else:
        prove("whole_pixel_shift", And(tx == symx.s_floor(tx), ty == symx.s_floor(ty)))
    rx, ry = r.shape.x, r.shape.y
    prove("inside_image", And(-eps <= tx, tx + rx <= nx + eps, -eps <= ty, ty + ry <= ny + eps))
    prove("covers_x", And(tx <= X0 + eps, X1 <= tx + rx + eps))
    prove("covers_y", And(ty <= Y0 + eps, Y1 <= ty + ry + eps))
    prove("tight_x", And(X0 - tx < 1 + eps, tx + rx - X1 < 1 + eps))
    prove("tight_y", And(Y0 - ty < 1 + eps, ty + ry - Y1 < 1 + eps))
    prove("crs_preserved", r.crs == g.crs)


# ---- G9 small views --------------------------------------------------------------------------------
def h_misc(lin):
    """alignment (offset of pixel edges from the CRS origin, in [0,|res|)), aspect, is_empty/bool, width/height"""
    from affine import Affine

    import odc.geo.geobox as gbx

    a, b, d, e = LIN[lin]
    c, f = Real("c"), Real("f")
    ny, nx = Int("ny", 0), Int("nx", 0)
    g = gbx.GeoBox((ny, nx), Affine(rconst(a), rconst(b), c, rconst(d), rconst(e), f), None)
    al = g.alignment
    ax, ay = ex(al.x), ex(al.y)
    eps = F(1, 10**6) if symx.concrete_mode() else 0
    prove("alignment_range", And(0 <= ax, ax < abs(F(a)), 0 <= ay, ay < abs(F(e))))
    # pixel edges: c + a*k; their offset from the origin modulo |a| is the alignment
    k, m = Int("k"), Int("m")
    ux, uy = ex(g.pix2wld(k, m))
    qx, qy = (ux - ax) / abs(F(a)), (uy - ay) / abs(F(e))
    if symx.concrete_mode():
        prove("alignment_of_every_edge", And(abs(qx - round(qx)) <= eps, abs(qy - round(qy)) <= eps))
    else:
        prove("alignment_of_every_edge", And(qx == symx.s_floor(qx), qy == symx.s_floor(qy)))
    prove("is_empty", bool(g.is_empty()) == bool(Or(ny == 0, nx == 0)))
    prove("bool", bool(g) == (not bool(Or(ny == 0, nx == 0))))
    prove("width_height", And(g.width == nx, g.height == ny, g.shape.y == ny, g.shape.x == nx))
    if bool(ny > 0):
        prove("aspect", ex(g.aspect) * ny == nx)
    prove("dims_without_crs", g.dimensions == ("y", "x"))


# ---- G7 operations ---------------------------------------------------------------------------------
def h_pad():
    g, ny, nx = mk()
    i, j = pt()
    px, py = Int("padx", 0), Int("pady", 0)
    g2 = g.pad(px, py)
    prove("shape", And(g2.shape.y == ny + 2 * py, g2.shape.x == nx + 2 * px))
    eq_pt("pixel_maps", g2.pix2wld(i, j), g.pix2wld(i - px, j - py))
    g3 = g.pad(px)
    prove("shape_square", And(g3.shape.y == ny + 2 * px, g3.shape.x == nx + 2 * px))
    eq_pt("square_maps", g3.pix2wld(i, j), g.pix2wld(i - px, j - px))
    prove("crs", g2.crs is g.crs)


def h_pad_wh(ax, ay):
    g, ny, nx = mk()
    i, j = pt()
    g2 = g.pad_wh(ax, ay)
    eq_pt("same_grid", g2.pix2wld(i, j), g.pix2wld(i, j))
    prove("aligned", And(g2.shape.x % ax == 0, g2.shape.y % ay == 0))
    prove("covers_minimally", And(g2.shape.x >= nx, g2.shape.x - nx < ax, g2.shape.y >= ny, g2.shape.y - ny < ay))


def h_crop_expand():
    g, ny, nx = mk()
    i, j = pt()
    my, mx = Int("my", 1), Int("mx", 1)
    for nm, g2 in (("crop", g.crop((my, mx))), ("expand", g.expand((my, mx)))):
        prove(nm + ":shape", And(g2.shape.y == my, g2.shape.x == mx))
        eq_pt(nm + ":same_grid", g2.pix2wld(i, j), g.pix2wld(i, j))


def h_translate():
    g, ny, nx = mk()
    i, j = pt()
    tx, ty_ = Real("tx"), Real("ty")
    g2 = g.translate_pix(tx, ty_)
    eq_pt("pixel_maps", g2.pix2wld(i, j), g.pix2wld(ex(i) + ex(tx) if False else i + tx, j + ty_))
    prove("shape", And(g2.shape.y == ny, g2.shape.x == nx))
    eq_pt("left", g.left.pix2wld(i, j), g.pix2wld(i - nx, j))
    eq_pt("right", g.right.pix2wld(i, j), g.pix2wld(i + nx, j))
    eq_pt("top", g.top.pix2wld(i, j), g.pix2wld(i, j - ny))
    eq_pt("bottom", g.bottom.pix2wld(i, j), g.pix2wld(i, j + ny))
    prove("neighbours_same_shape", And(g.left.shape.x == nx, g.top.shape.y == ny, g.right.shape.y == ny, g.bottom.shape.x == nx))


def h_flip():
    g, ny, nx = mk()
    i, j = pt()
    gx, gy = g.flipx(), g.flipy()
    eq_pt("flipx", gx.pix2wld(i, j), g.pix2wld(nx - i, j))
    eq_pt("flipy", gy.pix2wld(i, j), g.pix2wld(i, ny - j))
    prove("shape", And(gx.shape.x == nx, gx.shape.y == ny, gy.shape.x == nx, gy.shape.y == ny))
    eq_pt("flipx_involution", gx.flipx().pix2wld(i, j), g.pix2wld(i, j))


def h_mul():
    from affine import Affine

    g, ny, nx = mk()
    i, j = pt()
    p, q, r, s, t, u = (Real(n) for n in ("p", "q", "r", "s", "t", "u"))
    A = Affine(p, q, r, s, t, u)
    g2 = g * A
    eq_pt("pixel_side", g2.pix2wld(i, j), g.pix2wld(*(A * (i, j))))
    g3 = A * g
    eq_pt("world_side", g3.pix2wld(i, j), A * g.pix2wld(i, j))
    prove("shape", And(g2.shape.x == nx, g3.shape.y == ny))


def h_rotate():
    """rotation about the centre: the stub for affine.cos_sin_deg returns the harness's named
    (cos, sin) pair with c^2+s^2 == 1, so that a counterexample carries the angle it needs"""
    import math

    g, ny, nx = mk()
    cosv, sinv = Real("cosv"), Real("sinv")
    if symx.concrete_mode():
        deg = math.degrees(math.atan2(sinv, cosv))
        g2 = g.rotate(deg)
        c, s = math.cos(math.radians(deg)), math.sin(math.radians(deg))
        A, B_ = g.affine, g2.affine
        scale = max(abs(v) for v in A[:6][:2] + A[:6][3:5]) * max(nx, ny)
        p, q = g2.pix2wld(nx * 0.5, ny * 0.5), g.pix2wld(nx * 0.5, ny * 0.5)
        prove("centre_fixed", abs(p[0] - q[0]) <= 1e-6 * scale and abs(p[1] - q[1]) <= 1e-6 * scale)
        close_pt("linear_col0", (B_.a, B_.d), (c * A.a - s * A.d, s * A.a + c * A.d))
        return
    import affine

    assume(cosv * cosv + sinv * sinv == 1)
    saved = affine.cos_sin_deg
    affine.cos_sin_deg = lambda deg: (cosv, sinv)
    try:
        g2 = g.rotate(Real("deg"))
    finally:
        affine.cos_sin_deg = saved
    cc, ss = cosv, sinv
    A, B_ = g.affine, g2.affine
    h = F(1, 2)
    same_pt("centre_fixed", g2.pix2wld(nx * h, ny * h), g.pix2wld(nx * h, ny * h))
    prove("linear_part_a", B_.a == cc * A.a - ss * A.d)
    prove("linear_part_b", B_.b == cc * A.b - ss * A.e)
    prove("linear_part_d", B_.d == ss * A.a + cc * A.d)
    prove("linear_part_e", B_.e == ss * A.b + cc * A.e)
    prove("shape", And(g2.shape.x == nx, g2.shape.y == ny))


def h_center_pixel():
    g, ny, nx = mk()
    i, j = pt()
    g2 = g.center_pixel
    prove("shape", And(g2.shape.x == 1, g2.shape.y == 1))
    eq_pt("maps", g2.pix2wld(i, j), g.pix2wld(i + nx // 2, j + ny // 2))


def h_zoom_out(factor):
    g, ny, nx = mk()
    i, j = pt()
    fz = F(factor)
    g2 = g.zoom_out(rconst(fz))
    eq_pt("pixel_maps", g2.pix2wld(i, j), g.pix2wld(ex(i) * fz if symx.concrete_mode() else i * fz, ex(j) * fz if symx.concrete_mode() else j * fz))
    mx, my = g2.shape.x, g2.shape.y
    prove("covers_x", mx * fz >= nx)
    prove("covers_y", my * fz >= ny)
    prove("minimal_x", Or((mx - 1) * fz < nx, mx == 1))
    prove("minimal_y", Or((my - 1) * fz < ny, my == 1))
    prove("at_least_one", And(mx >= 1, my >= 1))


def h_zoom_to_shape(sy, sx):
    g, ny, nx = mk()
    g2 = g.zoom_to((sy, sx))
    prove("shape", And(g2.shape.y == sy, g2.shape.x == sx))
    eq_pt("origin_kept", g2.pix2wld(0, 0), g.pix2wld(0, 0))
    eq_pt("far_corner_kept", g2.pix2wld(sx, sy), g.pix2wld(nx, ny))
    eq_pt("x_corner_kept", g2.pix2wld(sx, 0), g.pix2wld(nx, 0))


def h_zoom_to_int(n, shape):
    """zoom_to(int): longest side becomes n; shape pinned to a grid point (the factor nmax/n
    multiplies sizes)"""
    from affine import Affine

    import odc.geo.geobox as gbx

    a, b, c, d, e, f = (Real(k) for k in "abcdef")
    assume(a * e - b * d != 0)
    ny, nx = shape
    g = gbx.GeoBox((ny, nx), Affine(a, b, c, d, e, f), None)
    g2 = g.zoom_to(n)
    prove("longest_side", s_max(g2.shape.x, g2.shape.y) == n if not symx.concrete_mode() else max(g2.shape.x, g2.shape.y) == n)
    fz = F(max(nx, ny) / n)  # the double the code computes (nmax / shape)
    i, j = pt()
    eq_pt("pixel_maps", g2.pix2wld(i, j), g.pix2wld(ex(i) * fz if symx.concrete_mode() else i * fz, ex(j) * fz if symx.concrete_mode() else j * fz))
    eps = F(1, 10**9)  # the factor is a rounded double on both sides
    prove("covers", And(g2.shape.x * fz >= nx - eps, g2.shape.y * fz >= ny - eps))


def h_scaled_down(k):
    import odc.geo.geobox as gbx

    g, ny, nx = mk()
    i, j = pt()
    g2 = gbx.scaled_down_geobox(g, k)
    eq_pt("pixel_maps", g2.pix2wld(i, j), g.pix2wld(i * k, j * k))
    prove("covers_minimally_x", And(g2.shape.x * k >= nx, (g2.shape.x - 1) * k < nx))
    prove("covers_minimally_y", And(g2.shape.y * k >= ny, (g2.shape.y - 1) * k < ny))


def h_buffered(res):
    """axis-aligned (buffered() goes through .resolution): grown by whole pixels on each side,
    covering the requested buffer up to the documented 0.1 pixel slack"""
    from affine import Affine

    import odc.geo.geobox as gbx

    rx, ry = F(res[0]), F(res[1])
    c, f = Real("c"), Real("f")
    ny, nx = Int("ny", 1), Int("nx", 1)
    g = gbx.GeoBox((ny, nx), Affine(rconst(rx), 0.0, c, 0.0, rconst(ry), f), None)
    bx, by = Real("bx"), Real("by")
    assume(And(bx >= 0, by >= 0))
    g2 = g.buffered(bx, by)
    i, j = pt()
    px2, py2 = g2.shape.x - nx, g2.shape.y - ny
    prove("even_growth", And(px2 % 2 == 0, py2 % 2 == 0))
    px, py = px2 // 2, py2 // 2
    eq_pt("pixel_maps", g2.pix2wld(i, j), g.pix2wld(i - px, j - py))
    arx, ary = abs(rx), abs(ry)
    slack = F(0.1)  # the code's literal 0.1 (exact double)
    prove("covers_buffer_x", px * arx >= ex(bx) - arx * slack)
    prove("covers_buffer_y", py * ary >= ex(by) - ary * slack)
    prove("minimal_x", px * arx < ex(bx) + arx)
    prove("minimal_y", py * ary < ex(by) + ary)
    g3 = g.buffered(bx)
    prove("single_arg_uses_x_buffer", And((g3.shape.x - nx) == px2, (g3.shape.y - ny) % 2 == 0))


def h_zoom_to_res(res0, res1):
    """zoom_to(resolution=): covers the same region (tight), requested pixel size"""
    from affine import Affine

    import odc.geo.geobox as gbx
    from odc.geo.types import resxy_

    rx, ry = F(res0[0]), F(res0[1])
    qx, qy = F(res1[0]), F(res1[1])
    c, f = Real("c"), Real("f")
    ny, nx = Int("ny", 1), Int("nx", 1)
    g = gbx.GeoBox((ny, nx), Affine(rconst(rx), 0.0, c, 0.0, rconst(ry), f), "epsg:3857")
    g2 = g.zoom_to(resolution=resxy_(rconst(qx), rconst(qy)))
    A = g2.affine
    if symx.concrete_mode():  # the replay runs in doubles
        prove("pixel_size", And(abs(ex(A.a) - qx) <= abs(qx) * F(1, 10**12), abs(ex(A.e) - qy) <= abs(qy) * F(1, 10**12), ex(A.b) == 0, ex(A.d) == 0))
    else:
        prove("pixel_size", And(ex(A.a) == qx, ex(A.e) == qy, ex(A.b) == 0, ex(A.d) == 0))
    bb, bb2 = g.boundingbox, g2.boundingbox
    tol = F(1, 100)
    L, B_, R, T = (ex(v) for v in bb.bbox)
    L2, B2, R2, T2 = (ex(v) for v in bb2.bbox)
    aqx, aqy = abs(qx), abs(qy)
    prove("covers", And(L2 <= L + tol * aqx, R2 >= R - tol * aqx, B2 <= B_ + tol * aqy, T2 >= T - tol * aqy))
    prove("tight", And(L2 > L - aqx * (1 + tol), R2 < R + aqx * (1 + tol), B2 > B_ - aqy * (1 + tol), T2 < T + aqy * (1 + tol)))
    prove("crs", g2.crs == g.crs)


# ---- G8 GCP geoboxes -----------------------------------------------------------------------------
class _UFMapping:
    """pixel->world of a GCP mapping as an uninterpreted function pair"""

    def __init__(self):
        import z3

        self.fx = z3.Function("p2w_x", z3.RealSort(), z3.RealSort(), z3.RealSort())
        self.fy = z3.Function("p2w_y", z3.RealSort(), z3.RealSort(), z3.RealSort())
        self.crs = None

    def p2w(self, x, y):
        a, b = symx._coerce(x, 0.0)[0], symx._coerce(y, 0.0)[0]
        return symx.SymReal(self.fx(a, b)), symx.SymReal(self.fy(a, b))


class _AffMapping:
    """GCP mapping whose control points are affinely related: pixel->world is the affine M (the
    fit reproduces it exactly), world->pixel its inverse"""

    def __init__(self, M, crs=None):
        from odc.geo.crs import norm_crs

        self.M, self.crs = M, norm_crs(crs)
        self.approx = M

    def p2w(self, x, y):
        return self.M * (x, y)

    def w2p(self, x, y):
        return (~self.M) * (x, y)

    @property
    def resolution(self):
        """pixel size of the control-point grid itself (not of a zoomed view of it)"""
        from odc.geo.math import resolution_from_affine

        return resolution_from_affine(self.M)


def h_gcp_affine(op, crop, zoom=None):
    """GCP GeoBox with affinely related control points: the same relations as a linear GeoBox, exactly"""
    from affine import Affine

    import odc.geo.gcp as gcp
    from odc.geo.geobox import GeoBox

    ny, nx = Int("ny", 1), Int("nx", 1)
    mx, my = Real("mx"), Real("my")
    lin = (3, F(-1, 2), F(1, 4), -2)
    if symx.concrete_mode():
        import numpy as np

        pix = np.asarray([[0.0, 0.0], [100.0, 0.0], [100.0, 80.0], [0.0, 80.0], [30.0, 60.0]])
        wld = np.stack([pix[:, 0] * 3 - pix[:, 1] * 0.5 + float(mx), pix[:, 0] * 0.25 + pix[:, 1] * -2 + float(my)], axis=1)
        mp = gcp.GCPMapping(pix, wld, "epsg:3857")
    else:
        mp = _AffMapping(Affine(rconst(lin[0]), rconst(lin[1]), mx, rconst(lin[2]), rconst(lin[3]), my), "epsg:3857")
    if crop:
        x0, y0 = Int("x0", 0), Int("y0", 0)
        g = gcp.GCPGeoBox((ny, nx), mp, Affine.translation(x0, y0))
    else:
        g = gcp.GCPGeoBox((ny, nx), mp)
    if zoom is not None:
        # a zoomed view (an overview): zoom x zoom control-point pixels per pixel of the view
        g = gcp.GCPGeoBox((ny, nx), mp, (Affine.translation(x0, y0) if crop else Affine.identity()) * Affine.scale(zoom, zoom))
    corners = [g.pix2wld(x, y) for x, y in ((0, 0), (nx, 0), (nx, ny), (0, ny))]
    xs, ys = [ex(p[0]) for p in corners], [ex(p[1]) for p in corners]
    def _ext(vals, lt):
        r = vals[0]
        for v in vals[1:]:
            if lt(v, r):  # forks only where the order is not already decided (never, for this linear part)
                r = v
        return r

    L, R = _ext(xs, lambda a_, b_: a_ < b_), _ext(xs, lambda a_, b_: a_ > b_)
    B_, T = _ext(ys, lambda a_, b_: a_ < b_), _ext(ys, lambda a_, b_: a_ > b_)
    tol = F(1, 10**6) * (1 + abs(L) + abs(R) + abs(B_) + abs(T)) if symx.concrete_mode() else 0
    if op == "bbox":
        bb = g.boundingbox
        l2, b2, r2, t2 = (ex(v) for v in bb.bbox)
        prove("bbox_is_image_of_pixel_rectangle", And(abs(l2 - L) <= tol, abs(r2 - R) <= tol, abs(b2 - B_) <= tol, abs(t2 - T) <= tol))
        prove("bbox_crs", bb.crs == g.crs)
    elif op == "bbox_after_zoom_out":
        # the footprint views of the source were looked at BEFORE zooming (they are cached): the
        # zoomed box (pixel counts rounded up, so it reaches beyond the source) has its own
        _ = g.boundingbox
        _ = g.extent
        z = g.zoom_out(2)
        zc = [z.pix2wld(x, y) for x, y in ((0, 0), (z.shape.x, 0), (z.shape.x, z.shape.y), (0, z.shape.y))]
        zx, zy = [ex(p[0]) for p in zc], [ex(p[1]) for p in zc]
        zL, zR = _ext(zx, lambda a_, b_: a_ < b_), _ext(zx, lambda a_, b_: a_ > b_)
        zB, zT = _ext(zy, lambda a_, b_: a_ < b_), _ext(zy, lambda a_, b_: a_ > b_)
        l2, b2, r2, t2 = (ex(v) for v in z.boundingbox.bbox)
        prove("zoomed_bbox_is_image_of_its_own_pixel_rectangle", And(abs(l2 - zL) <= tol, abs(r2 - zR) <= tol, abs(b2 - zB) <= tol, abs(t2 - zT) <= tol))
    elif op == "zoom_res":
        q = F(7, 2)
        if symx.concrete_mode():
            g2 = g.zoom_to(resolution=rconst(q))
        else:
            # assume-guarantee: boundingbox is replaced by its contract (the world box of the four
            # corner images), which op="bbox" proves of the real property; the replay runs the real one
            from odc.geo.geom import BoundingBox

            saved = gcp.GCPGeoBox.__dict__.get("boundingbox")
            contract = BoundingBox(L, B_, R, T, g.crs)
            gcp.GCPGeoBox.boundingbox = property(lambda self: contract)
            try:
                g2 = g.zoom_to(resolution=rconst(q))
            finally:
                if saved is None:
                    del gcp.GCPGeoBox.boundingbox
                else:
                    gcp.GCPGeoBox.boundingbox = saved
        # same region: the far corner and the origin of the zoomed box are those of the original
        eq = close_pt if symx.concrete_mode() else same_pt
        eq("origin_kept", g2.pix2wld(0, 0), g.pix2wld(0, 0))
        eq("far_corner_kept", g2.pix2wld(g2.shape.x, g2.shape.y), g.pix2wld(nx, ny))
        prove("crs", g2.crs == g.crs)
        # pixel count follows the requested resolution: the world box of the footprint divided by q, rounded up (one spare pixel at most)
        wx, wy = (R - L) / q, (T - B_) / q
        prove("shape_from_resolution", And(g2.shape.x >= wx - F(1, 100), g2.shape.x < wx + 1 + F(1, 100), g2.shape.y >= wy - F(1, 100), g2.shape.y < wy + 1 + F(1, 100)))
    elif op == "resolution":
        r = g.resolution
        z = 1 if zoom is None else zoom
        lin_gb = GeoBox((ny, nx), Affine(rconst(lin[0] * z), rconst(lin[1] * z), 0.0, rconst(lin[2] * z), rconst(lin[3] * z), 0.0), None)
        r0 = lin_gb.resolution
        prove("resolution_as_linear", And(abs(ex(r.x) - ex(r0.x)) <= F(1, 10**6), abs(ex(r.y) - ex(r0.y)) <= F(1, 10**6)))


def h_gcp(op, view="plain"):
    import odc.geo.gcp as gcp
    from affine import Affine

    ny, nx = Int("ny", 1), Int("nx", 1)
    i, j = pt()
    if symx.concrete_mode():
        import numpy as np

        pix = np.asarray([[0.0, 0.0], [100.0, 0.0], [100.0, 80.0], [0.0, 80.0], [50.0, 40.0]])
        wld = np.stack([pix[:, 0] * 3 - pix[:, 1] * 0.5 + 7, pix[:, 0] * 0.25 + pix[:, 1] * -2 + 11], axis=1)
        mp = gcp.GCPMapping(pix, wld, None)
    else:
        mp = _UFMapping()
    if view == "plain":
        g = gcp.GCPGeoBox((ny, nx), mp)
    else:
        # a view that was zoomed and cropped before: internal affine = translation x scale
        s0, tx0, ty0 = Real("view_scale"), Real("view_tx"), Real("view_ty")
        assume(s0 > 0)
        g = gcp.GCPGeoBox((ny, nx), mp, Affine.translation(tx0, ty0) * Affine.scale(s0, s0))
    cmp_ = close_pt if symx.concrete_mode() else same_pt
    if op == "crop":
        y0, x0 = Int("y0", 0), Int("x0", 0)
        h, w = Int("h", 1), Int("w", 1)
        assume(And(y0 + h <= ny, x0 + w <= nx))
        g2 = g[y0 : y0 + h, x0 : x0 + w]
        prove("shape", And(g2.shape.y == h, g2.shape.x == w))
        cmp_("crop_maps", g2.pix2wld(i, j), g.pix2wld(i + x0, j + y0))
        g3 = g2[0:1, 0:1]
        cmp_("crop_of_crop", g3.pix2wld(i, j), g.pix2wld(i + x0, j + y0))
    elif op == "pad":
        px, py = Int("padx", 0), Int("pady", 0)
        g2 = g.pad(px, py)
        prove("shape", And(g2.shape.y == ny + 2 * py, g2.shape.x == nx + 2 * px))
        cmp_("pad_maps", g2.pix2wld(i, j), g.pix2wld(i - px, j - py))
        g3 = g.pad_wh(16)
        cmp_("pad_wh_same_grid", g3.pix2wld(i, j), g.pix2wld(i, j))
        prove("pad_wh_aligned", And(g3.shape.x % 16 == 0, g3.shape.x >= nx, g3.shape.x - nx < 16))
    elif op == "zoom":
        g2 = g.zoom_out(rconst(F(2)))
        cmp_("zoom_out_maps", g2.pix2wld(i, j), g.pix2wld(i * 2, j * 2))
        prove("zoom_out_covers", And(g2.shape.x * 2 >= nx, g2.shape.y * 2 >= ny))
        g3 = g.zoom_to((5, 7))
        prove("zoom_to_shape", And(g3.shape.y == 5, g3.shape.x == 7))
        cmp_("zoom_to_far_corner", g3.pix2wld(7, 5), g.pix2wld(nx, ny))
        g4 = g.center_pixel
        cmp_("center_pixel", g4.pix2wld(i, j), g.pix2wld(i + nx // 2, j + ny // 2))


ZO_Q = ["2", "3/2", "1/3"]
ZO_T = ZO_Q + ["1", "7", "7/3", "1/2", "10"]
KINDS = ["ii", "ni", "in", "nn"]

def h_resolution_rws(rot, shear, sx, sy):
    """a grid built as rotation x shear x scale (the decomposition the library documents): the
    reported resolution is the scale part -- the pixel size along the pixel axes -- not the length
    of the sheared edge vectors"""
    from affine import Affine

    import odc.geo.geobox as gbx

    c, s_ = F(rot[0]), F(rot[1])
    w = F(shear)
    kx, ky = F(sx), F(sy)
    # M = R . W . S
    R = ((c, -s_), (s_, c))
    W = ((F(1), w), (F(0), F(1)))
    RW = tuple(tuple(sum(R[i][k] * W[k][j] for k in range(2)) for j in range(2)) for i in range(2))
    a, b, d, e = RW[0][0] * kx, RW[0][1] * ky, RW[1][0] * kx, RW[1][1] * ky
    g = gbx.GeoBox((Int("ny", 1), Int("nx", 1)), Affine(rconst(a), rconst(b) if b else 0.0, Real("tx"), rconst(d) if d else 0.0, rconst(e), Real("ty")), "epsg:3857")
    r = g.resolution
    tol = F(1, 10**9) if symx.concrete_mode() else 0
    prove("resolution_is_the_scale_part_x", abs(ex(r.x) - kx) <= tol * abs(kx))
    prove("resolution_is_the_scale_part_y", abs(ex(r.y) - ky) <= tol * abs(ky))


OBLIGATIONS = [
    Ob("G1_inverse", h_inverse, fixed(), descr="wld2pix and pix2wld are mutual inverses", functions=("odc.geo.geobox.GeoBoxBase.wld2pix", "odc.geo.geobox.GeoBoxBase.pix2wld", "affine.Affine.__invert__"),
       bounds="fully symbolic affine, det != 0", setup=setup, fresh_only=True),
    Ob("G2_extent", h_extent, fixed(), descr="extent vertices are the images of (0,0),(0,ny),(nx,ny),(nx,0),(0,0) in order",
       functions=("odc.geo.geobox.GeoBoxBase.extent", "odc.geo.geom.polygon_from_transform"), stubs=("polygon constructor captured",), setup=setup, fresh_only=True),
    Ob("G3_boundingbox", h_bbox, fixed(dict(kind="full"), dict(kind="st")), descr="boundingbox is the min/max over the four corner images (rotated/sheared affines included)",
       functions=("odc.geo.geobox.GeoBoxBase.boundingbox", "odc.geo.geom.BoundingBox.from_transform"), bounds="fully symbolic affine", setup=setup, fresh_only=True, timeout_ms=30000),
    Ob("G4_resolution_rws", h_resolution_rws, fixed(dict(rot=["3/5", "4/5"], shear="0", sx="10", sy="-10"), dict(rot=["3/5", "4/5"], shear="1/2", sx="10", sy="-10"), dict(rot=["1", "0"], shear="-3/4", sx="2", sy="5"),
                                                     dict(rot=["5/13", "-12/13"], shear="1/3", sx="1/4", sy="-1/3"), dict(rot=["0", "1"], shear="0", sx="30", sy="30")),
       descr="rotated / sheared grids built as rotation x shear x scale: .resolution is the scale part (the documented R.W.S decomposition), shear included", functions=("odc.geo.geobox.GeoBoxBase.resolution", "odc.geo.math.resolution_from_affine", "odc.geo.math.decompose_rws"),
       bounds="rational rotations, shears and scales from a grid; translation and shape symbolic", stubs=("exact Cholesky for rational matrices",), setup=setup, timeout_ms=20000),
    Ob("G4_coordinates", h_coords, fixed(), descr="axis-aligned: coordinate label k is the image of pixel centre k+1/2; Coordinate.resolution and .resolution are the per-axis steps",
       functions=("odc.geo.geobox.GeoBox.coordinates", "odc.geo.geobox.GeoBoxBase.resolution"), stubs=("LinSeq",), setup=setup),
    Ob("G4_coordinates_rotated", h_coords_rotated, fixed(), descr="coordinates refuse rotated/sheared grids", functions=("odc.geo.geobox.GeoBox.coordinates",), setup=setup),
    Ob("G6_index", h_index, tiered([dict(kind_y=a, kind_x=b) for a, b in (("ii", "ii"), ("ni", "in"), ("in", "nn"), ("nn", "ni"))],
                                   [dict(kind_y=a, kind_x=b) for a in KINDS for b in KINDS]),
       descr="gbox[sy, sx]: result pixel (i,j) is original pixel (i+x0, j+y0) with origin/shape per Python slice semantics (None, negative, beyond +-n)",
       functions=("odc.geo.geobox.GeoBox.__getitem__", "odc.geo.geobox.GeoBoxBase.compute_crop", "odc.geo.roi.roi_normalise"),
       bounds="start/stop in {None, any int}; non-empty crops", setup=setup, timeout_ms=20000),
    Ob("G6_index_int", h_index_int, fixed(), descr="integer row / (row, col) index incl. negative: X[-1] is the last row",
       functions=("odc.geo.geobox.GeoBoxBase.compute_crop",), bounds="-n <= index < n", setup=setup),
    Ob("G6_index_step", h_index_step, fixed(), descr="step != 1 => NotImplementedError; 3-d index => ValueError", functions=("odc.geo.geobox.GeoBoxBase.compute_crop",), setup=setup),
    Ob("G6_crop_region", h_crop_region,
       tiered([dict(lin=a, roi=b) for a, b in (("north_up", "bbox"), ("rot", "bbox"), ("mirrored", "pixgeom"), ("nonsquare", "geobox"), ("shear", "pixgeom"))],
              [dict(lin=a, roi=b) for a in LIN for b in ("bbox", "pixgeom", "geobox")]),
       descr="gbox[BoundingBox | pixel-plane polygon | GeoBox]: same grid and CRS, inside the image, covers region-box ∩ image, < 1 pixel larger per side",
       functions=("odc.geo.geobox.GeoBoxBase.compute_crop", "odc.geo.geobox.GeoBoxBase.project", "odc.geo.geom.BoundingBox.round", "odc.geo.geom.bbox_intersection", "odc.geo.roi.roi_normalise"),
       bounds="linear part from 5 families (north-up, mirrored, non-square fractional, rotated 6-8-10, sheared), origin/shape/region symbolic; region overlaps the image with positive area",
       stubs=("vertex-list FakeGeometry in place of the shapely-backed Geometry (transform per vertex, bounds = min/max)",), setup=setup_region),
    Ob("G9_alignment_misc", h_misc, fixed(*[dict(lin=a) for a in ("north_up", "mirrored", "nonsquare")]),
       descr="alignment lies in [0,|res|) and is the offset of every pixel edge from the origin modulo |res|; aspect, is_empty, bool, width/height, default dims",
       functions=("odc.geo.geobox.GeoBoxBase.alignment", "odc.geo.geobox.GeoBoxBase.is_empty", "odc.geo.geobox.GeoBoxBase.aspect", "odc.geo.geobox.GeoBoxBase.dimensions"),
       bounds="axis-aligned linear part from 3 families; origin and shape (>= 0) symbolic", setup=setup),
    Ob("G7_pad", h_pad, fixed(), descr="pad", functions=("odc.geo.geobox.GeoBox.pad",), setup=setup),
    Ob("G7_pad_wh", h_pad_wh, fixed(dict(ax=16, ay=16), dict(ax=3, ay=7)), descr="pad_wh: same grid, aligned shape, minimal growth", functions=("odc.geo.geobox.GeoBox.pad_wh",), setup=setup),
    Ob("G7_crop_expand", h_crop_expand, fixed(), descr="crop/expand keep the grid", functions=("odc.geo.geobox.GeoBox.crop",), setup=setup),
    Ob("G7_translate", h_translate, fixed(), descr="translate_pix (real shift), left/right/top/bottom", functions=("odc.geo.geobox.GeoBox.translate_pix", "odc.geo.geobox.GeoBox.left"), setup=setup),
    Ob("G7_flip", h_flip, fixed(), descr="flipx/flipy", functions=("odc.geo.geobox.GeoBox.flipx", "odc.geo.geobox.GeoBox.flipy"), setup=setup),
    Ob("G7_mul", h_mul, fixed(), descr="gbox*A (pixel side) and A*gbox (world side) with a second symbolic affine", functions=("odc.geo.geobox.GeoBox.__mul__", "odc.geo.geobox.GeoBox.__rmul__"), setup=setup, fresh_only=True),
    Ob("G7_rotate", h_rotate, fixed(), descr="rotate: centre pixel fixed, linear part = rotation x original", functions=("odc.geo.geobox.GeoBox.rotate",), stubs=("cos_sin_deg contract",), setup=setup, fresh_only=True, timeout_ms=30000),
    Ob("G7_center_pixel", h_center_pixel, fixed(), descr="center_pixel", functions=("odc.geo.geobox.GeoBox.center_pixel",), setup=setup),
    Ob("G7_zoom_out", h_zoom_out, tiered([dict(factor=f) for f in ZO_Q], [dict(factor=f) for f in ZO_T]), descr="zoom_out(f): pixel (i,j) at original (f i, f j); covers the original minimally",
       functions=("odc.geo.geobox.GeoBox.zoom_out", "odc.geo.geobox.GeoBoxBase.compute_zoom_out"), bounds="factor from grid", setup=setup),
    Ob("G7_zoom_to_shape", h_zoom_to_shape, tiered([dict(sy=5, sx=7), dict(sy=1, sx=1)], [dict(sy=a, sx=b) for a, b in ((5, 7), (1, 1), (256, 256), (1, 1000), (333, 2))]),
       descr="zoom_to(shape): exact shape, same footprint corners", functions=("odc.geo.geobox.GeoBoxBase.compute_zoom_to",), bounds="target shape from grid", setup=setup),
    Ob("G7_zoom_to_int", h_zoom_to_int, tiered([dict(n=5, shape=[10, 20]), dict(n=7, shape=[3, 2])], [dict(n=n, shape=s) for n, s in ((5, [10, 20]), (7, [3, 2]), (256, [1000, 700]), (1, [1, 9]), (100, [33, 100]))]),
       descr="zoom_to(int): longest side", functions=("odc.geo.geobox.GeoBoxBase.compute_zoom_to",), bounds="grid of (n, shape)", setup=setup),
    Ob("G7_scaled_down", h_scaled_down, tiered([dict(k=2), dict(k=3)], [dict(k=k) for k in (2, 3, 4, 7, 16)]), descr="scaled_down_geobox(k)", functions=("odc.geo.geobox.scaled_down_geobox",), setup=setup),
    Ob("G7_buffered", h_buffered, tiered([dict(res=["10", "-10"]), dict(res=["-1/4", "1/3"])], [dict(res=r) for r in (["10", "-10"], ["-1/4", "1/3"], ["30", "-30"], ["1/3600", "-1/3600"])]),
       descr="buffered: grown by whole pixels, covering the requested buffer (0.1 px slack as coded), minimal", functions=("odc.geo.geobox.GeoBox.buffered", "odc.geo.geobox._round_to_res"),
       bounds="axis-aligned, pixel size from grid, buffers symbolic >= 0", setup=setup),
    Ob("G7_zoom_to_resolution", h_zoom_to_res, tiered([dict(res0=["10", "-10"], res1=["30", "-30"]), dict(res0=["10", "-10"], res1=["7/3", "-7/3"])],
                                                      [dict(res0=a, res1=b) for a in (["10", "-10"], ["1/4", "1/4"]) for b in (["30", "-30"], ["7/3", "-7/3"], ["1", "-1"], ["1/3", "1/3"])]),
       descr="zoom_to(resolution=): requested pixel size, covers the same region, tight", functions=("odc.geo.geobox.GeoBoxBase.compute_zoom_to", "odc.geo.geobox.GeoBox.from_bbox"),
       bounds="axis-aligned grids, both resolutions from grid", setup=setup, timeout_ms=20000),
    Ob("G8_gcp_affine", h_gcp_affine, fixed(*[dict(op=o, crop=c) for o in ("bbox", "zoom_res") for c in (False, True)], dict(op="resolution", crop=False), dict(op="resolution", crop=True, zoom=4), dict(op="bbox", crop=False, zoom=2), dict(op="bbox_after_zoom_out", crop=False), dict(op="bbox_after_zoom_out", crop=True)),
       descr="GCP GeoBox with affinely related control points: boundingbox is the world image of the pixel rectangle (also of a zoomed-out box whose source had its footprint looked at before); zoom_to(resolution=) keeps the region",
       functions=("odc.geo.gcp.GCPGeoBox.boundingbox", "odc.geo.gcp.GCPGeoBox.zoom_to", "odc.geo.geobox.GeoBoxBase.compute_zoom_to", "odc.geo.geobox.GeoBoxBase.extent"),
       bounds="control-point map = fixed linear part (3,-1/2;1/4,-2) with symbolic offset; shape and crop offset symbolic; target resolution 7/2",
       stubs=("affine mapping object in place of the fitted GCPMapping (symbolic run; the replay fits a real GCPMapping)", "vertex-list FakeGeometry",
              "zoom_res: GCPGeoBox.boundingbox replaced by the contract that op=bbox proves (assume-guarantee)"), setup=setup_region),
    Ob("G8_gcp", h_gcp, fixed(dict(op="crop"), dict(op="pad"), dict(op="zoom"), dict(op="crop", view="zoomed"), dict(op="pad", view="zoomed"), dict(op="zoom", view="zoomed")), descr="GCPGeoBox crop/pad/zoom: new.pix2wld(p) == old.pix2wld(g(p)) with the fit as an uninterpreted function",
       functions=("odc.geo.gcp.GCPGeoBox.__getitem__", "odc.geo.gcp.GCPGeoBox.pad", "odc.geo.gcp.GCPGeoBox.zoom_out", "odc.geo.gcp.GCPGeoBox.zoom_to", "odc.geo.gcp.GCPGeoBox.pix2wld"),
       stubs=("uninterpreted pixel->world function in place of the polynomial fit",), setup=setup),
]
