"""C15 -- GeoTIFF/COG written through GDAL reads back identical (what GDAL is asked to do, and
the overwrite guard; GDAL itself enters as a recorder and is run for real in the replay)."""
from __future__ import annotations

from .. import shims, symx
from ..runner import Ob, fixed, tiered
from ..symx import And, Bool, Int, Not, Or, assume, prove

EXPLANATION = (
    "The real _write_cog / write_cog / to_cog / write_cog_layers / check_write_path executed with symbolic image height, width and "
    "block size, a symbolic 'destination exists' / 'overwrite' pair, every band layout (2-D, band-first, band-last with 1..4 bands), "
    "pixel types and nodata modes from a grid, default / empty / explicit overview levels. rasterio (open, MemoryFile, Env, "
    "shutil.copy) and pathlib.Path are recorders over an in-memory file table. z3 decides on every path: the dataset GDAL is asked "
    "to create has the image's width, height, band count, dtype, CRS string, transform and nodata (zero included); pixels are handed "
    "over band-first in band order; it is tiled with block sizes that are multiples of 16 per the documented rule; overviews are "
    "built for exactly the requested levels (none for images under 512 px, the five standard levels from 512 px up) and copied "
    "with copy_src_overviews; an existing destination is deleted only when overwriting was requested and otherwise nothing at "
    "all is written or deleted and IOError is raised; in-memory output never touches the file table; externally supplied "
    "overview layers go to side-car names in order and the options of the front ends arrive unchanged."
)
ASSUMPTIONS = [
    "GDAL/rasterio enter as recorders: that GDAL encodes and decodes pixels losslessly, honours the creation options and builds the overviews it is asked for is outside the claim; the replay runs the real rasterio in a temp directory and compares what an independent read returns",
    "image sides 1..4096 and block sizes 1..4096 symbolic (so that a counterexample can be replayed with real arrays); 1..4 bands",
    "default overview levels: both sides < 512 => none, both sides >= 512 => [2,4,8,16,32]; images with one side below and one above 512 are not constrained (the statement says 'images under 512 pixels')",
]


# ---- recorders --------------------------------------------------------------------------------
class _World:
    def __init__(self):
        self.files = set()
        self.sizes = {}
        self.log = []
        self.n = 0
        self.zeros = False


W: _World = None  # type: ignore[assignment]


class FPath:
    def __init__(self, p):
        self.p = str(p)

    def __str__(self):
        return self.p

    __fspath__ = __str__

    def __eq__(self, o):
        return (isinstance(o, FPath) and o.p == self.p) or (isinstance(o, str) and o == self.p)

    def __ne__(self, o):
        return not self.__eq__(o)

    def __hash__(self):
        return hash(self.p)

    def exists(self):
        W.log.append(("exists", self.p))
        return self.p in W.files

    def unlink(self):
        W.log.append(("unlink", self.p))
        W.files.discard(self.p)

    def is_file(self):
        return self.exists()

    def stat(self):
        # size of the file as it was before the call (symbolic, 0 included: a reserved name)
        W.log.append(("stat", self.p))
        if self.p not in W.files:
            raise FileNotFoundError(self.p)

        class _St:
            st_size = W.sizes.get(self.p, 0)

        return _St()


class _DS:
    def __init__(self, where, opts):
        self.where, self.opts = where, opts

    def __enter__(self):
        return self

    def __exit__(self, *a):
        W.log.append(("close", self.where))
        return False

    def write(self, pix, indexes=None, window=None):
        W.log.append(("write", self.where, pix, indexes, window))

    def block_windows(self):
        return [((0, 0), _Win(0)), ((0, 1), _Win(1))]

    def build_overviews(self, levels, resampling):
        W.log.append(("build_overviews", self.where, list(levels), resampling))


class _Win:
    def __init__(self, k):
        self.k = k

    def toslices(self):
        return (("win-rows", self.k), ("win-cols", self.k))


class _Mem:
    def __init__(self, dirname=None, filename=None):
        W.n += 1
        self.name = f"/vsimem/{dirname or 'anon'}/{filename or ('f%d.tif' % W.n)}"
        self.closed = False
        W.log.append(("memfile", self.name))

    def __enter__(self):
        return self

    def __exit__(self, *a):
        self.close()
        return False

    def close(self):
        self.closed = True

    def open(self, driver=None, **opts):
        W.log.append(("open", self.name, driver, opts))
        return _DS(self.name, opts)

    def getbuffer(self):
        return b"bytes-of:" + self.name.encode()


class _Env:
    def __init__(self, **kw):
        W.log.append(("env", kw))

    def __enter__(self):
        return self

    def __exit__(self, *a):
        return False


class _Rio:
    MemoryFile = _Mem
    Env = _Env

    @staticmethod
    def open(path, mode="r", driver=None, **opts):
        W.log.append(("open", str(path), driver, opts))
        if mode == "w" and not str(path).startswith("/vsimem/"):
            W.files.add(str(path))
        return _DS(str(path), opts)


def _rio_copy(src, dst, **kw):
    W.log.append(("copy", src.where if isinstance(src, _DS) else str(src), str(dst), kw))
    if not str(dst).startswith("/vsimem/"):
        W.files.add(str(dst))


class FakePix:
    """stands for a numpy array: shape, dtype, transposition (recorded as the axis order relative
    to the caller's array) and slicing (recorded)"""

    def __init__(self, shape, dtype, axes=None, sel=None):
        import numpy as real_np

        self.shape, self.dtype = tuple(shape), real_np.dtype(dtype)
        self.axes = tuple(range(len(shape))) if axes is None else tuple(axes)
        self.sel = sel

    @property
    def ndim(self):
        return len(self.shape)

    def transpose(self, *axes):
        # numpy accepts transpose((2, 0, 1)), transpose([2, 0, 1]) and transpose(2, 0, 1)
        axes = list(axes[0]) if len(axes) == 1 and isinstance(axes[0], (tuple, list)) else list(axes)
        return FakePix([self.shape[a] for a in axes], self.dtype, [self.axes[a] for a in axes])

    def __getitem__(self, idx):
        # basic indexing is recorded in one normal form: one entry per axis, an Ellipsis or missing
        # trailing axes written out as full slices
        idx = idx if isinstance(idx, tuple) else (idx,)
        if any(i is Ellipsis for i in idx):
            k = [j for j, i in enumerate(idx) if i is Ellipsis][0]
            idx = idx[:k] + (slice(None),) * (len(self.shape) - (len(idx) - 1)) + idx[k + 1:]
        idx = idx + (slice(None),) * (len(self.shape) - len(idx))
        return FakePix(self.shape, self.dtype, self.axes, idx)

    def any(self):
        # two classes of image content: all zeros, or no zero anywhere (the replay builds exactly these)
        return Not(W.zeros) if isinstance(W.zeros, symx.Sym) else (not W.zeros)

    def all(self):
        return self.any()


def setup():
    global W
    shims.install_core()
    if symx.concrete_mode():
        return
    import odc.geo.cog._rio as rio
    import odc.geo.cog._shared as shared

    shims.instrument(shared)
    shims.instrument(rio)
    rio.rasterio = _Rio
    rio.rio_copy = _rio_copy
    rio.Path = FPath


LEVELS = {"default": None, "none": [], "two": [2, 4], "odd": [3], "five": [2, 4, 8, 16, 32]}
NODATA = {"uint8": 255, "int16": -9999, "float32": -9999.0, "uint16": 0}


def _mk(layout, nb, h, w):
    if layout == "2d":
        return (h, w), 1
    if layout == "first":
        return (nb, h, w), nb
    return (h, w, nb), nb


def _align_up(x, a):
    return (x + a - 1) // a * a


def h_write_cog(layout, nb, dtype, nodata, levels, dest, windowed=False, front="_write_cog"):
    """dest: 'mem' | 'file' (existence and the overwrite flag symbolic)"""
    global W
    import numpy as real_np

    conc = symx.concrete_mode()
    h, w = Int("h", 1, 4096), Int("w", 1, 4096)
    bs = Int("blocksize", 1, 4096)
    exists, overwrite = Bool("exists"), Bool("overwrite")
    old_size = Int("old_size", 0, 16)
    zeros = Bool("image_all_zeros")
    nd = {"none": None, "value": NODATA[dtype], "zero": 0}[nodata]
    lv = LEVELS[levels]
    if lv:
        # GDAL refuses overview levels that leave less than a pixel: outside the requests considered
        assume(And(h >= 2 * max(lv), w >= 2 * max(lv)))
    if front == "_write_cog" and layout != "2d":
        # the array-level writer has only the shape to go by: a cube whose band count equals both
        # sides can be read either way, that request is outside its domain (the xarray front ends
        # know the dimension order and are checked on those cubes too)
        assume(Not(And(h == nb, w == nb)))
    if conc:
        return _replay_write_cog(layout, nb, dtype, nd, lv, dest, windowed, front, h, w, bs, exists, overwrite, old_size, zeros)
    import odc.geo.cog._rio as rio
    import odc.geo.geobox as gbx
    from affine import Affine

    W = _World()
    W.zeros = zeros
    gb = gbx.GeoBox((h, w), Affine(10.0, 0.0, 1000.0, 0.0, -10.0, 2000.0), "epsg:3857")
    shape, nbands = _mk(layout, nb, h, w)
    pix = FakePix(shape, dtype)
    fname = ":mem:" if dest == "mem" else "/out/a.tif"
    if dest == "file" and exists:
        W.files.add(fname)
        W.sizes[fname] = old_size
    before = set(W.files)
    kw = dict(blocksize=bs, overview_levels=lv, use_windowed_writes=windowed)
    raised = None
    try:
        if front == "_write_cog":
            out = rio._write_cog(pix, gb, fname, nodata=nd, overwrite=overwrite, **kw)
        else:
            class _Odc:
                geobox = gb
                ydim = 1 if layout == "first" else 0
                xdim = ydim + 1

            class _Xr:
                data = pix
                odc = _Odc()
                attrs = {} if nodata != "value" else {"nodata": nd}
                dtype = pix.dtype
                dims = {"2d": ("y", "x"), "first": ("band", "y", "x"), "last": ("y", "x", "band")}[layout]
                ndim = len(dims)
                shape = pix.shape

            extra = {"nodata": nd} if nodata == "zero" else {}
            if front == "write_cog":
                out = rio.write_cog(_Xr(), fname, overwrite=overwrite, **kw, **extra)
            else:
                assume(Not(exists))
                out = rio.to_cog(_Xr(), **kw, **extra)
    except IOError as e:
        raised = e
    log = W.log
    if dest == "file" and front != "to_cog":
        must_fail = And(exists, Not(overwrite))
        prove("existing_destination_without_overwrite_is_an_error", raised is not None, when=must_fail)
        prove("no_error_otherwise", raised is None, when=Not(must_fail))
        if raised is not None:
            prove("refused_write_leaves_everything_untouched", W.files == before and not [e for e in log if e[0] in ("unlink", "open", "copy", "write", "memfile")])
            return
        unl = [e for e in log if e[0] == "unlink"]
        prove("existing_destination_is_deleted_only_when_overwriting", (len(unl) == 1 and unl[0][1] == fname) if (fname in before) else len(unl) == 0)
        prove("result_is_the_destination_path", str(out) == fname)
        prove("destination_written", fname in W.files)
    else:
        prove("no_error", raised is None)
        prove("in_memory_output_never_touches_the_file_table", W.files == before and not [e for e in log if e[0] in ("unlink", "exists")])
        prove("result_is_the_encoded_file", isinstance(out, bytes) and out.startswith(b"bytes-of:/vsimem/"))
    # ---- what GDAL was asked to create: the first dataset opened
    opens = [e for e in log if e[0] == "open"]
    prove("one_dataset_created", len(opens) == 1)
    _, where, driver, opts = opens[0]
    prove("geotiff_driver", driver == "GTiff")
    prove("size_and_bands", And(opts["width"] == w, opts["height"] == h, opts["count"] == nbands))
    prove("pixel_type", opts["dtype"] == real_np.dtype(dtype).name)
    prove("georeferencing", opts["crs"] == str(gb.crs) and opts["transform"] == gb.transform)
    prove("nodata_handed_on_zero_included", ("nodata" not in opts) if nd is None else ("nodata" in opts and opts["nodata"] == nd and opts["nodata"] is not None))
    final = opts if lv == [] or (lv is None and False) else None
    # creation options of the file the caller gets: the directly opened one, or the copy
    copies = [e for e in log if e[0] == "copy"]
    builds = [e for e in log if e[0] == "build_overviews"]
    small = And(h < 512, w < 512)
    big = And(h >= 512, w >= 512)
    n_copy = len(copies)
    if lv is None:
        prove("no_overviews_by_default_for_images_under_512_pixels", n_copy == 0 and len(builds) == 0, when=small)
        prove("standard_overviews_by_default_from_512_pixels_up", len(builds) == 1 and builds[0][2] == [2, 4, 8, 16, 32], when=big)
    elif lv == []:
        prove("no_overviews_when_none_requested", n_copy == 0 and len(builds) == 0)
    else:
        prove("exactly_the_requested_overview_levels", len(builds) == 1 and builds[0][2] == lv)
    if builds:
        prove("overviews_built_on_the_written_image_then_copied_once", n_copy == 1 and builds[0][1] == where and copies[0][1] == where and copies[0][3].get("copy_src_overviews") is True)
        prove("overviews_built_after_the_pixels_were_written", max([i for i, e in enumerate(log) if e[0] == "write"], default=-1) < log.index(builds[0]) < log.index(copies[0]))
        copts = copies[0][3]
        prove("copy_goes_to_the_destination", copies[0][2] == fname if dest == "file" and front != "to_cog" else copies[0][2].startswith("/vsimem/"))
    else:
        copts = opts
        prove("written_straight_to_the_destination", where == fname if dest == "file" and front != "to_cog" else where.startswith("/vsimem/"))
    prove("internally_tiled", copts.get("tiled") is True)
    bx, by = copts["blockxsize"], copts["blockysize"]
    prove("block_sizes_are_multiples_of_16", And(bx % 16 == 0, by % 16 == 0, bx >= 16, by >= 16))
    prove("block_x_rule", bx == _align_up(bs, 16), when=w >= bs)
    prove("block_x_rule_small_image", bx == _align_up(w, 16), when=w < bs)
    prove("block_y_rule", by == _align_up(bs, 16), when=h >= bs)
    prove("block_y_rule_small_image", by == _align_up(h, 16), when=h < bs)
    prove("compressed_copy", copts.get("compress") not in (None, False))
    # ---- pixels: band-first, in band order
    writes = [e for e in log if e[0] == "write"]
    want_axes = {"2d": (0, 1), "first": (0, 1, 2), "last": (2, 0, 1)}[layout]
    want_band = 1 if layout == "2d" else tuple(range(1, nbands + 1))
    if not windowed:
        prove("pixels_written_once", len(writes) == 1 or (len(writes) == 0 and bool(And(zeros, nd is None or nd == 0))))
    else:
        # a block window may be left out only where a reader cannot tell: the block holds zeros
        # only and unwritten blocks read as zero (no nodata value, or nodata 0)
        skippable = And(zeros, nd is None or nd == 0)
        ks = [e[4].k for e in writes]
        prove("every_block_window_written", ks == [0, 1] or (bool(skippable) and ks in ([], [0], [1])))
    for e in writes:
        _, wh, p, idx, win = e
        prove("pixels_go_to_the_created_dataset", wh == where)
        prove("pixels_band_first_in_band_order", isinstance(p, FakePix) and p.axes == want_axes and idx == want_band)
        if windowed:
            want_sel = win.toslices() if layout == "2d" else (slice(None),) + win.toslices()
            prove("window_cut_from_rows_and_columns", p.sel == want_sel)
        else:
            prove("whole_image_written", p.sel is None)


def _replay_write_cog(layout, nb, dtype, nd, lv, dest, windowed, front, h, w, bs, exists, overwrite, old_size=11, zeros=False):
    """the same request against the real rasterio/GDAL in a temp directory, read back with rasterio"""
    import os
    import tempfile

    import numpy as np
    import rasterio
    from affine import Affine

    import odc.geo.cog._rio as rio
    from odc.geo.geobox import GeoBox
    from odc.geo.xr import wrap_xr

    gb = GeoBox((h, w), Affine(10.0, 0.0, 1000.0, 0.0, -10.0, 2000.0), "epsg:3857")
    shape, nbands = _mk(layout, nb, h, w)
    n = 1
    for s in shape:
        n *= s
    pix = (np.arange(n).reshape(shape) % 200 + 1).astype(dtype)
    if zeros:
        pix[...] = 0
    old = b"o" * int(old_size)
    kw = dict(blocksize=bs, overview_levels=lv, use_windowed_writes=windowed)
    with tempfile.TemporaryDirectory() as td:
        fname = ":mem:" if dest == "mem" else os.path.join(td, "a.tif")
        if dest == "file" and exists:
            with open(fname, "wb") as f:
                f.write(old)
        raised = None
        out = None
        try:
            if front == "_write_cog":
                out = rio._write_cog(pix, gb, fname, nodata=nd, overwrite=overwrite, **kw)
            else:
                import xarray as xr

                from odc.geo.xr import xr_coords

                dims = {"2d": ("y", "x"), "first": ("band", "y", "x"), "last": ("y", "x", "band")}[layout]
                xx = xr.DataArray(pix, dims=dims, coords=xr_coords(gb), attrs=({"nodata": nd} if nd is not None and nd != 0 else {}))
                extra = {"nodata": nd} if nd == 0 else {}
                if front == "write_cog":
                    out = rio.write_cog(xx, fname, overwrite=overwrite, **kw, **extra)
                else:
                    out = rio.to_cog(xx, **kw, **extra)
        except IOError as e:
            raised = e
        if dest == "file" and front != "to_cog" and exists and not overwrite:
            ok = raised is not None and os.path.exists(fname) and open(fname, "rb").read() == old
            prove("existing_destination_without_overwrite_is_left_untouched_with_an_error", ok)
            return
        prove("no_error", raised is None)
        if raised is not None:
            return
        if isinstance(out, bytes):
            mf = rasterio.MemoryFile(out)
            ds = mf.open()
        else:
            ds = rasterio.open(out)
        with ds:
            data = ds.read()
            want = pix[None] if layout == "2d" else (pix if layout == "first" else pix.transpose(2, 0, 1))
            prove("pixels_read_back_identical", data.shape == want.shape and bool((data == want).all()) and data.dtype == want.dtype)
            prove("georeferencing_reads_back", ds.transform == gb.transform and ds.crs.to_epsg() == 3857)
            prove("nodata_reads_back", ds.nodata == nd if nd is not None else ds.nodata is None)
            bh, bw = ds.block_shapes[0]
            prove("tiled_with_multiples_of_16", bh % 16 == 0 and bw % 16 == 0)  # (rasterio's "tiled" flag is a guess from the block width: not used)
            ov = ds.overviews(1)

            def _ovr_shapes():
                # rasterio reports overview *factors* rounded from the sizes; the sizes themselves
                # are what GDAL built: ceil(side / level) per requested level
                out_ = []
                for i in range(len(ov)):
                    with (mf.open(overview_level=i) if isinstance(out, bytes) else rasterio.open(out, overview_level=i)) as o_:
                        out_.append(tuple(o_.shape))
                return out_

            if lv is None:
                if h < 512 and w < 512:
                    prove("no_overviews_by_default_for_small_images", ov == [])
                elif h >= 512 and w >= 512:
                    prove("standard_overviews_by_default", _ovr_shapes() == [(-(-h // L), -(-w // L)) for L in (2, 4, 8, 16, 32)])
            else:
                prove("exactly_the_requested_overview_levels", _ovr_shapes() == [(-(-h // L), -(-w // L)) for L in lv])


# ---- Z5: externally supplied overview layers ----------------------------------------------------
def h_layers(nlayers, dest, nodata):
    global W
    conc = symx.concrete_mode()
    h, w = Int("h", 1, 4096), Int("w", 1, 4096)
    bs = Int("blocksize", 1, 4096)
    obs = Int("ovr_blocksize", 1, 4096)
    exists, overwrite = Bool("exists"), Bool("overwrite")
    old_size = Int("old_size", 0, 16)
    nd = {"none": None, "attr": -9999, "zero_extra": 0, "zero_attr": 0}[nodata]
    if conc:
        return _replay_layers(nlayers, dest, nodata, nd, h, w, bs, obs, exists, overwrite, old_size)
    import odc.geo.cog._rio as rio
    import odc.geo.geobox as gbx
    from affine import Affine

    W = _World()
    layers = []
    hh, ww = h, w
    for i in range(nlayers):
        gb = gbx.GeoBox((hh, ww), Affine(10.0 * 2**i, 0.0, 1000.0, 0.0, -10.0 * 2**i, 2000.0), "epsg:3857")

        class _Odc:
            geobox = gb
            ydim = 0

        class _Xr:
            data = FakePix((hh, ww), "int16")
            odc = _Odc()
            attrs = {"nodata": nd} if nodata in ("attr", "zero_attr") else {}
            dtype = data.dtype
            level = i

        layers.append(_Xr())
        hh, ww = (hh + 1) // 2, (ww + 1) // 2
    fname = ":mem:" if dest == "mem" else "/out/a.tif"
    if dest == "file" and exists:
        W.files.add(fname)
        W.sizes[fname] = old_size
    before = set(W.files)
    extra = {"nodata": 0} if nodata == "zero_extra" else {}
    raised = None
    try:
        out = rio.write_cog_layers(layers, fname, overwrite=overwrite, blocksize=bs, ovr_blocksize=obs, **extra)
    except IOError as e:
        raised = e
    log = W.log
    if dest == "file":
        must_fail = And(exists, Not(overwrite))
        prove("existing_destination_without_overwrite_is_an_error", raised is not None, when=must_fail)
        prove("no_error_otherwise", raised is None, when=Not(must_fail))
        if raised is not None:
            prove("refused_write_leaves_everything_untouched", W.files == before and not [e for e in log if e[0] in ("unlink", "open", "copy", "write", "memfile")])
            return
        unl = [e for e in log if e[0] == "unlink"]
        prove("existing_destination_is_deleted_only_when_overwriting", (len(unl) == 1 and unl[0][1] == fname) if (fname in before) else len(unl) == 0)
        prove("result_is_the_destination_path", str(out) == fname and fname in W.files)
    else:
        prove("no_error", raised is None)
        prove("result_is_the_encoded_file", isinstance(out, bytes))
        prove("in_memory_output_never_writes_a_file", W.files == before)
    mems = [e[1] for e in log if e[0] == "memfile"]
    side = mems[:nlayers]
    prove("side_car_names", all(side[i] == side[0] + ".ovr" * i for i in range(nlayers)))
    opens = [e for e in log if e[0] == "open"]
    prove("one_dataset_per_layer_in_order", len(opens) == nlayers and [e[1] for e in opens] == side)
    for i, e in enumerate(opens):
        o = e[3]
        lay = layers[i]
        prove(f"layer{i}_size", And(o["width"] == lay.data.shape[1], o["height"] == lay.data.shape[0], o["count"] == 1))
        prove(f"layer{i}_nodata", ("nodata" not in o) if nd is None else o.get("nodata") == nd and o.get("nodata") is not None)
    writes = [e for e in log if e[0] == "write"]
    prove("each_layer_written_to_its_own_side_car", len(writes) == nlayers and all(writes[i][1] == side[i] and writes[i][2] is layers[i].data for i in range(nlayers)))
    prove("no_overviews_computed", not [e for e in log if e[0] == "build_overviews"])
    copies = [e for e in log if e[0] == "copy"]
    prove("one_copy_from_the_full_resolution_side_car", len(copies) == 1 and copies[0][1] == side[0] and copies[0][3].get("copy_src_overviews") is True)
    prove("copy_after_every_layer_was_written", log.index(copies[0]) > max(log.index(x) for x in writes))
    co = copies[0][3]
    prove("copy_goes_to_the_destination", copies[0][2] == fname if dest == "file" else copies[0][2].startswith("/vsimem/"))
    prove("internally_tiled", co.get("tiled") is True)
    bx, by = co["blockxsize"], co["blockysize"]
    prove("block_sizes_are_multiples_of_16", And(bx % 16 == 0, by % 16 == 0, bx >= 16, by >= 16))
    prove("block_x_rule", bx == _align_up(bs, 16), when=w >= bs)
    prove("block_y_rule_small_image", by == _align_up(h, 16), when=h < bs)
    prove("final_nodata", ("nodata" not in co or co["nodata"] is None) if nd is None else co.get("nodata") == nd and co.get("nodata") is not None)
    envs = [e for e in log if e[0] == "env" and "GDAL_TIFF_OVR_BLOCKSIZE" in e[1]]
    prove("overview_block_size_requested", len(envs) == 1 and envs[0][1]["GDAL_TIFF_OVR_BLOCKSIZE"] is obs and log.index(envs[0]) < log.index(copies[0]))


def _replay_layers(nlayers, dest, nodata, nd, h, w, bs, obs, exists, overwrite, old_size=11):
    import os
    import tempfile

    import numpy as np
    import rasterio
    from affine import Affine

    import odc.geo.cog._rio as rio
    from odc.geo.geobox import GeoBox
    from odc.geo.xr import wrap_xr

    layers = []
    hh, ww = h, w
    for i in range(nlayers):
        gb = GeoBox((hh, ww), Affine(10.0 * 2**i, 0.0, 1000.0, 0.0, -10.0 * 2**i, 2000.0), "epsg:3857")
        kw = {"nodata": nd} if nodata in ("attr", "zero_attr") else {}
        layers.append(wrap_xr(np.full((hh, ww), 10 + i, dtype="int16"), gb, **kw))
        hh, ww = (hh + 1) // 2, (ww + 1) // 2
    extra = {"nodata": 0} if nodata == "zero_extra" else {}
    with tempfile.TemporaryDirectory() as td:
        fname = ":mem:" if dest == "mem" else os.path.join(td, "a.tif")
        old = b"o" * int(old_size)
        if dest == "file" and exists:
            with open(fname, "wb") as f:
                f.write(old)
        raised = None
        out = None
        try:
            out = rio.write_cog_layers(layers, fname, overwrite=overwrite, blocksize=bs, ovr_blocksize=obs, **extra)
        except IOError as e:
            raised = e
        if dest == "file" and exists and not overwrite:
            prove("existing_destination_without_overwrite_is_left_untouched_with_an_error", raised is not None and os.path.exists(fname) and open(fname, "rb").read() == old)
            return
        prove("no_error", raised is None)
        if raised is not None:
            return
        ds = rasterio.MemoryFile(out).open() if isinstance(out, bytes) else rasterio.open(out)
        with ds:
            prove("full_resolution_pixels_are_the_first_layer", ds.shape == (h, w) and bool((ds.read(1) == 10).all()))
            prove("nodata_reads_back", ds.nodata == nd if nd is not None else ds.nodata is None)
            bh, bw = ds.block_shapes[0]
            prove("tiled_with_multiples_of_16", bh % 16 == 0 and bw % 16 == 0)
            ov = ds.overviews(1)
            prove("one_overview_per_supplied_layer", len(ov) == nlayers - 1)
            for i in range(1, nlayers):
                lay = layers[i]
                # (read through overview_level: a decimated read of a 1-pixel image returns the full-resolution pixel)
                with (rasterio.MemoryFile(out).open(overview_level=i - 1) if isinstance(out, bytes) else rasterio.open(out, overview_level=i - 1)) as o_:
                    prove(f"overview{i}_holds_the_supplied_layer", tuple(o_.shape) == tuple(lay.shape) and bool((o_.read(1) == 10 + i).all()))


def h_front_layers(dest):
    """write_cog / to_cog with overviews= hand everything to the layered writer"""
    import odc.geo.cog._rio as rio

    conc = symx.concrete_mode()
    h, w = Int("h", 1, 600), Int("w", 1, 600)
    bs = Int("blocksize", 1, 1024)
    if conc:
        import os
        import tempfile

        import numpy as np
        import rasterio
        from affine import Affine

        from odc.geo.geobox import GeoBox
        from odc.geo.xr import wrap_xr

        gb = GeoBox((h, w), Affine(10.0, 0.0, 1000.0, 0.0, -10.0, 2000.0), "epsg:3857")
        pix = (np.arange(h * w).reshape(h, w) % 200 + 1).astype("int16")
        xx = wrap_xr(pix, gb, nodata=-9999)
        g2 = gb.zoom_out(2)
        ov = wrap_xr(np.full(g2.shape, 7, dtype="int16"), g2, nodata=-9999)
        with tempfile.TemporaryDirectory() as td:
            fname = os.path.join(td, "a.tif")
            out = rio.write_cog(xx, fname, overviews=[ov], blocksize=bs) if dest == "file" else rio.to_cog(xx, overviews=[ov], blocksize=bs)
            ds = rasterio.MemoryFile(out).open() if isinstance(out, bytes) else rasterio.open(out)
            with ds:
                prove("pixels_read_back_identical", bool((ds.read(1) == pix).all()))
                # (read through overview_level: a decimated read of a 1-pixel image returns the full-resolution pixel)
                with (rasterio.MemoryFile(out).open(overview_level=0) if isinstance(out, bytes) else rasterio.open(out, overview_level=0)) as o_:
                    prove("supplied_overview_is_in_the_file", len(ds.overviews(1)) == 1 and tuple(o_.shape) == tuple(g2.shape) and bool((o_.read(1) == 7).all()))
                prove("nodata_reads_back", ds.nodata == -9999)
        return
    seen = []

    def rec(layers, dst=":mem:", **kw):
        seen.append((list(layers), dst, kw))
        return b"x" if dst == ":mem:" else FPath(dst)

    saved = rio.write_cog_layers
    rio.write_cog_layers = rec
    try:
        a, b, c = object(), object(), object()
        ow = Bool("overwrite")
        obs = Int("ovr_blocksize", 1, 1024)
        opts = dict(blocksize=bs, ovr_blocksize=obs, use_windowed_writes=True, intermediate_compression="zstd", zlevel=9, nodata=0)
        if dest == "file":
            out = rio.write_cog(a, "/out/a.tif", overviews=iter([b, c]), overwrite=ow, **opts)
        else:
            out = rio.to_cog(a, overviews=iter([b, c]), **opts)
    finally:
        rio.write_cog_layers = saved
    prove("one_call_of_the_layered_writer", len(seen) == 1)
    layers, dst, kw = seen[0]
    prove("image_first_then_the_overviews_in_order", layers == [a, b, c])
    prove("destination_handed_on", dst == ("/out/a.tif" if dest == "file" else ":mem:"))
    want = dict(opts)
    if dest == "file":
        want["overwrite"] = ow
    prove("every_option_handed_on", all(k in kw and kw[k] is want[k] for k in want))


def _params(tier, rng):
    out = []
    i = 0
    for layout, nb in (("2d", 1), ("first", 3), ("last", 4), ("last", 1), ("first", 1), ("first", 2), ("last", 3)):
        for dest, front in (("file", "_write_cog"), ("file", "write_cog"), ("mem", "to_cog"), ("mem", "_write_cog")):
            if (i + (0 if front != "_write_cog" else 1)) % 2 and tier == "quick" and layout not in ("first",):
                i += 1
                continue
            dt = ("uint8", "int16", "float32", "uint16")[i % 4]
            out.append(dict(layout=layout, nb=nb, dtype=dt, nodata=("none", "value", "zero")[i % 3], levels=("default", "none", "two", "odd", "five")[i % 5], dest=dest,
                            windowed=(i % 4 == 3), front=front))
            i += 1
    # windowed writes with a nodata value other than zero (an unwritten block reads back as nodata)
    out.append(dict(layout="2d", nb=1, dtype="int16", nodata="value", levels="none", dest="mem", windowed=True, front="_write_cog"))
    out.append(dict(layout="last", nb=3, dtype="uint8", nodata="value", levels="two", dest="file", windowed=True, front="write_cog"))
    if tier == "thorough":
        for layout, nb in (("2d", 1), ("first", 2), ("last", 3)):
            for lv in LEVELS:
                for nd in ("none", "value", "zero"):
                    for dest, front in (("file", "_write_cog"), ("file", "write_cog"), ("mem", "to_cog")):
                        out.append(dict(layout=layout, nb=nb, dtype=("uint8", "int16", "float32", "uint16")[i % 4], nodata=nd, levels=lv, dest=dest, windowed=(i % 5 == 0), front=front))
                        i += 1
    return out


COMMON = dict(setup=setup, timeout_ms=20000, deadline_s=900.0)
STUBS = ("rasterio.open / MemoryFile / Env / shutil.copy recorders over an in-memory file table", "pathlib.Path stand-in", "shape/dtype/transposition record in place of the pixel array")

OBLIGATIONS = [
    Ob("Z1_Z3_write_cog", h_write_cog, _params,
       descr="what GDAL is asked to create (size, bands, dtype, CRS, transform, nodata incl. 0), band-first pixel hand-over in band order, tiling with block sizes per the multiple-of-16 rule, exactly the requested overview levels (defaults by image size) copied with copy_src_overviews, overwrite guard, in-memory output",
       functions=("odc.geo.cog._rio._write_cog", "odc.geo.cog._rio.write_cog", "odc.geo.cog._rio.to_cog", "odc.geo.cog._rio.check_write_path", "odc.geo.cog._rio._default_cog_opts", "odc.geo.cog._shared.adjust_blocksize"),
       bounds="height, width, block size in 1..4096 symbolic; destination exists / overwrite and the size of the existing file (0..16 bytes) symbolic; image content in two classes (all zeros / no zero) symbolic; band layout, band count, dtype, nodata mode, overview request, front end from the parameter grid", stubs=STUBS, **COMMON),
    Ob("Z5_layers", h_layers, fixed(*[dict(nlayers=n, dest=d, nodata=m) for n, d, m in ((1, "mem", "none"), (2, "file", "attr"), (3, "mem", "zero_extra"), (3, "file", "none"), (2, "mem", "zero_attr"))]),
       descr="externally supplied overviews: layers go to side-car names <name>, <name>.ovr, <name>.ovr.ovr in order with no overviews computed, one copy with copy_src_overviews from the full-resolution side-car to the destination, block sizes per the rule, nodata (zero included), overview block size, overwrite guard",
       functions=("odc.geo.cog._rio.write_cog_layers", "odc.geo.cog._rio._memfiles_ovr", "odc.geo.cog._rio._write_cog", "odc.geo.cog._rio.check_write_path"),
       bounds="height, width, block sizes symbolic; 1..3 layers; destination exists / overwrite and the size of the existing file symbolic", stubs=STUBS, **COMMON),
    Ob("Z4_front_layers", h_front_layers, fixed(dict(dest="file"), dict(dest="mem")), descr="write_cog / to_cog with overviews=: image first then the overviews in order, destination and every option handed to the layered writer",
       functions=("odc.geo.cog._rio.write_cog", "odc.geo.cog._rio.to_cog"), stubs=("write_cog_layers recorded",), **COMMON),
]
