"""C07 -- densification and the to_crs guards (narrow claim)."""
from __future__ import annotations

from fractions import Fraction as F

import z3

from .. import shims, symx
from ..runner import Ob, fixed, tiered
from ..symx import (And, Bool, Implies, Int, Not, Or, Real, assume, const, ex, ite, prove,
                    SymBool, rconst)

EXPLANATION = (
    "geom.densify / Geometry.segmented executed on symbolic vertices and resolution with shapely's LineString replaced "
    "by its contract (length^2 = dx^2+dy^2, interpolate(d) = p1 + (d/length)(p2-p1)): no edge of the result is longer "
    "than the resolution, original vertices are retained in order, added vertices lie on the original edges at "
    "multiples of the resolution; segmented() dispatch over geometry kinds on structural fakes; Geometry.to_crs guard "
    "logic on abstract CRS tags with the transformer stubbed."
)
ASSUMPTIONS = [
    "narrow claim: point-wise agreement of each vertex with PROJ, there-and-back precision inside valid areas and area/length as GEOS computes them are outside the solver's reach",
    "edge length <= K * resolution with K = 4 (quick) / 8 (thorough): the interpolation loop is unrolled by forking",
    "shapely LineString contract stub: length >= 0 with length^2 == dx^2 + dy^2; interpolate(d) for 0 <= d <= length is the point at distance d from the start",
    "floats as exact reals",
]


class FakeLine:
    def __init__(self, pts):
        (self.p1, self.p2) = pts
        self._len = None

    @property
    def length(self):
        if self._len is None:
            c = symx.ctx()
            c.fresh_n += 1
            l = z3.Real(f"_len{c.fresh_n}")
            dx = self.p2[0] - self.p1[0]
            dy = self.p2[1] - self.p1[1]
            c.add_axiom(z3.And(l >= 0, l * l == symx._z(dx * dx + dy * dy)))
            self._len = symx.SymReal(l)
        return self._len

    calls = 0
    limit = None

    def interpolate(self, d):
        FakeLine.calls += 1
        if FakeLine.limit is not None and FakeLine.calls > FakeLine.limit:
            raise _Diverges()
        l = self.length
        t = d / l
        pt = (self.p1[0] + t * (self.p2[0] - self.p1[0]), self.p1[1] + t * (self.p2[1] - self.p1[1]))

        class P:
            coords = [pt]

        return P()


class _Diverges(Exception):
    """the interpolation loop went past any number of steps a terminating run can need"""


class GeomShim:
    def __init__(self, real):
        self._real = real
        self.made = []

    def __getattr__(self, k):
        return getattr(self._real, k)

    def LineString(self, pts):
        pts = list(pts)
        if len(pts) == 2 and any(isinstance(v, symx.Sym) for p in pts for v in p):
            return FakeLine(pts)
        return self._real.LineString(pts)


def setup():
    shims.install_core()
    if symx.concrete_mode():
        return
    import odc.geo.geom as geom

    geom.geometry = GeomShim(geom.geometry)
    base = geom.base.BaseGeometry
    prev = geom.isinstance

    def isinst(x, cls):
        if isinstance(x, G) and (cls is base or (isinstance(cls, tuple) and base in cls)):
            return True
        return prev(x, cls)

    geom.isinstance = isinst


def d2(p, q):
    return (ex(p[0]) - ex(q[0])) ** 2 + (ex(p[1]) - ex(q[1])) ** 2


def h_densify_segment(K):
    import odc.geo.geom as geom

    x1, y1, x2, y2 = Real("x1"), Real("y1"), Real("x2"), Real("y2")
    r = Real("resolution")
    assume(r > 0)
    L2 = (x2 - x1) * (x2 - x1) + (y2 - y1) * (y2 - y1) if not symx.concrete_mode() else (F(x2) - F(x1)) ** 2 + (F(y2) - F(y1)) ** 2
    assume(L2 <= (K * K) * (ex(r) * ex(r)) if symx.concrete_mode() else L2 <= (K * K) * (r * r))
    out = geom.densify([(x1, y1), (x2, y2)], r)
    prove("first_is_start", And(ex(out[0][0]) == ex(x1), ex(out[0][1]) == ex(y1)))
    prove("last_is_end", And(ex(out[-1][0]) == ex(x2), ex(out[-1][1]) == ex(y2)))
    prove("at_most_K_plus_1_points", len(out) <= K + 2)
    r2 = ex(r) * ex(r)
    tol = F(1, 10**9) if symx.concrete_mode() else 0
    for k in range(len(out) - 1):
        prove(f"edge{k}_not_longer_than_resolution", d2(out[k], out[k + 1]) <= r2 * (1 + tol))
    # added vertices lie on the original edge, in order, at multiples of the resolution
    for k in range(1, len(out) - 1):
        px, py = ex(out[k][0]), ex(out[k][1])
        cross = (px - ex(x1)) * (ex(y2) - ex(y1)) - (py - ex(y1)) * (ex(x2) - ex(x1))
        if symx.concrete_mode():
            prove(f"pt{k}_on_the_edge", abs(cross) <= F(1, 10**6) * (1 + L2))
            prove(f"pt{k}_at_k_resolutions", abs(d2(out[k], (x1, y1)) - (k * k) * r2) <= F(1, 10**6) * (1 + (k * k) * r2))
        else:
            prove(f"pt{k}_on_the_edge", cross == 0)
            prove(f"pt{k}_at_k_resolutions", d2(out[k], (x1, y1)) == (k * k) * r2)


def h_densify_nonpositive():
    """a resolution that is not positive: densify returns or refuses (ValueError) -- it does not
    loop for ever (resolution 0 is what "auto" computes for a geometry without area)"""
    import odc.geo.geom as geom

    x1, y1, x2, y2 = Real("x1"), Real("y1"), Real("x2"), Real("y2")
    r = Real("resolution")
    assume(r <= 0)
    assume(Or(x1 != x2, y1 != y2))
    if symx.concrete_mode():
        import signal

        def on_alarm(*a):
            raise _Diverges()

        signal.signal(signal.SIGALRM, on_alarm)
        signal.alarm(5)
        try:
            geom.densify([(x1, y1), (x2, y2)], r)
        except ValueError:
            pass
        except _Diverges:
            prove("terminates_or_refuses", False)
        finally:
            signal.alarm(0)
        return
    FakeLine.calls, FakeLine.limit = 0, 8
    try:
        geom.densify([(x1, y1), (x2, y2)], r)
    except ValueError:
        pass
    except _Diverges:
        prove("terminates_or_refuses", False)
    finally:
        FakeLine.limit = None


def h_densify_three(K):
    import odc.geo.geom as geom

    pts = [(Real(f"x{i}"), Real(f"y{i}")) for i in range(3)]
    r = Real("resolution")
    assume(r > 0)
    for a, b in ((0, 1), (1, 2)):
        l2 = (pts[b][0] - pts[a][0]) * (pts[b][0] - pts[a][0]) + (pts[b][1] - pts[a][1]) * (pts[b][1] - pts[a][1])
        assume(l2 <= (K * K) * (r * r))
    out = geom.densify(list(pts), r)
    # original vertices retained in order: find them as a subsequence
    idx = []
    j = 0
    for p in pts:
        while j < len(out) and not (out[j][0] is p[0] and out[j][1] is p[1] if not symx.concrete_mode() else (out[j][0] == p[0] and out[j][1] == p[1])):
            j += 1
        idx.append(j)
        j += 1
    prove("original_vertices_retained_in_order", all(i < len(out) for i in idx) and idx[0] == 0 and idx[-1] == len(out) - 1)
    r2 = ex(r) * ex(r)
    tol = F(1, 10**9) if symx.concrete_mode() else 0
    for k in range(len(out) - 1):
        prove(f"edge{k}_not_longer_than_resolution", d2(out[k], out[k + 1]) <= r2 * (1 + tol))


# ---- D3: segmented() dispatch on structural fakes -----------------------------------------------------------
class G:
    """structural stand-in for a shapely geometry"""

    def __init__(self, geom_type, coords=None, geoms=None, exterior=None, interiors=()):
        self.geom_type = geom_type
        self.coords = coords
        self.geoms = geoms
        self.exterior = exterior
        self.interiors = list(interiors)


class MP(G):
    def __init__(self, parts):
        G.__init__(self, "MultiPolygon", geoms=list(parts))


class GC(G):
    def __init__(self, parts):
        G.__init__(self, "GeometryCollection", geoms=list(parts))


class LS(G):
    def __init__(self, coords):
        G.__init__(self, "LineString", coords=list(coords))


class LR(G):
    def __init__(self, coords):
        G.__init__(self, "LinearRing", coords=list(coords))


def h_densify_degenerate(n):
    """coordinate lists with no vertex (an empty LineString / ring: legal, and what reprojection
    without densification handles) or a single one: nothing to add, nothing to fail on"""
    import odc.geo.geom as geom

    r = Real("resolution")
    assume(r > 0)
    pts = [(Real(f"x{i}"), Real(f"y{i}")) for i in range(n)]
    try:
        out = geom.densify(pts, r)
    except (IndexError, ValueError, TypeError):
        prove("degenerate_coordinate_list_is_returned_as_it_is", False)
        return
    prove("degenerate_coordinate_list_is_returned_as_it_is", list(out) == pts)


def h_segmented_dispatch():
    import odc.geo.geom as geom
    from odc.geo.geom import Geometry

    if symx.concrete_mode():
        return _segmented_concrete()
    r = Real("resolution")
    assume(r > 0)
    calls = []
    real_densify = geom.densify

    def rec_densify(coords, resolution):
        calls.append((list(coords), resolution))
        return ["densified", list(coords)]

    made = []

    class GS(GeomShim):
        def Polygon(self, ext, holes):
            p = G("Polygon", exterior=ext, interiors=holes)
            made.append(p)
            return p

    clones = []
    geom.densify = rec_densify
    geom.geometry = GS(geom.geometry._real if isinstance(geom.geometry, GeomShim) else geom.geometry)
    geom._clone_shapely_geom = lambda g: (clones.append(g), ("clone", g))[1]
    try:
        ring = [(0.0, 0.0), (1.0, 0.0), (1.0, 1.0), (0.0, 0.0)]
        hole = [(0.1, 0.1), (0.2, 0.1), (0.2, 0.2), (0.1, 0.1)]
        pt = G("Point", coords=[(Real("px"), Real("py"))])
        line = LS([(Real("lx0"), Real("ly0")), (Real("lx1"), Real("ly1"))])
        poly = G("Polygon", exterior=LR(ring), interiors=[LR(hole)])
        coll = GC([pt, line, MP([poly])])
        # what shapely would report for the whole collection: not empty, some bounding box --
        # whose size relative to the resolution must not matter (an edge inside a box no wider
        # than the resolution can still be longer than it: the diagonal)
        coll.is_empty = False
        bx0, by0, bw, bh = Real("bounds_x0"), Real("bounds_y0"), Real("bounds_w"), Real("bounds_h")
        assume(And(bw >= 0, bh >= 0))
        coll.bounds = (bx0, by0, bx0 + bw, by0 + bh)
        g = Geometry.__new__(Geometry)
        g.geom, g.crs = coll, None
        out = g.segmented(r)
        res = out.geom
        prove("collection_type_preserved", type(res) is GC and len(res.geoms) == 3)
        prove("points_cloned_unchanged", res.geoms[0] == ("clone", pt) and clones == [pt])
        prove("line_type_preserved_and_densified", type(res.geoms[1]) is LS and res.geoms[1].coords == ["densified", line.coords])
        mp = res.geoms[2]
        prove("multipolygon_recursed", type(mp) is MP and len(mp.geoms) == 1 and mp.geoms[0] is made[0])
        prove("exterior_ring_densified", made[0].exterior == ["densified", ring])
        prove("interior_rings_densified", made[0].interiors == [["densified", hole]])
        prove("every_ring_uses_the_requested_resolution", all(c[1] is r for c in calls) and len(calls) == 3)
        prove("crs_kept", out.crs is None)
    finally:
        geom.densify = real_densify


def _segmented_concrete():
    """replay of the dispatch obligation on real shapely geometries"""
    import math

    import shapely.geometry as sg

    from odc.geo.geom import Geometry

    r0 = abs(Real("resolution"))
    r = max(min(r0, 10.0), 0.05)
    Real("px"), Real("py"), Real("lx0"), Real("ly0"), Real("lx1"), Real("ly1")
    if max(Real("bounds_w"), Real("bounds_h")) <= r0:
        r = 10.5  # the model's geometry fits a resolution-sized box: so does this one (10 x 10); its diagonal line and the diagonal edge of its hole do not
    # the hole's longest edge (11.3) is its closing one, longer than every resolution replayed
    poly = sg.Polygon([(0, 0), (10, 0), (10, 10), (0, 10), (0, 0)], [[(9, 9), (9, 1), (1, 1), (9, 9)]])
    coll = sg.GeometryCollection([sg.Point(1, 1), sg.LineString([(0, 0), (10, 10)]), sg.MultiPolygon([poly])])
    out = Geometry(coll, None).segmented(r).geom

    def edges_ok(coords):
        cs = list(coords)
        return all(math.dist(a, b) <= r * (1 + 1e-9) for a, b in zip(cs[:-1], cs[1:]))

    prove("collection_type_preserved", out.geom_type == "GeometryCollection" and len(out.geoms) == 3)
    prove("points_cloned_unchanged", out.geoms[0].equals(sg.Point(1, 1)))
    prove("line_type_preserved_and_densified", out.geoms[1].geom_type == "LineString" and edges_ok(out.geoms[1].coords))
    mp = out.geoms[2]
    prove("multipolygon_recursed", mp.geom_type == "MultiPolygon" and len(mp.geoms) == 1)
    prove("exterior_ring_densified", edges_ok(mp.geoms[0].exterior.coords))
    prove("interior_rings_densified", len(mp.geoms[0].interiors) == 1 and edges_ok(mp.geoms[0].interiors[0].coords))


# ---- D4: to_crs guards ------------------------------------------------------------------------------------------
def setup_tocrs():
    from . import c01

    c01.setup()


def h_to_crs(resmode, wrap=False):
    import odc.geo.geom as geom_mod
    from odc.geo.geom import Geometry

    from . import c01

    ts, tt = c01.Tag("src"), c01.Tag("dst", allow_none=False)
    c01.axioms([ts, tt])
    conc = symx.concrete_mode()
    g = c01.mk_geom("a", ts)
    seg_calls = []
    proj_calls = []
    if not conc:
        if resmode in ("np.float32", "np.int64", "int"):
            # a finite resolution in another numeric type than float (what numpy arithmetic hands out)
            import numpy as _np

            res_val = {"np.float32": _np.float32(0.5), "np.int64": _np.int64(2), "int": 2}[resmode]
        else:
            res_val = Real("resolution") if resmode == "finite" else (float("inf") if resmode == "inf" else None)
        if resmode == "finite":
            assume(res_val > 0)

        def fake_segmented(self, resolution):
            seg_calls.append(resolution)
            o = Geometry.__new__(Geometry)
            o.geom, o.crs = c01.Shape("segmented"), self.crs
            return o

        def fake__to_crs(self, crs):
            proj_calls.append((self, crs))
            o = Geometry.__new__(Geometry)
            o.geom, o.crs = c01.Shape("projected"), crs
            return o

        chop_calls = []

        def fake_chop(g_, precision=0.1):
            chop_calls.append(g_)
            o = Geometry.__new__(Geometry)
            o.geom, o.crs = c01.Shape("chopped"), g_.crs
            return o

        saved = (Geometry.segmented, Geometry._to_crs, geom_mod.chop_along_antimeridian, geom_mod.clip_lon180)
        Geometry.segmented, Geometry._to_crs = fake_segmented, fake__to_crs
        geom_mod.chop_along_antimeridian, geom_mod.clip_lon180 = fake_chop, (lambda g_, tol=1e-4: g_)
    else:
        import numpy as _np

        res_val = {"finite": 0.5, "inf": float("inf"), "none": None, "np.float32": _np.float32(0.5), "np.int64": _np.int64(2), "int": 2}[resmode]
    sm = c01.same(ts, tt)
    try:
        try:
            out = g.to_crs(tt.crs, resolution=res_val, wrapdateline=wrap)
        except ValueError:
            prove("refused_only_without_crs", ts.is_none)
            return
        if ts.is_none:
            prove("geometry_without_crs_refused", False)
            return
        if (sm if not isinstance(sm, symx.Sym) else bool(sm)):
            prove("same_crs_returns_the_very_same_object", out is g)
            if not conc:
                prove("nothing_projected_or_densified", not seg_calls and not proj_calls)
            return
        prove("result_tagged_with_target_crs", out.crs is tt.crs or out.crs == tt.crs)
        if conc:
            prove("type_preserved", out.geom_type == g.geom_type)
            if resmode in ("finite", "np.float32", "np.int64", "int"):
                prove("densified_before_projecting", len(out.exterior.coords) > len(g.exterior.coords))
            else:
                prove("vertex_count_kept", len(out.exterior.coords) == len(g.exterior.coords))
            return
        prove("projected_exactly_once_into_the_target", len(proj_calls) == 1 and proj_calls[0][1] is tt.crs)
        chopped = bool(chop_calls)
        if chopped:
            # the date-line branch (only for a geographic target): what is chopped is the geometry
            # to be projected -- the densified one when a finite resolution was requested
            prove("chopped_only_for_wrapdateline_into_a_geographic_crs", wrap and len(chop_calls) == 1)
            prove("the_chopped_geometry_is_what_gets_projected", proj_calls[0][0].geom.name == "chopped")
            operand = chop_calls[0]
        else:
            operand = proj_calls[0][0]
        if resmode in ("finite", "np.float32", "np.int64", "int"):
            prove("densified_before_projecting", seg_calls == [res_val] and operand.geom.name == "segmented")
        else:
            prove("not_densified_without_finite_resolution", seg_calls == [] and operand is g)
    finally:
        if not conc:
            Geometry.segmented, Geometry._to_crs, geom_mod.chop_along_antimeridian, geom_mod.clip_lon180 = saved


OBLIGATIONS = [
    Ob("D1_densify_segment", h_densify_segment, tiered([dict(K=4)], [dict(K=4), dict(K=8)]),
       descr="densify on one edge: endpoints kept, every edge of the result <= resolution, inserted vertices on the edge at k*resolution from the start",
       functions=("odc.geo.geom.densify",), bounds="endpoints and resolution symbolic reals, edge length <= K*resolution", stubs=("LineString length/interpolate contract",), setup=setup, fresh_only=True, timeout_ms=60000),
    *([Ob("D1_degenerate_list", h_densify_degenerate, fixed(dict(n=0), dict(n=1)), descr="densify of an empty coordinate list (empty LineString / ring) or a single vertex returns it unchanged instead of failing",
          functions=("odc.geo.geom.densify",), setup=setup)] if True else []),
    Ob("D1_nonpositive_resolution", h_densify_nonpositive, fixed(), descr="densify with a resolution <= 0 returns or raises ValueError (no endless interpolation loop)",
       functions=("odc.geo.geom.densify",), bounds="endpoints symbolic and distinct, resolution symbolic <= 0; 'does not terminate' = more than 8 interpolation steps on one edge in the symbolic run (each step adds resolution <= 0 to a distance that must exceed the edge length to stop), 5 s alarm in the replay",
       stubs=("LineString length/interpolate contract",), setup=setup, fresh_only=True, timeout_ms=60000),
    Ob("D2_densify_three", h_densify_three, tiered([dict(K=2)], [dict(K=2), dict(K=4)]), descr="three-vertex line: original vertices retained in order, every edge <= resolution",
       functions=("odc.geo.geom.densify",), bounds="three symbolic vertices, each edge <= K*resolution", stubs=("LineString contract",), setup=setup, fresh_only=True, timeout_ms=60000),
    Ob("D3_segmented_dispatch", h_segmented_dispatch, fixed(), descr="segmented(): points cloned, collections recursed, every polygon ring and line densified with the requested resolution, geometry type preserved",
       functions=("odc.geo.geom.Geometry.segmented",), stubs=("structural geometry fakes", "densify recorder"), setup=setup),
    Ob("D4_to_crs_guards", h_to_crs, fixed(dict(resmode="none"), dict(resmode="finite"), dict(resmode="inf"), dict(resmode="finite", wrap=True), dict(resmode="none", wrap=True), dict(resmode="np.float32"), dict(resmode="np.int64"), dict(resmode="int")),
       descr="to_crs: same CRS (any spelling) => the very same object; no CRS => ValueError; finite resolution => densified before projecting; result tagged with the target CRS",
       functions=("odc.geo.geom.Geometry.to_crs", "odc.geo.crs.norm_crs_or_error"), stubs=("abstract CRS tags", "segmented/_to_crs recorders"), setup=setup_tocrs),
]
