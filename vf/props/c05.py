"""C05 -- COG layout arithmetic, the real header builder on symbolic shapes, and the task-graph
construction of the parallel writer with dask/tifffile replaced by recorders."""
from __future__ import annotations

import itertools
from fractions import Fraction as F

from .. import shims, symx
from ..runner import Ob, fixed, tiered
from ..symx import (And, Bool, Implies, Int, Not, Or, Real, assume, const, ex, ite, prove,
                    rconst, m_max, m_min)

EXPLANATION = (
    "The integer arithmetic behind the COG layout is executed symbolically: block rounding (adjust_blocksize / "
    "norm_blocksize), overview count by halving (num_overviews), padded shape (compute_cog_spec incl. max_pad), the "
    "tile-index bijection and enumeration order of CogMeta (chunked, num_tiles, flat_tile_idx, tidx, cog_tidx), the "
    "offset/byte-count computation of _extract_tile_info from an observed (size, tile id) stream in a symbolic order, "
    "and the per-level GeoBoxes (cog_gbox / expand / shrink2 / zoom_to).  The real _make_empty_cog runs on symbolic "
    "image shapes with tifffile.TiffWriter recorded (L9), the announced tile grid is compared with the source block "
    "grid (L10), and save_cog_with_dask/_compress_tiles run with dask, the compressor, the pyramid reprojection and the "
    "sink replaced by recorders: task names, tile<->block pairing, write order (L11)."
)
ASSUMPTIONS = [
    "outside the claim: TIFF header bytes (tifffile), compression, dask's execution of the graph, decoding by independent readers; byte-stream assembly is C06",
    "image sides <= 2^20 where the overview loop is unrolled; tile counts <= 4 per axis and <= 3 planes where tiles are enumerated (case split)",
    "_extract_tile_info: <= 4 observed tiles with symbolic sizes >= 0 in a symbolic order (a permutation chosen by symbolic flags)",
    "L6 mirrors the level loop of _make_empty_cog on the real methods; L9 runs the real loop (image sides <= 200)",
    "L11: dask's tokenize is assumed to separate nothing (constant token): task names must be distinct by construction",
]


def setup():
    shims.install_core()
    if symx.concrete_mode():
        return
    import odc.geo.cog._shared as sh

    from .. import npmodel

    shims.instrument(sh)
    sh.np = npmodel._np_singleton


def shm():
    import odc.geo.cog._shared as sh

    return sh


def h_blocksize():
    sh = shm()
    blk, dim = Int("block", 1), Int("dim", 0)
    r = sh.adjust_blocksize(blk, dim)
    prove("multiple_of_16", And(r % 16 == 0, r >= 16))
    small = And(dim > 0, dim < blk)
    prove("image_smaller_than_block:align_up(dim,16)", And(r >= dim, r - dim < 16), when=small)
    prove("otherwise:align_up(block,16)", And(r >= blk, r - blk < 16), when=Not(small))
    b1, b2 = sh.norm_blocksize(blk)
    prove("norm_int_square", And(b1 == b2, b1 % 16 == 0, b1 >= blk, b1 - blk < 16))
    blk2 = Int("block2", 1)
    c1, c2 = sh.norm_blocksize((blk, blk2))
    prove("norm_pair", And(c1 % 16 == 0, c1 >= blk, c1 - blk < 16, c2 % 16 == 0, c2 >= blk2, c2 - blk2 < 16))


def h_num_overviews():
    sh = shm()
    b = Int("block", 1)
    dim = Int("dim", 0, 2**20)
    c = sh.num_overviews(b, dim)  # concrete on each path (the halving loop forks)
    p = 2**c
    prove("enough_halvings", dim // p <= b)
    if c > 0:
        prove("least_such_count", dim // (p // 2) > b)


def h_cog_spec(maxpad):
    sh = shm()
    ny, nx = Int("ny", 1, 2**12), Int("nx", 1, 2**12)
    # requested tile: symbolic multiple-of-anything in a small range (rounded by the code)
    # non-square requested tile: the per-axis overview counts pair image width with tile width and
    # image height with tile height (a mix-up only shows for non-square image AND tile)
    t = Int("tile_x", 1, 1024)
    t_y = Int("tile_y", 1, 1024)
    kw = {}
    if maxpad == "sym":
        mp = Int("max_pad", 0, 64)
        kw["max_pad"] = mp
    elif maxpad != "none":
        mp = int(maxpad)
        kw["max_pad"] = mp
    else:
        mp = None
    shape, tile, n = sh.compute_cog_spec((ny, nx), (t_y, t), **kw)
    prove("tile_multiple_of_16", And(tile.x % 16 == 0, tile.y % 16 == 0, tile.x >= t, tile.x - t < 16, tile.y >= t_y, tile.y - t_y < 16))
    n1 = sh.num_overviews(tile.x, nx)
    n2 = sh.num_overviews(tile.y, ny)
    prove("levels_is_max_over_axes", n == max(n1, n2))
    p = 2**n
    prove("padded_not_smaller", And(shape.x >= nx, shape.y >= ny))
    if mp is None:
        prove("padded_to_multiple_of_2^n", And(shape.x % p == 0, shape.y % p == 0))
        prove("padding_less_than_2^n", And(shape.x - nx < p, shape.y - ny < p))
        prove("n_halvings_exact", And((shape.x // p) * p == shape.x, (shape.y // p) * p == shape.y))
    else:
        prove("max_pad_honoured", And(shape.x - nx <= m_max(mp, 0) if not symx.concrete_mode() else shape.x - nx <= max(mp, 0), shape.y - ny <= (m_max(mp, 0) if not symx.concrete_mode() else max(mp, 0))), when=mp < p)
        prove("max_pad_zero_means_no_padding", And(shape.x == nx, shape.y == ny), when=mp == 0)
        prove("full_padding_when_allowed", And(shape.x % p == 0, shape.y % p == 0, shape.x - nx < p), when=mp >= p)


def mk_meta(axis, ny, nx, ty_, tx, ns, overviews=()):
    from odc.geo.cog._shared import CogMeta
    from odc.geo.types import shape_

    return CogMeta(axis, shape_((ny, nx)), shape_((ty_, tx)), ns, "uint8", 8, 1, overviews=tuple(overviews))


def h_tile_index(axis):
    ty_, tx = 16, 32
    ny, nx = Int("ny", 1, 4 * ty_), Int("nx", 1, 4 * tx)
    ns = Int("nsamples", 1, 3)
    m = mk_meta(axis, ny, nx, ty_, tx, ns)
    cy, cx = m.chunked.yx
    prove("chunked_is_ceil_div", And(cy * ty_ >= ny, (cy - 1) * ty_ < ny, cx * tx >= nx, (cx - 1) * tx < nx))
    planes = m.num_planes
    prove("planes", planes == (ns if axis == "SYX" else 1))
    prove("num_tiles", m.num_tiles == planes * cy * cx)
    # flat index: a bijection from (plane, y, x) onto [0, num_tiles), monotone in tidx() order
    p1, y1, x1 = Int("p1"), Int("y1"), Int("x1")
    p2, y2, x2 = Int("p2"), Int("y2"), Int("x2")
    inside1 = And(0 <= p1, p1 < planes, 0 <= y1, y1 < cy, 0 <= x1, x1 < cx)
    inside2 = And(0 <= p2, p2 < planes, 0 <= y2, y2 < cy, 0 <= x2, x2 < cx)
    assume(And(inside1, inside2))
    f1 = m.flat_tile_idx((p1, y1, x1))
    f2 = m.flat_tile_idx((p2, y2, x2))
    prove("in_range", And(0 <= f1, f1 < m.num_tiles))
    prove("injective", Or(f1 != f2, And(p1 == p2, y1 == y2, x1 == x2)))
    lex_lt = Or(p1 < p2, And(p1 == p2, Or(y1 < y2, And(y1 == y2, x1 < x2))))
    prove("monotone_in_enumeration_order", f1 < f2, when=lex_lt)


def h_tile_index_oob(axis):
    ty_, tx = 16, 32
    ny, nx = Int("ny", 1, 4 * ty_), Int("nx", 1, 4 * tx)
    ns = Int("nsamples", 1, 3)
    m = mk_meta(axis, ny, nx, ty_, tx, ns)
    cy, cx = m.chunked.yx
    p, y, x = Int("p"), Int("y"), Int("x")
    assume(Or(p < 0, p >= m.num_planes, y < 0, y >= cy, x < 0, x >= cx))
    try:
        m.flat_tile_idx((p, y, x))
    except IndexError:
        return
    prove("outside_raises_IndexError", False)


def h_tidx_enumeration(axis):
    """tidx() enumerates every tile exactly once in flat-index order (small tile counts, case split)"""
    ty_, tx = 16, 16
    ny, nx = Int("ny", 1, 2 * ty_), Int("nx", 1, 3 * tx)
    ns = Int("nsamples", 1, 2)
    m = mk_meta(axis, ny, nx, ty_, tx, ns)
    idxs = [tuple(int(v) for v in t) for t in m.tidx()]
    nt = m.num_tiles
    prove("count", len(idxs) == nt)
    flats = [m.flat_tile_idx(t) for t in idxs]
    prove("flat_index_order", flats == list(range(len(idxs))))
    if axis == "SYX":
        one = [tuple(int(v) for v in t) for t in m.tidx(0)]
        prove("single_plane_enumeration", one == [t for t in idxs if t[0] == 0])


def h_cog_tidx():
    """write order: overview levels reversed so the smallest comes first, every tile once"""
    ny, nx = Int("ny", 1, 64), Int("nx", 1, 64)
    o2 = mk_meta("YX", (ny + 3) // 4, (nx + 3) // 4, 16, 16, 1)
    o1 = mk_meta("YX", (ny + 1) // 2, (nx + 1) // 2, 16, 16, 1)
    m = mk_meta("YX", ny, nx, 16, 16, 1, overviews=(o1, o2))
    order = [tuple(int(v) for v in t) for t in m.cog_tidx()]
    levels = [t[0] for t in order]
    prove("overviews_precede_full_resolution", levels == sorted(levels, reverse=True))
    total = m.num_tiles + o1.num_tiles + o2.num_tiles
    prove("every_tile_of_every_level_once", And(len(order) == total, len(set(order)) == len(order)) if not isinstance(total, symx.Sym) else And(len(order) == total, len(set(order)) == len(order)))
    prove("smallest_level_first", order[0][0] == 2)


def h_extract_tile_info(n):
    """observed stream of n tiles of one level (2x2 tiles) + sizes in a symbolic order"""
    import odc.geo.cog._tifffile as tf

    m = mk_meta("YX", 32, 32, 16, 16, 1)
    ids = [(0, 0, 0, 0), (0, 0, 0, 1), (0, 0, 1, 0), (0, 0, 1, 1)][:n]
    # a symbolic permutation: case split over a symbolic index
    perms = list(itertools.permutations(range(n)))
    k = Int("perm", 0, len(perms) - 1)
    k = k.__index__() if isinstance(k, symx.Sym) else k
    perm = perms[k]
    sizes = [Int(f"size{i}", 0) for i in range(n)]
    start = Int("start_offset", 0)
    tiles = [(*ids[i], sizes[i]) for i in perm]
    info = tf._extract_tile_info(m, tiles, start)
    prove("one_entry_per_level", len(info) == 1)
    offsets, lengths = info[0]
    prove("arrays_sized_num_tiles", len(offsets) == 4 and len(lengths) == 4)
    pos = start
    extents = []
    for i in perm:
        fi = m.flat_tile_idx(ids[i][1:])
        sz = sizes[i]
        prove(f"tile{i}_length", lengths[fi] == sz)
        prove(f"tile{i}_offset_is_prefix_sum_in_observed_order", Or(sz == 0, offsets[fi] == pos))
        prove(f"tile{i}_empty_is_(0,0)", Or(sz != 0, And(offsets[fi] == 0, lengths[fi] == 0)))
        extents.append((pos, sz))
        pos = pos + sz
    for j in range(n, 4):
        prove(f"unobserved{j}_is_(0,0)", offsets[j] == 0 and lengths[j] == 0)
    for (a, sa), (b, sb) in itertools.combinations(extents, 2):
        prove("non_empty_extents_disjoint", Or(sa == 0, sb == 0, a + sa <= b, b + sb <= a))


def h_patch_hdr(n, levels):
    """_patch_hdr: what is written into the TileOffsets / TileByteCounts tags of every page: the
    n observed tiles (sizes symbolic, order symbolic, overview tiles and full-resolution tiles
    mixed) lie back to back after the header in observed order -- the first one written directly
    behind the header --, byte counts are the sizes"""
    import sys
    import types

    import odc.geo.cog._tifffile as tf

    m = mk_meta("YX", 32, 32, 16, 16, 1, overviews=[mk_meta("YX", 16, 16, 16, 16, 1)] if levels == 2 else ())
    mm = m.flatten()
    ids = ([(len(mm) - 1, 0, 0, 0)] if len(mm) > 1 else []) + [(0, 0, 0, 0), (0, 0, 0, 1), (0, 0, 1, 0), (0, 0, 1, 1)]
    ids = ids[:n]
    perms = list(itertools.permutations(range(n)))
    k = Int("perm", 0, len(perms) - 1)
    k = k.__index__() if isinstance(k, symx.Sym) else k
    perm = perms[k]
    sizes = [Int(f"size{i}", 0) for i in range(n)]
    HDR = 1000
    conc = symx.concrete_mode()
    written = {}

    class _Tag:
        def __init__(self, page, code):
            self.page, self.code = page, code

        def overwrite(self, value):
            written[(self.page, self.code)] = list(value) if not isinstance(value, (bytes, str)) else value

    class _Page:
        def __init__(self, i):
            self.tags = {324: _Tag(i, 324), 325: _Tag(i, 325)}

    class _Pages(list):
        @property
        def first(self):
            return self[0]

    class _TF:
        def __init__(self, fh, mode=None, name=None):
            self.pages = _Pages(_Page(i) for i in range(len(mm)))

        def __enter__(self):
            return self

        def __exit__(self, *a):
            return False

    stub = types.ModuleType("tifffile")
    stub.TiffFile, stub.TiffPage = _TF, _Page
    saved = sys.modules.get("tifffile")
    sys.modules["tifffile"] = stub
    try:
        tiles = [(sizes[i], ids[i]) for i in perm]
        out = tf._patch_hdr(tiles, m, b"h" * HDR)
    finally:
        if saved is None:
            sys.modules.pop("tifffile", None)
        else:
            sys.modules["tifffile"] = saved
    prove("header_bytes_returned", isinstance(out, bytes) and len(out) == HDR)
    prove("both_tags_of_every_page_written", set(written) == {(i, c) for i in range(len(mm)) for c in (324, 325)})
    pos = HDR
    for i in perm:
        lvl = ids[i][0]
        fi = mm[lvl].flat_tile_idx(ids[i][1:])
        sz = sizes[i]
        prove(f"tile{i}_byte_count", written[(lvl, 325)][fi] == sz)
        prove(f"tile{i}_offset_is_header_plus_what_was_written_before", written[(lvl, 324)][fi] == pos, when=sz > 0)
        pos = pos + sz


def h_level_geoboxes(nlevels):
    """cog_gbox pads to the right/bottom only; each level halves the shape exactly, doubles the
    pixel size and keeps the origin"""
    from affine import Affine

    import odc.geo.geobox as gbx

    sh = shm()
    a, b, c, d, e, f = (Real(k) for k in "abcdef")
    assume(a * e - b * d != 0)
    ny, nx = Int("ny", 1), Int("nx", 1)
    g = gbx.GeoBox((ny, nx), Affine(a, b, c, d, e, f), None)
    g0 = sh.cog_gbox(g, nlevels=nlevels)
    p = 2**nlevels
    prove("padded_shape", And(g0.shape.x % p == 0, g0.shape.x >= nx, g0.shape.x - nx < p, g0.shape.y % p == 0, g0.shape.y >= ny, g0.shape.y - ny < p))
    i, j = Real("i"), Real("j")
    w0 = g0.pix2wld(i, j)
    w = g.pix2wld(i, j)
    prove("expanded_to_the_right_and_bottom_only", And(ex(w0[0]) == ex(w[0]), ex(w0[1]) == ex(w[1])))
    lvl = g0
    shp = g0.shape
    for k in range(1, nlevels + 1):
        shp = shp.shrink2()
        lvl = lvl.zoom_to(shp)
        s = 2**k
        prove(f"level{k}_exactly_half", And(lvl.shape.x * s == g0.shape.x, lvl.shape.y * s == g0.shape.y))
        wl = lvl.pix2wld(i, j)
        wo = g0.pix2wld(i * s, j * s)
        prove(f"level{k}_pixel_doubles_origin_fixed", And(ex(wl[0]) == ex(wo[0]), ex(wl[1]) == ex(wo[1])))


# ---- L9: the real header builder on symbolic image shapes -------------------------------------------------
class _TW:
    """tifffile.TiffWriter stand-in: records the page descriptions it is asked to write"""

    pages: list = []

    def __init__(self, buf, **kw):
        _TW.pages = []

    def write(self, data, *, shape, tile, **kw):
        _TW.pages.append(dict(shape=shape, tile=tile, kw=kw))

    def close(self):
        pass


def setup_tifffile():
    setup()
    if symx.concrete_mode():
        return
    import odc.geo.cog._tifffile as tf

    shims.instrument(tf)


def _empty_cog(shape, g, block, fn=None, stub_in_replay=False):
    """tf._make_empty_cog(shape, uint8, g, blocksize=block) with TiffWriter recorded and the
    GeoTIFF tag rendering (a rasterio round trip) stubbed; the replay runs it unstubbed"""
    import sys
    import types

    import odc.geo.cog._tifffile as tf

    conc = symx.concrete_mode() and not stub_in_replay
    seen_gbox = []
    if not conc:
        import tifffile as real_tifffile

        stub = types.ModuleType("tifffile")
        stub.__dict__.update({k: v for k, v in real_tifffile.__dict__.items() if not k.startswith("__") or k in ("__spec__", "__file__", "__path__", "__version__")})
        stub.TiffWriter = _TW
        saved_mod, saved_meta = sys.modules["tifffile"], tf.geotiff_metadata
        sys.modules["tifffile"] = stub

        def fake_meta(gbox, nodata=None, gdal_metadata=None):
            seen_gbox.append(gbox)
            return [], {}

        tf.geotiff_metadata = fake_meta
    try:
        meta, _ = (fn or tf._make_empty_cog)(shape, "uint8", g, blocksize=block)
    finally:
        if not conc:
            sys.modules["tifffile"], tf.geotiff_metadata = saved_mod, saved_meta
    return meta, seen_gbox


def h_tile_sources(ax, block):
    """every full-resolution tile the header announces has a source block to be compressed from:
    the tile grid of the (padded) level-0 image equals the block grid of the image re-chunked to
    the tile size (_compress_tiles builds one task per announced tile, reading block (y, x))"""
    if not symx.concrete_mode():
        # the real _compress_tiles on long thin images (dask stand-ins incl. dask.array.pad): the
        # block grid of the array handed to the graph is the announced tile grid
        return h_graph(ax, "wide")
    import odc.geo.cog._tifffile as tf
    import odc.geo.geobox as gbx
    from affine import Affine

    ny, nx = Int("ny", 1, 4096), Int("nx", 1, 4096)
    ns = 3
    shape = {"YX": (ny, nx), "YXS": (ny, nx, ns), "SYX": (2, ny, nx)}[ax]
    if ax == "SYX":
        assume(Not(And(ny == 2, nx == 2)))
    g = gbx.GeoBox((ny, nx), Affine(rconst(10), 0.0, rconst(0), 0.0, rconst(-10), rconst(0)), "epsg:3857")
    meta, _ = _empty_cog(shape, g, block)
    if not symx.concrete_mode():
        ty, tx = meta.tile.y, meta.tile.x
        ch = meta.chunked
        # dask contract: an axis of length N re-chunked to c has ceil(N / c) blocks
        prove("every_level0_tile_has_a_source_block", And(ch.y == (ny + ty - 1) // ty, ch.x == (nx + tx - 1) // tx))
        return
    # replay on the real graph builder (dask): every task's source block key is in the graph
    import dask.base
    import dask.core

    if not hasattr(dask.base, "quote"):  # environment shim: this dask release moved quote
        dask.base.quote = dask.core.quote
    from odc.geo.xr import xr_zeros

    xx = xr_zeros(g, dtype="uint8", chunks=(128, 128))
    if ax == "YXS":
        import xarray as xr

        xx = xr.concat([xx] * ns, dim="band").transpose("y", "x", "band")
    elif ax == "SYX":
        import xarray as xr

        xx = xr.concat([xx] * 2, dim="band")
    bag = tf._compress_tiles(xx, meta)
    graph = dict(bag.__dask_graph__())
    missing = [t[2] for k, t in graph.items() if isinstance(k, tuple) and str(k[0]).startswith("compress") and t[2] not in graph]
    prove("every_level0_tile_has_a_source_block", not missing)


def h_make_empty_cog(ax, block):
    """_make_empty_cog itself (TiffWriter recorded, GeoTIFF tag rendering stubbed) for every image
    shape incl. single-row / single-column images and images smaller than a tile: it returns, the
    padded shape follows the layout rule, every overview is exactly half of the previous level,
    and the per-level GeoBoxes keep the origin and double the pixel"""
    import sys
    import types

    import odc.geo.cog._tifffile as tf
    import odc.geo.geobox as gbx
    from affine import Affine

    sh = shm()
    ny, nx = Int("ny", 1, 200), Int("nx", 1, 200)
    ns = 3
    shape = {"YX": (ny, nx), "YXS": (ny, nx, ns), "SYX": (2, ny, nx)}[ax]
    if ax == "SYX":
        assume(Not(And(ny == 2, nx == 2)))  # (2,2,2) with a 2x2 GeoBox reads either way
    g = gbx.GeoBox((ny, nx), Affine(rconst(10), 0.0, Real("c"), 0.0, rconst(-10), Real("f")), "epsg:3857")
    conc = symx.concrete_mode()
    meta, seen_gbox = _empty_cog(shape, g, block)
    want_shape, want_tile, n = sh.compute_cog_spec((ny, nx), sh.norm_blocksize(block))
    levels = meta.flatten()
    prove("one_level_per_overview", len(levels) == n + 1)
    prove("padded_shape_from_layout_rule", And(meta.shape.x == want_shape.x, meta.shape.y == want_shape.y))
    p = 2 ** int(n)
    prove("padding", And(meta.shape.x % p == 0, meta.shape.x >= nx, meta.shape.x - nx < p, meta.shape.y % p == 0, meta.shape.y >= ny, meta.shape.y - ny < p))
    i, j = Real("i"), Real("j")
    for k, m in enumerate(levels):
        s_ = 2**k
        prove(f"level{k}_exactly_half", And(m.shape.x * s_ == meta.shape.x, m.shape.y * s_ == meta.shape.y, m.shape.x >= 1, m.shape.y >= 1))
        prove(f"level{k}_tile_multiple_of_16", And(m.tile.x % 16 == 0, m.tile.y % 16 == 0, m.tile.x >= 16, m.tile.y >= 16))
        prove(f"level{k}_layout", And(m.axis == ax, m.nsamples == {"YX": 1, "YXS": ns, "SYX": 2}[ax]))
        prove(f"level{k}_gbox_shape", And(m.gbox.shape.x == m.shape.x, m.gbox.shape.y == m.shape.y))
        wl, wo = m.gbox.pix2wld(i, j), g.pix2wld(i * s_, j * s_)
        if conc:
            prove(f"level{k}_gbox_maps", And(abs(ex(wl[0]) - ex(wo[0])) <= F(1, 10**6) * (1 + abs(ex(wo[0]))), abs(ex(wl[1]) - ex(wo[1])) <= F(1, 10**6) * (1 + abs(ex(wo[1])))))
        else:
            prove(f"level{k}_gbox_maps", And(ex(wl[0]) == ex(wo[0]), ex(wl[1]) == ex(wo[1])))
    if conc:
        return
    prove("one_page_per_level", len(_TW.pages) == len(levels))
    for k, (pg, m) in enumerate(zip(_TW.pages, levels)):
        want = {"YX": (m.shape.y, m.shape.x), "YXS": (m.shape.y, m.shape.x, ns), "SYX": (2, m.shape.y, m.shape.x)}[ax]
        prove(f"page{k}_shape", And(len(pg["shape"]) == len(want), *[a == b for a, b in zip(pg["shape"], want)]))
        prove(f"page{k}_tile", And(pg["tile"][0] == m.tile.y, pg["tile"][1] == m.tile.x))
        prove(f"page{k}_kind", ("extratags" in pg["kw"]) == (k == 0) and ("subfiletype" in pg["kw"]) == (k > 0))
    prove("geotags_from_padded_geobox", len(seen_gbox) == 1 and bool(And(seen_gbox[0].shape.x == meta.shape.x, seen_gbox[0].shape.y == meta.shape.y)))


# ---- L11/L12: the task graph construction with dask replaced by recorders -------------------------------
class _FakeDask:
    """what _compress_tiles / save_cog_with_dask read of a dask array: shape, chunk grid, name, rechunk"""

    n = 0

    def __init__(self, shape, chunksize, name=None, chunks=None):
        _FakeDask.n += 1
        self.shape, self.chunksize = tuple(shape), tuple(chunksize)
        self.name = name or f"src{_FakeDask.n}"
        self.ndim = len(self.shape)
        self.dtype = "uint8"
        self._chunks = chunks  # explicit (possibly irregular) chunk table; chunksize is its per-axis maximum

    @property
    def chunks(self):
        if self._chunks is not None:
            return self._chunks
        out = []
        for N, c in zip(self.shape, self.chunksize):
            k = int((N + c - 1) // c)
            out.append(tuple([c] * (k - 1) + [N - c * (k - 1)]))
        return tuple(out)

    def rechunk(self, chunks):
        return _FakeDask(self.shape, chunks, name=f"rechunk({self.name})")


_LAST_DEPS: dict = {}


class _FakeBag:
    def __init__(self, dsk, name, npartitions):
        self.dsk, self.name, self.npartitions = dsk, name, npartitions
        self.members = [self]

    def repartition(self, npartitions):
        b = _FakeBag(self.dsk, self.name, npartitions)
        b.members = self.members
        return b


def _dask_stubs():
    """sys.modules entries for the dask pieces the graph builders import at call time"""
    import sys
    import types

    import dask  # the real package stays importable (have.check_or_error)

    bag = types.ModuleType("dask.bag")
    bag.Bag = _FakeBag

    def concat(bags):
        b = _FakeBag(None, "concat", sum(x.npartitions for x in bags))
        b.members = [m for x in bags for m in x.members]
        return b

    bag.concat = concat
    base = types.ModuleType("dask.base")
    base.quote = lambda x: x
    base.tokenize = lambda *a, **k: "TOKEN"  # worst case: the token separates nothing
    hlg = types.ModuleType("dask.highlevelgraph")

    class HighLevelGraph:
        @staticmethod
        def from_collections(name, dsk, dependencies=()):
            _LAST_DEPS[name] = list(dependencies)
            return dsk

    hlg.HighLevelGraph = HighLevelGraph
    arr = types.ModuleType("dask.array")

    def pad(a, pad_width, mode="constant", constant_values=0):
        # dask.array.pad contract: every axis grows by its (before, after) widths
        assert mode == "constant"
        new_shape = tuple(n + b + e for n, (b, e) in zip(a.shape, pad_width))
        out = _FakeDask(new_shape, a.chunksize, name=f"pad({a.name})")
        out.pad_value = constant_values
        out.pad_before = tuple(b for b, _ in pad_width)
        return out

    arr.pad = pad
    mods = {"dask.bag": bag, "dask.base": base, "dask.highlevelgraph": hlg, "dask.array": arr}
    saved = {k: sys.modules.get(k) for k in mods}
    saved_attr = {k.split(".")[1]: getattr(dask, k.split(".")[1], None) for k in mods}
    sys.modules.update(mods)
    for k, m in mods.items():
        setattr(dask, k.split(".")[1], m)

    def restore():
        for k, v in saved.items():
            if v is None:
                sys.modules.pop(k, None)
            else:
                sys.modules[k] = v
        for a, v in saved_attr.items():
            if v is None:
                if hasattr(dask, a):
                    delattr(dask, a)
            else:
                setattr(dask, a, v)

    return restore


class _XX:
    """the DataArray as the writers see it"""

    def __init__(self, data, gbox, ydim):
        self.data, self.shape, self.dtype = data, data.shape, "uint8"
        self.odc = _ODC(gbox, ydim)


class _ODC:
    nodata = None

    def __init__(self, gbox, ydim):
        self.geobox, self.ydim = gbox, ydim


def h_graph(ax, mode):
    """save_cog_with_dask / _compress_tiles with dask, tifffile and the sink replaced by recorders:
    task names are distinct per (level, plane); task i of a bag compresses source block (plane, y, x)
    of tile i in tile-index order and is labelled (level, plane, y, x); in the order handed to the
    part writer every overview tile precedes every full-resolution tile, smaller levels first"""
    import odc.geo._interop as interop
    import odc.geo.cog._tifffile as tf
    import odc.geo.geobox as gbx
    from affine import Affine

    wide = mode == "wide"  # long thin images: the layout's padding can add whole rows of tiles
    ny, nx = (Int("ny", 1, 48), Int("nx", 1, 400)) if wide else (Int("ny", 1, 64), Int("nx", 1, 64))
    ns = {"YX": 1, "YXS": 3, "SYX": 3 if mode != "single_chunk" else 2}[ax]
    shape = {"YX": (ny, nx), "YXS": (ny, nx, ns), "SYX": (ns, ny, nx)}[ax]
    if ax == "SYX":
        assume(Not(And(ny == ns, nx == ny)))
    # the padding defect listed as a known finding (L10) is not this obligation's subject: inside
    # these bounds (sides <= 64, 16-pixel tiles) the pad (<= 4) never crosses a tile boundary
    g = gbx.GeoBox((ny, nx), Affine(rconst(10), 0.0, rconst(0), 0.0, rconst(-10), rconst(0)), "epsg:3857")
    if ax == "SYX":
        src_chunks = (ns if mode == "single_chunk" else 1, 16, 16)
    elif ax == "YXS":
        src_chunks = (16, 16, ns)
    else:
        src_chunks = (16, 16)
    if mode == "band_chunked":  # Y,X,S source chunked along the sample axis too
        src_chunks = (16, 16, 1)
    default_blocksize = mode.startswith("default_blocksize")
    if default_blocksize:
        # no blocksize given: the tile sizes come from the chunk sizes of the data -- also for
        # one-pixel chunks (the only chunking a 1x1 image has; legal for any single row/column)
        c_ = int(mode.rsplit("_", 1)[1])
        assume(And(ny <= 2 * c_ + 1, nx <= 3 * c_)) if c_ < 8 else None
        src_chunks = {"YX": (c_, c_), "YXS": (c_, c_, ns), "SYX": (1, c_, c_)}[ax]
    data = _FakeDask(shape, src_chunks)
    xx = _XX(data, g, 1 if ax == "SYX" else 0)
    if mode == "irregular_chunks":
        # chunk table with the tile size as its MAXIMUM but not regular: (16, 8, 16) rows of a 40-row image
        assume(And(ny == 40, nx == 16))
        tab = {"YX": ((16, 8, 16), (16,)), "YXS": ((16, 8, 16), (16,), (ns,)), "SYX": ((1,) * ns, (16, 8, 16), (16,))}[ax]
        data = _FakeDask(shape, src_chunks, chunks=tab)
        xx = _XX(data, g, 1 if ax == "SYX" else 0)
    restore = _dask_stubs()
    saved = (tf._mk_tile_compressor, tf._pyramids_from_cog_metadata, interop.is_dask_collection, tf.MPUFileSink, tf.mpu_write, tf.ODCExtensionDa if hasattr(tf, "ODCExtensionDa") else None)
    sink = {}
    import sys
    import types

    xr_stub = types.ModuleType("odc.geo.xr")
    xr_stub.ODCExtensionDa = _ODC
    saved_xr = sys.modules.get("odc.geo.xr")
    sys.modules["odc.geo.xr"] = xr_stub
    import odc.geo as og

    saved_og_xr = getattr(og, "xr", None)
    og.xr = xr_stub
    try:
        tf._mk_tile_compressor = lambda meta, sample_idx=0: ("encoder", sample_idx)

        def pyramids(xx_, meta, resampling="nearest"):
            out = [xx_]
            for mm in meta.overviews:
                sh_ = {"YX": mm.shape.yx, "YXS": (*mm.shape.yx, ns), "SYX": (ns, *mm.shape.yx)}[ax]
                ch_ = {"YX": mm.tile.yx, "YXS": (*mm.tile.yx, ns), "SYX": (src_chunks[0], *mm.tile.yx)}[ax]
                out.append(_XX(_FakeDask(sh_, ch_), mm.gbox, xx_.odc.ydim))
            return tuple(out)

        tf._pyramids_from_cog_metadata = pyramids
        interop.is_dask_collection = lambda x: True
        tf.MPUFileSink = lambda dst, parts_base=None: "sink"

        def fake_mpu_write(chunks, write, mk_header=None, user_kw=None, **kw):
            sink["order"] = chunks
            sink["meta"] = user_kw["meta"]
            return "delayed"

        tf.mpu_write = fake_mpu_write
        meta_holder = {}
        orig_empty = tf._make_empty_cog

        def empty(shape_, dtype, gbox=None, **kw):
            kw = {k: v for k, v in kw.items() if k in ("blocksize",)}
            m, _ = _empty_cog(shape_, gbox, kw["blocksize"], fn=orig_empty, stub_in_replay=True)
            meta_holder["meta"] = m
            return m, memoryview(b"")

        tf._make_empty_cog = empty
        try:
            if default_blocksize:
                r = tf.save_cog_with_dask(xx, "/out/file.tif", stats=False)
            else:
                r = tf.save_cog_with_dask(xx, "/out/file.tif", blocksize=16, stats=False)
        finally:
            tf._make_empty_cog = orig_empty
    finally:
        tf._mk_tile_compressor, tf._pyramids_from_cog_metadata, interop.is_dask_collection, tf.MPUFileSink, tf.mpu_write = saved[:5]
        restore()
        if saved_xr is None:
            sys.modules.pop("odc.geo.xr", None)
        else:
            sys.modules["odc.geo.xr"] = saved_xr
        if saved_og_xr is not None:
            og.xr = saved_og_xr
    prove("returns_the_writer_task", r == "delayed")
    meta = sink["meta"]
    levels = meta.flatten()
    bags = [m for b in sink["order"] for m in b.members]
    planes = ns if ax == "SYX" else 1
    prove("one_bag_per_level_and_plane", len(bags) == len(levels) * planes)
    names = [b.name for b in bags]
    prove("task_names_distinct", len(set(names)) == len(names))
    seq = []
    for b in bags:
        keys = sorted(b.dsk)
        prove(f"{b.name}:partitions_numbered_from_0", [k[1] for k in keys] == list(range(len(keys))) and all(k[0] == b.name for k in keys))
        tasks = [b.dsk[k] for k in keys]
        lvl, pl = tasks[0][3][0], tasks[0][3][1]
        seq.append((lvl, pl))
        m = levels[lvl]
        want = list(m.tidx(pl if ax == "SYX" else None))
        prove(f"{b.name}:one_task_per_tile_in_tile_order", [t[3][1:] for t in tasks] == [tuple(w) for w in want] and all(t[3][0] == lvl for t in tasks))
        ok = True
        for t in tasks:
            _, enc, block, (l_, s_, y_, x_) = t
            if ax == "YX":
                ok = ok and block[1:] == (y_, x_)
            elif ax == "YXS":
                ok = ok and block[1:] == (y_, x_, s_)
            elif mode == "single_chunk":
                ok = ok and block[1:] == (0, y_, x_)
            else:
                ok = ok and block[1:] == (s_, y_, x_)
            ok = ok and enc == ("encoder", pl if ax == "SYX" else 0)
        prove(f"{b.name}:reads_the_block_of_its_tile", ok)
    # the blocks the tasks read are tile-shaped: block (y, x) of the array handed to the graph IS tile (y, x)
    import sys as _sys

    hlg_deps = _sys.modules.get("dask.highlevelgraph")
    for b in bags:
        keys = sorted(b.dsk)
        lvl = b.dsk[keys[0]][3][0]
        m = levels[lvl]
        (src_arr,) = _LAST_DEPS.get(b.name, [None])
        yd = 1 if ax == "SYX" else 0
        if src_arr is None:
            prove(f"{b.name}:source_blocks_are_the_tiles", False)
            continue
        rows = src_arr.chunks[yd]
        k_ = len(rows)
        prove(f"{b.name}:source_blocks_are_the_tiles", And(k_ == m.chunked.y, *[rows[i_] == m.tile.y for i_ in range(k_ - 1)], rows[-1] == src_arr.shape[yd] - m.tile.y * (k_ - 1)))
        cols = src_arr.chunks[yd + 1]
        kc = len(cols)
        prove(f"{b.name}:source_block_columns_are_the_tiles", And(kc == m.chunked.x, *[cols[i_] == m.tile.x for i_ in range(kc - 1)], cols[-1] == src_arr.shape[yd + 1] - m.tile.x * (kc - 1)))
        if ax == "YXS":
            prove(f"{b.name}:all_samples_of_a_pixel_in_one_block", tuple(src_arr.chunks[2]) == (ns,))
    # write order: overviews (smallest first) before full resolution
    lv = [l_ for l_, _ in seq]
    prove("overviews_before_full_resolution_smallest_first", lv == sorted(lv, reverse=True))
    prove("every_level_and_plane_once", sorted(seq) == sorted((l_, p_) for l_ in range(len(levels)) for p_ in range(planes)))


def h_cog_gbox_tile():
    import odc.geo.geobox as gbx
    from affine import Affine

    sh = shm()
    ny, nx = Int("ny", 1, 2**12), Int("nx", 1, 2**12)
    g = gbx.GeoBox((ny, nx), Affine(rconst(10), 0.0, Real("c"), 0.0, rconst(-10), Real("f")), None)
    t = Int("tile", 1, 64) * 16
    g0 = sh.cog_gbox(g, tile=t)
    shape, tile, n = sh.compute_cog_spec((ny, nx), (t, t))
    prove("shape_from_layout_rule", And(g0.shape.x == shape.x, g0.shape.y == shape.y))
    prove("same_grid", And(ex(g0.affine.c) == ex(g.affine.c), ex(g0.affine.f) == ex(g.affine.f), ex(g0.affine.a) == 10))


def h_yaxis(case):
    import odc.geo.geobox as gbx
    from affine import Affine

    sh = shm()
    ny, nx = Int("ny", 1), Int("nx", 1)  # any image size, images 3 or 4 pixels wide included
    g = gbx.GeoBox((ny, nx), Affine(rconst(10), 0.0, Real("c"), 0.0, rconst(-10), Real("f")), None)
    if case == "2d":
        prove("YX", sh.yaxis_from_shape((ny, nx)) == ("YX", 0))
    elif case == "rgb":
        ns = Int("ns", 3, 4)
        prove("YXS_for_3_or_4_trailing_samples", sh.yaxis_from_shape((ny, nx, ns)) == ("YXS", 0))
        prove("YXS_for_3_or_4_trailing_samples_with_geobox", sh.yaxis_from_shape((ny, nx, ns), g) == ("YXS", 0))
    elif case == "syx_nogbox":
        ns = Int("ns", 1)
        assume(And(nx != 3, nx != 4))  # without a GeoBox a trailing 3/4 reads as RGB(A) by convention
        prove("SYX_without_geobox", sh.yaxis_from_shape((ns, ny, nx)) == ("SYX", 1))
    elif case == "yxs_gbox":
        ns = Int("ns", 1)
        prove("YXS_when_leading_dims_match_geobox", sh.yaxis_from_shape((ny, nx, ns), g) == ("YXS", 0))
    elif case == "syx_gbox":
        ns = Int("ns", 1)
        assume(Or(ns != ny, ny != nx))  # otherwise both readings match the GeoBox
        r = sh.yaxis_from_shape((ns, ny, nx), g)
        prove("SYX_when_only_trailing_dims_match_geobox", r == ("SYX", 1))
    elif case == "bad":
        ns = Int("ns", 5)
        m1, m2 = Int("m1", 5), Int("m2", 5)
        assume(And(ny >= 5, nx >= 5))
        assume(And(Or(m1 != ny, m2 != nx), Or(ns != ny, m1 != nx)))
        try:
            sh.yaxis_from_shape((ns, m1, m2), g)
        except ValueError:
            pass
        else:
            prove("mismatch_raises", False)
        try:
            sh.yaxis_from_shape((ny,))
        except ValueError:
            return
        prove("1d_raises", False)


AX = ["YX", "YXS", "SYX"]

def _xh_custom(param, tier):
    from ..xh import run

    return run.run_twins(param, tier)


def _xh_replay(param, model):
    from ..xh import run

    return run.replay_twin(param, model)


# ---- L12: the per-tile encoder, for every compression --------------------------------------------
class _Blk:
    """a numpy block stand-in: shape, dimension count, padding record, raw-bytes view"""

    def __init__(self, shape, pads=None, src=None, via=()):
        self.shape, self.pads, self.src, self.via = tuple(shape), pads, src if src is not None else self, via

    @property
    def ndim(self):
        return len(self.shape)

    @property
    def data(self):
        return _Raw(self)

    def __getitem__(self, idx):
        # band selection of an SYX block: (k, :, :)
        assert isinstance(idx, tuple) and idx[1:] == (slice(None), slice(None))
        return _Blk(self.shape[1:], self.pads, self.src, self.via + (("plane", idx[0]),))


class _Raw(bytes):
    """bytes(block.data): the raw bytes of a block"""

    def __new__(cls, blk):
        o = bytes.__new__(cls, b"<raw>")
        o.blk = blk
        return o

    def __bytes__(self):
        return self


class _NPpad:
    ndarray = _Blk

    def __getattr__(self, k):
        import numpy as real_np

        return getattr(real_np, k)

    @staticmethod
    def pad(block, pad, mode, constant_values=None):
        return _Blk([s_ + a + b for s_, (a, b) in zip(block.shape, pad)], (tuple(pad), mode, constant_values), block.src, block.via)


def h_tile_compressor(axis, comp):
    """_mk_tile_compressor(meta, plane)(block): what goes into the file for one tile is a bytes
    object encoding the block padded on the right/bottom to the tile shape -- for every
    compression, "none" included (tifffile registers the identity function for it)"""
    import types

    import odc.geo.cog._tifffile as tf

    if symx.concrete_mode():
        import numpy as np
        import tifffile

        h, w = int(Int("bh", 1, 16)), int(Int("bw", 1, 16))
        ns = 1 if axis == "YX" else 3
        from odc.geo.cog._shared import CogMeta
        from odc.geo.types import Shape2d

        meta = CogMeta(axis, Shape2d(x=16, y=16), Shape2d(x=16, y=16), ns, np.dtype("int16"), int(getattr(tifffile.COMPRESSION, {"none": "NONE", "deflate": "ADOBE_DEFLATE", "zstd": "ZSTD"}[comp])), 1)
        shape = (h, w) if axis == "YX" else ((h, w, ns) if axis == "YXS" else (ns, h, w))
        block = (np.arange(int(np.prod(shape))).reshape(shape) * 3 + 1).astype("int16")
        enc = tf._mk_tile_compressor(meta, 1 if axis == "SYX" else 0)
        out = enc(block)
        prove("tile_is_a_bytes_object", isinstance(out, (bytes, bytearray)))
        if not isinstance(out, (bytes, bytearray)):
            return
        want = block[1] if axis == "SYX" else block
        full = np.zeros((16, 16) + ((ns,) if axis == "YXS" else ()), dtype="int16")
        full[:h, :w] = want
        dec = bytes(out) if comp == "none" else tifffile.TIFF.DECOMPRESSORS[meta.compression](bytes(out))
        prove("tile_decodes_to_the_padded_block", np.array_equal(np.frombuffer(dec, dtype="int16").reshape(full.shape), full))
        return
    bh, bw = Int("bh", 1, 4096), Int("bw", 1, 4096)
    th, tw = Int("th", 16, 4096), Int("tw", 16, 4096)
    assume(And(bh <= th, bw <= tw))
    ns = 1 if axis == "YX" else 3
    shape = (bh, bw) if axis == "YX" else ((bh, bw, ns) if axis == "YXS" else (ns, bh, bw))
    blk = _Blk(shape)
    calls = []

    def codec(b, **kw):
        calls.append(b)
        return b"<encoded>"

    identity = lambda b, **kw: b  # noqa: E731  (tifffile.TIFF.COMPRESSORS[COMPRESSION.NONE])
    table = {1: identity, 8: codec, 50000: codec}
    code = {"none": 1, "deflate": 8, "zstd": 50000}[comp]
    import sys

    import tifffile as real_tifffile

    from odc.geo.cog._shared import CogMeta
    from odc.geo.types import Shape2d

    meta = CogMeta(axis, Shape2d(x=tw, y=th), Shape2d(x=tw, y=th), ns, "int16", code, 1)
    stub = types.ModuleType("tifffile")
    stub.__dict__.update({k: v for k, v in real_tifffile.__dict__.items() if not k.startswith("__") or k in ("__spec__", "__file__", "__path__", "__version__")})
    stub.TIFF = types.SimpleNamespace(COMPRESSORS=table, PREDICTORS={1: None, 2: None})
    saved = (sys.modules["tifffile"], tf.np)
    sys.modules["tifffile"] = stub
    tf.np = _NPpad()
    try:
        enc = tf._mk_tile_compressor(meta, 1 if axis == "SYX" else 0)
        out = enc(blk)
    finally:
        sys.modules["tifffile"], tf.np = saved
    if comp == "none":
        prove("tile_is_a_bytes_object", isinstance(out, (bytes, bytearray)))
        tile = out.blk if isinstance(out, _Raw) else None
    else:
        prove("tile_is_a_bytes_object", out == b"<encoded>" and len(calls) == 1)
        tile = calls[0] if calls else None
    if not isinstance(tile, _Blk):
        return
    want_shape = (th, tw) + ((ns,) if axis == "YXS" else ())
    prove("encoded_block_has_the_tile_shape", len(tile.shape) == len(want_shape) and And(*[a == b for a, b in zip(tile.shape, want_shape)]))
    prove("encoded_block_is_the_callers", tile.src is blk and tile.via == ((("plane", 1),) if axis == "SYX" else ()))
    if tile.pads is not None:
        pads = tile.pads[0]
        prove("padding_on_the_right_and_bottom_only", And(*[a == 0 for a, _ in pads]))


OBLIGATIONS = [
    Ob("L1_blocksize", h_blocksize, fixed(), descr="adjust_blocksize / norm_blocksize: multiples of 16, >= requested block unless the image is smaller (then align_up(dim,16))",
       functions=("odc.geo.cog._shared.adjust_blocksize", "odc.geo.cog._shared.norm_blocksize"), bounds="block >= 1, dim >= 0 symbolic", setup=setup),
    Ob("L2_num_overviews", h_num_overviews, fixed(), descr="num_overviews(b, dim): the least c with dim // 2^c <= b", functions=("odc.geo.cog._shared.num_overviews",),
       bounds="block >= 1 symbolic, 0 <= dim <= 2^20 (loop unrolled by forking)", setup=setup),
    Ob("L3_cog_spec", h_cog_spec, fixed(dict(maxpad="none"), dict(maxpad="0"), dict(maxpad="sym")), descr="compute_cog_spec: tile multiple of 16, levels = max over axes, padded shape >= original, < original + 2^n, divisible by 2^n; max_pad honoured",
       functions=("odc.geo.cog._shared.compute_cog_spec", "odc.geo.math.align_down_pow2"), bounds="image sides 1..4096, requested tile 1..1024, max_pad None / 0 / symbolic 0..64", setup=setup, timeout_ms=20000),
    Ob("L4_tile_index", h_tile_index, fixed(*[dict(axis=a) for a in AX]), descr="CogMeta: chunked = ceil division, num_tiles, flat_tile_idx a monotone bijection onto [0, num_tiles)",
       functions=("odc.geo.cog._shared.CogMeta.chunked", "odc.geo.cog._shared.CogMeta.num_tiles", "odc.geo.cog._shared.CogMeta.flat_tile_idx"), bounds="tile counts <= 4 per axis, planes <= 3, two symbolic tile ids", setup=setup),
    Ob("L4_tile_index_oob", h_tile_index_oob, fixed(*[dict(axis=a) for a in AX]), descr="flat_tile_idx outside raises IndexError", functions=("odc.geo.cog._shared.CogMeta.flat_tile_idx",), setup=setup),
    Ob("L4_tidx_enumeration", h_tidx_enumeration, fixed(*[dict(axis=a) for a in AX]), descr="tidx() enumerates every tile exactly once in flat-index order",
       functions=("odc.geo.cog._shared.CogMeta.tidx",), bounds="<= 2x3 tiles, <= 2 planes (case split)", stubs=("np.ndindex with case-split bounds",), setup=setup),
    Ob("L7_cog_tidx_order", h_cog_tidx, fixed(), descr="cog_tidx(): all overview tiles precede full-resolution tiles, smallest level first, every tile once",
       functions=("odc.geo.cog._shared.CogMeta.cog_tidx",), bounds="image sides 1..64 with two overview levels (case split)", setup=setup),
    Ob("L8_yaxis_from_shape", h_yaxis, fixed(*[dict(case=c) for c in ("2d", "rgb", "syx_nogbox", "yxs_gbox", "syx_gbox", "bad")]),
       descr="yaxis_from_shape: axis order (YX / YXS / SYX) from the array shape and the GeoBox", functions=("odc.geo.cog._shared.yaxis_from_shape",), bounds="dims symbolic >= 5 (3/4 for RGB(A))", setup=setup),
    Ob("L5_extract_tile_info", h_extract_tile_info, tiered([dict(n=n) for n in (1, 2, 3)], [dict(n=n) for n in (1, 2, 3, 4)]),
       descr="_extract_tile_info: offsets = start + prefix sums in observed order, lengths = sizes, empty tiles (0,0), non-empty extents pairwise disjoint",
       functions=("odc.geo.cog._tifffile._extract_tile_info",), bounds="<= 4 observed tiles, symbolic sizes >= 0, symbolic observation order, symbolic start offset", setup=setup),
    Ob("L6_level_geoboxes", h_level_geoboxes, tiered([dict(nlevels=n) for n in (1, 2)], [dict(nlevels=n) for n in (1, 2, 3, 5)]),
       descr="cog_gbox(nlevels): padded right/bottom only; each level exactly half the previous, pixel size doubles with the origin fixed",
       functions=("odc.geo.cog._shared.cog_gbox", "odc.geo.geobox.GeoBox.expand", "odc.geo.types.Shape2d.shrink2", "odc.geo.geobox.GeoBox.zoom_to"), bounds="fully symbolic affine and shape; level count from grid", setup=setup, timeout_ms=20000),
    Ob("L5_patch_hdr", h_patch_hdr, tiered([dict(n=3, levels=1), dict(n=2, levels=2)], [dict(n=n, levels=l) for n in (1, 2, 3, 4) for l in (1, 2)]),
       descr="_patch_hdr: TileOffsets = header size + bytes written before the tile in observed order (the first tile sits directly behind the header), TileByteCounts = sizes, for every page",
       functions=("odc.geo.cog._tifffile._patch_hdr", "odc.geo.cog._tifffile._extract_tile_info"), bounds="<= 4 observed tiles over one or two levels, sizes >= 0 and observation order symbolic; header of 1000 bytes",
       stubs=("tifffile.TiffFile recorder (tag overwrite recorded)",), setup=setup),
    Ob("L9_make_empty_cog", h_make_empty_cog, tiered([dict(ax="YX", block=16), dict(ax="SYX", block=32), dict(ax="YXS", block=16)], [dict(ax=a, block=b) for a in ("YX", "YXS", "SYX") for b in (16, 32, 64)]),
       descr="_make_empty_cog on every image shape (single-row/column and narrower-than-a-tile included): returns; padded shape per layout rule; overviews exactly half; per-level GeoBoxes; one page per level with the level's shape and tile",
       functions=("odc.geo.cog._tifffile._make_empty_cog", "odc.geo.cog._shared.compute_cog_spec", "odc.geo.types.Shape2d.shrink2", "odc.geo.geobox.GeoBox.zoom_to", "odc.geo.geobox.GeoBox.expand"),
       bounds="image sides 1..200, block from grid (16/32/64), layouts YX / YXS(3) / SYX(2)", stubs=("tifffile.TiffWriter recorder", "geotiff_metadata (rasterio round trip) recorder"), setup=setup_tifffile, timeout_ms=20000),
    Ob("L10_tile_sources", h_tile_sources, tiered([dict(ax="YX", block=16)], [dict(ax=a, block=16) for a in ("YX", "YXS", "SYX")]),
       descr="long thin images (the layout's padding adds whole rows or columns of tiles): the real save_cog_with_dask / _compress_tiles hand the graph an array whose block grid is the announced tile grid, one task per announced tile reading the block of that tile",
       functions=("odc.geo.cog._tifffile.save_cog_with_dask", "odc.geo.cog._tifffile._compress_tiles", "odc.geo.cog._tifffile._make_empty_cog", "odc.geo.cog._shared.CogMeta.chunked"),
       bounds="image 1..48 x 1..400 pixels symbolic, 16-pixel tiles (the padding crosses a tile boundary from 5 overview levels on)", stubs=("tifffile.TiffWriter recorder", "geotiff_metadata recorder", "dask stand-ins incl. dask.array.pad (every axis grows by its pad widths) and rechunk (ceil(N/c) blocks per axis); the replay builds the real dask graph"),
       setup=setup_tifffile, timeout_ms=20000, deadline_s=900.0),
    Ob("L11_task_graph", h_graph, fixed(dict(ax="YX", mode="x"), dict(ax="YXS", mode="x"), dict(ax="SYX", mode="per_plane"), dict(ax="SYX", mode="single_chunk"), dict(ax="YX", mode="irregular_chunks"), dict(ax="YXS", mode="irregular_chunks"), dict(ax="YXS", mode="band_chunked"), dict(ax="YX", mode="default_blocksize_1"), dict(ax="YX", mode="default_blocksize_16"), dict(ax="SYX", mode="default_blocksize_2")),
       descr="save_cog_with_dask/_compress_tiles: distinct task names per (level, plane), task i compresses the source block of tile i, tiles labelled (level, plane, y, x); write order = overviews smallest first, then full resolution",
       functions=("odc.geo.cog._tifffile.save_cog_with_dask", "odc.geo.cog._tifffile._compress_tiles", "odc.geo.cog._shared.CogMeta.tidx"),
       bounds="image sides 1..64 (symbolic), 16-pixel tiles, layouts YX / YXS(3) / SYX(3 planes, or 2 in one chunk); dask token assumed to separate nothing (constant)",
       stubs=("dask.bag / dask.base / dask.highlevelgraph recorders", "tifffile.TiffWriter recorder", "_pyramids_from_cog_metadata (reprojection) replaced by shapes from the header metadata", "MPUFileSink/mpu_write recorder (byte assembly is C06)", "tile compressor replaced by a tag"),
       setup=setup_tifffile, timeout_ms=20000),
    Ob("X_crosshair_twins", None, tiered([], [dict(per_condition_timeout=20, module="twins_c04")]), custom=_xh_custom, custom_replay=_xh_replay,
       descr="second engine (thorough tier): CrossHair 0.0.110 on contract twins of adjust_blocksize, num_overviews (and Tiles.locate / region, which it does not confirm: float ceil); 'Confirmed over all paths' recorded, 'Not confirmed' ignored, a counterexample replayed",
       functions=("odc.geo.cog._shared.adjust_blocksize", "odc.geo.cog._shared.num_overviews", "odc.geo.roi.Tiles.locate"), bounds="CrossHair's own path exploration, 20 s per condition"),
    Ob("L12_tile_compressor", h_tile_compressor, fixed(*[dict(axis=a, comp=c) for a in AX for c in ("none", "deflate", "zstd")]),
       descr="the per-tile encoder built for every compression (none included: tifffile registers the identity for it): a bytes object encoding the caller's block (its own plane for band-first images), padded on the right/bottom to the tile shape",
       functions=("odc.geo.cog._tifffile._mk_tile_compressor", "odc.geo.cog._tifffile._cog_block_compressor_yxs", "odc.geo.cog._tifffile._cog_block_compressor_syx"),
       bounds="block and tile sizes symbolic (block <= tile <= 4096), three axis orders, three compressions", stubs=("block stand-in (shape, padding record, raw view)", "tifffile codec table: identity for none, a recording codec otherwise; the replay uses tifffile's own codecs"), setup=setup_tifffile),
    Ob("L6_cog_gbox_tile", h_cog_gbox_tile, fixed(), descr="cog_gbox(tile=): shape from the layout rule, grid unchanged", functions=("odc.geo.cog._shared.cog_gbox",), setup=setup, timeout_ms=20000),
]
