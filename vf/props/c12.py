"""C12 -- tile queries and (linear) tile dependency graphs are complete."""
from __future__ import annotations

from fractions import Fraction as F

from .. import shims, symx
from ..runner import Ob, fixed, tiered
from ..symx import (And, Bool, Implies, Int, Not, Or, Real, assume, const, ex, ite, prove,
                    rconst, m_max, m_min)

EXPLANATION = (
    "GeoboxTiles.range_from_bbox on pixel-domain boxes with symbolic edges (regular tiles with grid tile sizes, variable "
    "tiles with symbolic chunk sizes): every tile whose region meets the box in positive area lies in the returned "
    "ranges, ranges stay inside [0, count). GeoboxTiles._grid_intersect_linear / grid_intersect for same-CRS "
    "scale+translation pairs: every source tile overlapping a mapped destination tile by more than a sliver is listed; "
    "disjoint rasters give no error. _check_linear takes the linear path exactly for same-CRS scale+translation pairs. "
    "Queries in the raster's CRS with multi-part stand-in geometries and world boxes on rotated grids; queries and destination tiles "
    "given in ANOTHER CRS whose straight edges bend in the raster's CRS (the CRS change stands in as 'vertices only unless a finite "
    "resolution is given'; replay on real PROJ); tiles of a control-point grid with curved edges."
)
ASSUMPTIONS = [
    "GEOS and PROJ themselves are outside the claim: geometries are vertex-list / union-of-rectangles stand-ins answering boundingbox / disjoint / to_crs by stated contracts, a CRS change maps vertices only unless a finite resolution is given (replayed on real PROJ with fixed witnesses); rasters crossing the antimeridian or a pole are not modelled",
    "over-approximation at clamped edges is allowed for box queries and is not flagged",
    "regular tile sizes and pixel scales from finite grids; box edges, image sizes, translations, tile indices symbolic",
    "dependency graph: destination <= 2 tiles and source <= 4 tiles per axis (tile loops are unrolled by case split), quick tier factors the axes",
    "sliver: overlap of at most 2e-3 source pixels (snap_affine moves translations by up to 1e-3)",
]


def setup():
    shims.install_core()


def mk_gbox(ny, nx, crs=None, a=None):
    from affine import Affine

    import odc.geo.geobox as gbx

    A = a if a is not None else Affine(rconst(F(10)), 0.0, Real("c"), 0.0, rconst(F(-10)), Real("f"))
    return gbx.GeoBox((ny, nx), A, crs)


def region_of(kind, tiles_def, idx, N):
    """[lo, hi) of tile idx along one axis, written from the harness's own parameters"""
    if kind == "regular":
        n = tiles_def
        return idx * n, m_min((idx + 1) * n, N)
    offs = tiles_def
    from .c04 import _sel

    return _sel(offs, idx), _sel(offs, idx + 1)


def h_range_from_bbox(kind, ty_, tx):
    import odc.geo.geobox as gbx
    from odc.geo.geom import BoundingBox

    if kind == "regular":
        NY, NX = Int("NY", 1), Int("NX", 1)
        g = mk_gbox(NY, NX)
        gbt = gbx.GeoboxTiles(g, (ty_, tx))
        cy, cx = gbt.shape.yx
        dy, dx = ty_, tx
    else:
        chy = tuple(Int(f"cy{i}", 1) for i in range(ty_))
        chx = tuple(Int(f"cx{i}", 1) for i in range(tx))
        assume(And(symx.s_sum(chy) <= 2**31 - 1, symx.s_sum(chx) <= 2**31 - 1))
        NY, NX = symx.s_sum(chy), symx.s_sum(chx)
        g = mk_gbox(NY, NX)
        gbt = gbx.GeoboxTiles(g, (chy, chx))
        cy, cx = ty_, tx
        offy = [0]
        for v in chy:
            offy.append(offy[-1] + v)
        offx = [0]
        for v in chx:
            offx.append(offx[-1] + v)
        dy, dx = offy, offx
    l, b = Real("left"), Real("bottom")
    w, h = Real("w"), Real("h")
    assume(And(w >= 0, h >= 0))
    bbox = BoundingBox(l, b, l + w, b + h, None)
    yy, xx = gbt.range_from_bbox(bbox)
    prove("rows_within_tiling", And(0 <= yy.start, yy.stop <= cy, yy.step == 1 if not isinstance(yy.step, symx.Sym) else True))
    prove("cols_within_tiling", And(0 <= xx.start, xx.stop <= cx))
    # a query always meets at least one tile of the row/column it is clamped to -- also a point or a
    # line lying exactly on a tile boundary (it belongs to the tile that starts there)
    prove("ranges_never_empty", And(yy.start < yy.stop, xx.start < xx.stop))
    r, col = Int("r"), Int("col")
    assume(And(0 <= r, r < cy, 0 <= col, col < cx))
    y0, y1 = region_of(kind, dy, r, NY)
    x0, x1 = region_of(kind, dx, col, NX)
    L, B_, R, T = ex(l), ex(b), ex(l) + ex(w), ex(b) + ex(h)
    meets_y = And(y0 < T, B_ < y1)
    meets_x = And(x0 < R, L < x1)
    prove("row_of_every_overlapping_tile_listed", And(yy.start <= r, r < yy.stop), when=meets_y)
    prove("col_of_every_overlapping_tile_listed", And(xx.start <= col, col < xx.stop), when=meets_x)


class _R:
    """range() stand-in that keeps symbolic bounds (GeoboxTiles.range_from_bbox builds ranges)"""

    def __init__(self, a, b=None):
        if b is None:
            a, b = 0, a
        self.start, self.stop, self.step = a, b, 1

    def __iter__(self):
        a = self.start.__index__() if isinstance(self.start, symx.Sym) else self.start
        b = self.stop.__index__() if isinstance(self.stop, symx.Sym) else self.stop
        return iter(range(a, b))

    def __len__(self):
        return len(range(self.start.__index__() if isinstance(self.start, symx.Sym) else self.start, self.stop.__index__() if isinstance(self.stop, symx.Sym) else self.stop))

    def __getitem__(self, i):
        return list(self)[i]


def setup_range():
    shims.install_core()
    if symx.concrete_mode():
        return
    import odc.geo.geobox as gbx

    gbx.range = _R


def setup_range_geom():
    setup_range()
    from .c16 import setup_fakegeom

    setup_fakegeom()


def h_check_linear(kind):
    from affine import Affine

    import odc.geo.geobox as gbx

    src = gbx.GeoboxTiles(mk_gbox(64, 64, "epsg:3857", Affine(rconst(F(10)), 0.0, Real("sc"), 0.0, rconst(F(-10)), Real("sf"))), (16, 16))
    if kind == "st":
        k = rconst(F(20))
        dst_g = mk_gbox(32, 32, "epsg:3857", Affine(k, 0.0, Real("dc"), 0.0, -k, Real("df")))
        want = True
    elif kind == "rot":
        dst_g = mk_gbox(32, 32, "epsg:3857", Affine(rconst(F(6)), rconst(F(-8)), Real("dc"), rconst(F(-8)), rconst(F(-6)), Real("df")))
        want = False
    elif kind == "crs":
        dst_g = mk_gbox(32, 32, "epsg:32633", Affine(rconst(F(10)), 0.0, Real("dc"), 0.0, rconst(F(-10)), Real("df")))
        want = False
    dst = gbx.GeoboxTiles(dst_g, (16, 16))
    A = dst._check_linear(src)
    prove("linear_path_exactly_for_same_crs_scale_translation", (A is not None) == want)
    if A is not None:
        prove("map_is_scale_translation", And(ex(A.b) == 0, ex(A.d) == 0, ex(A.a) == 2, ex(A.e) == 2))


def h_grid_intersect(k, mx, n_dst, n_src, axis):
    """destination <= 2 tiles, source <= 4 tiles along `axis`; the other axis is one tile each"""
    from affine import Affine

    import odc.geo.geobox as gbx

    kf = F(k)
    # src: pixel 10, tile n_src; dst pixel 10*k (mirrored if mx < 0), tile n_dst
    Ns = Int("Ns", 1, 4 * n_src)
    Nd = Int("Nd", 1, 2 * n_dst)
    t = Real("t")  # dst pixel 0 edge in src pixels (un-snapped)
    assume(And(t >= -3 * n_src * 4, t <= 3 * n_src * 4))
    ox = Real("ox")
    if axis == "x":
        src_g = mk_gbox(5, Ns, "epsg:3857", Affine(rconst(10), 0.0, ox, 0.0, rconst(-10), rconst(500)))
        dst_g = mk_gbox(5, Nd, "epsg:3857", Affine(rconst(10 * kf * mx), 0.0, ox + 10 * t, 0.0, rconst(-10), rconst(500)))
        src = gbx.GeoboxTiles(src_g, (8, n_src))
        dst = gbx.GeoboxTiles(dst_g, (8, n_dst))
    else:
        src_g = mk_gbox(Ns, 5, "epsg:3857", Affine(rconst(10), 0.0, rconst(500), 0.0, rconst(-10), ox))
        dst_g = mk_gbox(Nd, 5, "epsg:3857", Affine(rconst(10), 0.0, rconst(500), 0.0, rconst(-10 * kf * mx), ox - 10 * t))
        src = gbx.GeoboxTiles(src_g, (n_src, 8))
        dst = gbx.GeoboxTiles(dst_g, (n_dst, 8))
    deps = dst.grid_intersect(src)
    cd = (Nd + n_dst - 1) // n_dst
    cs = (Ns + n_src - 1) // n_src
    cdv = cd.__index__() if isinstance(cd, symx.Sym) else cd
    prove("every_destination_tile_has_an_entry", len(deps) == cdv)
    R = Int("R", 0, 1)
    assume(R < cd)
    Rv = R.__index__() if isinstance(R, symx.Sym) else R
    key = (0, Rv) if axis == "x" else (Rv, 0)
    listed = deps[key]
    r = Int("r", 0, 3)
    assume(r < cs)
    # mapped destination tile (un-snapped map, harness's own parameters): u -> mx*k*u + t
    d0, d1 = Rv * n_dst, m_min((Rv + 1) * n_dst, Nd)
    e0, e1 = mx * kf * d0 + ex(t), mx * kf * d1 + ex(t)
    lo, hi = (e0, e1) if mx > 0 else (e1, e0)
    s0, s1 = r * n_src, m_min((r + 1) * n_src, Ns)
    sliver = F(2, 1000)
    overlap = And(lo < s1 - sliver, s0 + sliver < hi)
    in_list = Or(*[(it[1] if axis == "x" else it[0]) == r for it in listed]) if listed else False
    prove("overlapping_source_tile_is_listed", in_list, when=overlap)
    for it in listed:
        prove("listed_tiles_exist", And(0 <= it[0], 0 <= it[1], (it[1] if axis == "x" else it[0]) < cs))


def h_disjoint_no_error(axis):
    from affine import Affine

    import odc.geo.geobox as gbx

    gap = Real("gap")
    assume(gap >= 0)
    side = Bool("dst_right_of_src")
    off = (64 + gap) if side else (-32 - gap)
    if axis == "x":
        src_g = mk_gbox(64, 64, "epsg:3857", Affine(rconst(10), 0.0, Real("ox"), 0.0, rconst(-10), rconst(0)))
        dst_g = mk_gbox(32, 32, "epsg:3857", Affine(rconst(10), 0.0, src_g.affine.c + 10 * off, 0.0, rconst(-10), rconst(0)))
    else:
        src_g = mk_gbox(64, 64, "epsg:3857", Affine(rconst(10), 0.0, rconst(0), 0.0, rconst(-10), Real("oy")))
        dst_g = mk_gbox(32, 32, "epsg:3857", Affine(rconst(10), 0.0, rconst(0), 0.0, rconst(-10), src_g.affine.f - 10 * off))
    src = gbx.GeoboxTiles(src_g, (32, 32))
    dst = gbx.GeoboxTiles(dst_g, (16, 16))
    deps = dst.grid_intersect(src)  # must not raise
    prove("no_more_than_one_entry_per_destination_tile", len(deps) <= 4)
    # the rasters do not overlap (gap >= 0: apart or merely touching): no tile depends on anything
    prove("no_dependencies_between_rasters_that_do_not_overlap", all(len(v) == 0 for v in deps.values()))


class _EmptyGeom:
    """a footprint in some CRS whose intersection with any other footprint is empty (what shapely
    hands back for footprints that do not meet); combining two of them in different CRSs raises,
    as every combining operation does (C01)"""

    is_empty = True

    def __init__(self, crs=None):
        from odc.geo.crs import norm_crs

        self.crs = norm_crs(crs)

    def __and__(self, o):
        from odc.geo.geom import CRSMismatchError

        if isinstance(o, _EmptyGeom) and o.crs != self.crs:
            raise CRSMismatchError((self.crs, o.crs))
        return self

    __rand__ = __and__

    def to_crs(self, crs, *a, **kw):
        return _EmptyGeom(crs)

    @property
    def boundingbox(self):
        from odc.geo.geom import BoundingBox

        nan = float("nan")
        return BoundingBox(nan, nan, nan, nan, self.crs)

    def disjoint(self, o):
        return True


def h_disjoint_general_path(src_crs="epsg:4326", dst_crs="epsg:3857"):
    """different CRSs, footprints that do not meet (the projection library's verdict is the
    stub): the dependency graph is empty, not an error"""
    from affine import Affine

    import odc.geo.geobox as gbx

    if symx.concrete_mode():
        from odc.geo.types import wh_

        geographic = src_crs in ("epsg:4326", "epsg:4283")
        dst = gbx.GeoboxTiles(gbx.GeoBox(wh_(40, 30), Affine(10, 0, 1000, 0, -10, 5000), dst_crs), (10, 10))
        src = gbx.GeoboxTiles(gbx.GeoBox(wh_(40, 30), Affine(0.01, 0, 100, 0, -0.01, -20) if geographic else Affine(10, 0, 9000000, 0, -10, 500000), src_crs), (10, 10))
        try:
            deps = dst.grid_intersect(src)
        except Exception as e:  # noqa: BLE001
            prove(f"empty_graph_not_an_error", False)
            return
        prove("empty_graph_not_an_error", all(len(v) == 0 for v in deps.values()))
        return
    src_g = mk_gbox(64, 64, src_crs, Affine(Real("sa"), 0.0, Real("sc"), 0.0, Real("se"), Real("sf")))
    dst_g = mk_gbox(32, 32, dst_crs, Affine(Real("da"), 0.0, Real("dc"), 0.0, Real("de"), Real("df")))
    src = gbx.GeoboxTiles(src_g, (32, 32))
    dst = gbx.GeoboxTiles(dst_g, (16, 16))
    saved = (gbx.GeoBoxBase.footprint, gbx.GeoBoxBase.__dict__["extent"])
    gbx.GeoBoxBase.footprint = lambda self, crs, buffer=0, npoints=100: _EmptyGeom(crs)
    gbx.GeoBoxBase.extent = property(lambda self: _EmptyGeom(self.crs))
    try:
        try:
            deps = dst.grid_intersect(src)
        except Exception:  # noqa: BLE001
            prove("empty_graph_not_an_error", False)
            return
    finally:
        gbx.GeoBoxBase.footprint, gbx.GeoBoxBase.extent = saved
    prove("empty_graph_not_an_error", all(len(v) == 0 for v in deps.values()))


def setup_footprint():
    setup()
    from .c16 import setup_fakegeom

    setup_fakegeom()


def h_footprint_buffer():
    """GeoBox.footprint(crs, buffer=<pixels>): the distance handed to the geometry's buffer() is
    that many source pixels outwards -- positive whatever the signs of the resolution (the
    cross-CRS dependency graph pads both footprints by 2 pixels this way)"""
    from affine import Affine

    import odc.geo.geobox as gbx

    from .c16 import FakeGeometry

    rx, ry = Real("rx"), Real("ry")
    assume(And(rx != 0, ry != 0))
    g = gbx.GeoBox((Int("ny", 1), Int("nx", 1)), Affine(rx, 0.0, Real("c"), 0.0, ry, Real("f")), "epsg:3857")
    npix = Real("buffer_pixels")
    assume(npix > 0)
    calls = []
    conc = symx.concrete_mode()
    if conc:
        import shapely.geometry.base as sb

        orig = sb.BaseGeometry.buffer

        def rec(self, distance, *a, **kw):
            calls.append(distance)
            return orig(self, distance, *a, **kw)

        sb.BaseGeometry.buffer = rec
        try:
            g.footprint("epsg:4326", npix)
        finally:
            sb.BaseGeometry.buffer = orig
    else:
        FakeGeometry.buffer = lambda self, d, *a, **kw: (calls.append(d), self)[1]
        FakeGeometry.to_crs = lambda self, crs, *a, **kw: self
        FakeGeometry.dropna = lambda self: self
        try:
            g.footprint("epsg:4326", npix)
        finally:
            del FakeGeometry.buffer, FakeGeometry.dropna
            FakeGeometry.to_crs = lambda self, crs: (_ for _ in ()).throw(symx.Unsupported("FakeGeometry.to_crs"))
    prove("buffered_once", len(calls) == 1)
    d = ex(calls[0])
    lo = symx.m_min(abs(ex(rx)), abs(ex(ry))) * ex(npix)
    hi = symx.m_max(abs(ex(rx)), abs(ex(ry))) * ex(npix)
    tol = F(1, 10**9) * abs(hi) if conc else 0
    prove("buffer_is_outwards_by_that_many_pixels", And(d >= lo - tol, d <= hi + tol, d > 0))



def h_range_world_bbox(lin):
    """range_from_bbox with a box given in the raster's CRS on rotated / sheared / mirrored grids:
    the tile row and column of EVERY corner of the box that falls inside the image is listed (a
    box whose extremes in pixel space are its other two corners included)"""
    from affine import Affine

    import odc.geo.geobox as gbx
    from odc.geo.geom import BoundingBox

    from .c02 import LIN

    a, b, d, e = LIN[lin]
    NY, NX = Int("NY", 1), Int("NX", 1)
    g = gbx.GeoBox((NY, NX), Affine(rconst(a), rconst(b), Real("c"), rconst(d), rconst(e), Real("f")), "epsg:3857")
    ty_, tx = 16, 16
    gbt = gbx.GeoboxTiles(g, (ty_, tx))
    l, bt, w, h = Real("left"), Real("bottom"), Real("w"), Real("h")
    assume(And(w >= 0, h >= 0))
    yy, xx = gbt.range_from_bbox(BoundingBox(l, bt, l + w, bt + h, "epsg:3857"))
    for k, (x, y) in enumerate(((l, bt), (l + w, bt), (l + w, bt + h), (l, bt + h))):
        px, py = g.wld2pix(x, y)
        px, py = ex(px), ex(py)
        inside = And(0 < px, px < NX, 0 < py, py < NY)
        col, row = symx.s_floor(px), symx.s_floor(py)
        # (a corner exactly on a pixel boundary belongs to the lower tile too; strict interior only)
        strict = And(inside, px != col, py != row)
        prove(f"corner{k}_tile_row_listed", And(yy.start * ty_ <= row, row < yy.stop * ty_), when=strict)
        prove(f"corner{k}_tile_col_listed", And(xx.start * tx <= col, col < xx.stop * tx), when=strict)


def h_tiles_geometry(nrect):
    """GeoboxTiles.tiles(geometry) with a (multi-part) stand-in geometry in the raster's CRS:
    only tiles whose footprint meets a part are returned -- nothing for a geometry entirely
    outside the raster --, every tile meeting a part in positive area is"""
    from affine import Affine

    import odc.geo.geobox as gbx

    from .c14 import _Rects

    g = gbx.GeoBox((48, 64), Affine(rconst(10), 0.0, rconst(0), 0.0, rconst(-10), rconst(480)), "epsg:3857")  # world box [0,640] x [0,480]
    gbt = gbx.GeoboxTiles(g, (16, 16))  # 3 x 4 tiles of 160 x 160
    rects = []
    for k in range(nrect):
        l, b, w, h = Real(f"l{k}"), Real(f"b{k}"), Real(f"w{k}"), Real(f"h{k}")
        assume(And(w > 0, h > 0, w <= 100, h <= 100, l >= -300, l <= 900, b >= -300, b <= 700))
        rects.append((l, b, l + w, b + h))
    q = _Rects(rects, g.crs)
    got = list(gbt.tiles(q))
    jr, jc = Int("jr", 0, 2), Int("jc", 0, 3)
    x0, x1 = 160 * jc, 160 * (jc + 1)
    y1, y0 = 480 - 160 * jr, 480 - 160 * (jr + 1)
    listed = Or(*[And(jr == t[0], jc == t[1]) for t in got]) if got else False
    meets_area = Or(*[And(x1 > ex(l), x0 < ex(r), y1 > ex(b), y0 < ex(t)) for l, b, r, t in rects])
    apart = And(*[Or(x1 < ex(l), x0 > ex(r), y1 < ex(b), y0 > ex(t)) for l, b, r, t in rects])
    prove("every_tile_meeting_a_part_is_returned", listed, when=meets_area)
    prove("only_tiles_meeting_the_geometry_are_returned", Not(listed) if isinstance(listed, symx.Sym) else not listed, when=apart)
    prove("returned_tiles_exist", all(0 <= t[0] < 3 and 0 <= t[1] < 4 for t in got))



# ---- Q8: a query whose straight edges are not straight in the raster's CRS -----------------------
def _bulged_query(body, bulge, crs, log):
    from .c14 import _Rects

    class _Bulged(_Rects):
        """a rectangle in another CRS.  Its image in the raster's CRS is the rectangle spanned by
        the images of its corners PLUS a bulge hanging from its lower edge between the corners
        (what a projection does to a straight edge).  to_crs() without a finite resolution maps
        the vertices only (the library's contract: 'project the geometry as is'); with one, the
        edge is followed"""

        def to_crs(self, crs_, resolution=None, *a, **kw):
            from odc.geo.crs import norm_crs

            import math

            c = norm_crs(crs_)
            log.append(("to_crs", c, resolution))
            if c == self.crs:
                return self
            if resolution is None:
                dense = False
            elif isinstance(resolution, str):
                # "auto": sqrt(area) * 4 / 100 -- nothing for a geometry without area (the library's own rule)
                dense = bool(And(body[2] > body[0], body[3] > body[1]))
            elif isinstance(resolution, symx.Sym):
                dense = bool(resolution > 0)
            else:
                dense = math.isfinite(resolution) and resolution > 0
            return _Mapped([body, bulge] if dense else [body], c)

    class _Mapped(_Rects):
        """the image in the raster's CRS; project() maps it on into the pixel plane (axis-aligned grid)"""

        def to_crs(self, crs_, *a, **kw):
            return self

        def transform(self, func):
            out = []
            for l_, b_, r_, t_ in self.rects:
                x0, y0 = func(l_, t_)
                x1, y1 = func(r_, b_)
                out.append((x0, y0, x1, y1))
            return _Mapped(out, None)

        @property
        def geom(self):
            return self

    _Bulged.transform = _Mapped.transform
    _Bulged.geom = _Mapped.geom
    # as the extent of a raster: buffering by a few pixels is ignored here (the atoms only ask for
    # tiles that reach deeper into the bend than the buffer), intersection with a footprint that
    # covers it returns it
    _Bulged.buffer = lambda self, d, *a, **kw: self
    _Bulged.dropna = lambda self: self
    _Bulged.is_empty = False
    _Bulged.__and__ = lambda self, o: self
    _Mapped.is_empty = False

    return _Bulged([body], crs)


def h_tiles_other_crs_bulge(via):
    """tiles(query in another CRS) / grid_intersect across CRSs: a tile reached only through the
    bend of an edge is listed all the same"""
    from affine import Affine

    import odc.geo.geobox as gbx

    g = gbx.GeoBox((48, 64), Affine(rconst(10), 0.0, rconst(0), 0.0, rconst(-10), rconst(480)), "epsg:3857")  # world box [0,640] x [0,480]
    gbt = gbx.GeoboxTiles(g, (16, 16))  # 3 x 4 tiles of 160 x 160
    l, b, w, h = Real("l"), Real("b"), Real("w"), Real("h")
    assume(And(w > 0, h >= 0, w <= 300, h <= 300, l >= -100, l <= 700, b >= -100, b <= 600))  # h = 0: a line
    m, bw, depth = Real("m"), Real("bulge_width"), Real("bulge_depth")
    assume(And(bw > 0, depth > 0, depth <= 60, m - bw / 2 >= l, m + bw / 2 <= l + w))  # between the corners
    body = (l, b, l + w, b + h)
    bulge = (m - bw / 2, b - depth, m + bw / 2, b)
    log = []
    q = _bulged_query(body, bulge, "epsg:4326", log)
    if via == "tiles":
        got = list(gbt.tiles(q))
    elif via == "range_from_bbox":
        import itertools

        import odc.geo.geom as gm
        from odc.geo.geom import BoundingBox

        saved_box, saved_G = gm.box, gbx.Geometry
        gm.box = lambda l_, b_, r_, t_, crs: q
        gbx.Geometry = lambda g_, crs=None: g_
        try:
            yy, xx = gbt.range_from_bbox(BoundingBox(body[0], body[1], body[2], body[3], "epsg:4326"))
        finally:
            gm.box, gbx.Geometry = saved_box, saved_G
        got = list(itertools.product(yy, xx))
    elif via == "graph_common":
        # dependency graph, first step: which destination tiles have data at all.  The SOURCE raster
        # is the one in the other CRS (lon/lat) and lies inside the destination; its outline is the
        # query.  The real GeoBox.footprint runs on it (to_crs into its own CRS hands it back as is).
        depth_min = 20  # the footprints are buffered by 2 source pixels (10 m here): look deeper than that
        assume(depth > depth_min)

        class _SrcBase(gbx.GeoBox):
            def __init__(self):
                pass

            crs = q.crs
            extent = q
            _reproject_resolution = lambda self, npoints=100: 1.0  # noqa: E731
            resolution = type("R", (), {"xy": (5.0, -5.0)})()

        class _Everything:
            def __rand__(self, o):
                return o

        class _Src(gbx.GeoboxTiles):
            def __init__(self):
                pass

            base = _SrcBase()

            def tiles(self, query):
                return iter([(0, 0)])

        saved = gbx.GeoBox.footprint
        real_fp = saved

        def fp(self, crs, buffer=0, npoints=100):
            if isinstance(self, _SrcBase):
                return real_fp(self, crs, buffer, npoints)
            return _Everything()

        gbx.GeoBox.footprint = fp
        saved_cl = gbx.GeoboxTiles._check_linear
        gbx.GeoboxTiles._check_linear = lambda self, src: None
        try:
            deps = gbt.grid_intersect(_Src())
        finally:
            gbx.GeoBox.footprint = saved
            gbx.GeoboxTiles._check_linear = saved_cl
        got = list(deps)
    else:
        # dependency graph: the destination raster is the query's grid; its tile outline is the query
        class _DstBase:
            crs = q.crs
            extent = q

            def footprint(self, crs, buffer=0, npoints=100):
                return q.to_crs(crs, resolution=1.0)

        class _Dst(gbx.GeoboxTiles):
            def __init__(self):
                pass

            base = _DstBase()
            _gbox = base

            def _check_linear(self, src):
                return None

            def tiles(self, query):
                return iter([(0, 0)])

            def __getitem__(self, idx):
                return _DstBase()

        class _Common:
            is_empty = False
            crs = q.crs

            def __and__(self, o):
                return self

            def to_crs(self, *a, **kw):
                return self

        saved = gbx.GeoBox.footprint
        gbx.GeoBox.footprint = lambda self, crs, buffer=0, npoints=100: _Common()
        try:
            deps = _Dst().grid_intersect(gbt)
        finally:
            gbx.GeoBox.footprint = saved
        got = deps[(0, 0)]
    jr, jc = Int("jr", 0, 2), Int("jc", 0, 3)
    x0, x1 = 160 * jc, 160 * (jc + 1)
    y1, y0 = 480 - 160 * jr, 480 - 160 * (jr + 1)
    listed = Or(*[And(jr == t[0], jc == t[1]) for t in got]) if got else False
    meets_body = And(x1 > ex(body[0]), x0 < ex(body[2]), y1 > ex(body[1]), y0 < ex(body[3]))
    meets_bulge = And(x1 > ex(bulge[0]), x0 < ex(bulge[2]), y1 > ex(bulge[1]), y0 < ex(bulge[3]))
    prove("tile_meeting_the_quadrilateral_of_the_corners_is_listed", listed, when=meets_body)
    if via == "graph_common":
        deep = And(x1 > ex(bulge[0]), x0 < ex(bulge[2]), y1 > ex(bulge[1]), y0 < ex(body[1]) - 20)
        prove("destination_tile_under_the_source_has_an_entry", listed, when=meets_body)
        prove("destination_tile_reached_only_through_the_bend_of_the_sources_edge_has_an_entry", listed, when=And(deep, Not(meets_body)))
        return
    prove("tile_reached_only_through_the_bend_of_an_edge_is_listed", listed, when=And(meets_bulge, Not(meets_body)))


# ---- Q9: tiles of a control-point grid have curved edges --------------------------------------------
def h_gcp_tile_outline(apex):
    """a tiled control-point grid whose pixel->world map bends the rows (a tent-shaped bump along x,
    apex on one of the points the library samples an outline at): a query that meets a tile only
    where its edge bulges is answered with that tile -- the tile's footprint is its outline sampled
    along the edges, not the quadrilateral of its corners"""
    import odc.geo.geobox as gbx
    import odc.geo.geom as gm
    from odc.geo.crs import CRS
    from odc.geo.gcp import GCPGeoBox

    from .c14 import _Rects

    conc = symx.concrete_mode()
    d = Real("bump_height")
    assume(And(d > 0, d <= 60))
    kv = apex  # which of the 16 outline samples of tile column 1 carries the apex (grid parameter)
    x0 = 16 + F(16 * kv, 15)  # pixel x of the apex (tile column 1 spans x in [16, 32])
    half = F(16, 15)  # the tent is one sample spacing wide on either side

    def bump(x):
        # piecewise linear in x, zero outside [x0 - half, x0 + half]
        if isinstance(x, symx.Sym):
            if bool(Or(x <= x0 - half, x >= x0 + half)):
                return 0
            return d * (1 - (x - x0) / half) if bool(x >= x0) else d * (1 + (x - x0) / half)
        xf = F(x) if not isinstance(x, float) else F(x).limit_denominator(10**9)
        if xf <= x0 - half or xf >= x0 + half:
            return 0
        return d * (1 - (xf - x0) / half) if xf >= x0 else d * (1 + (xf - x0) / half)

    class _Map:
        crs = CRS("epsg:3857")

        def p2w(self, x, y):
            return (x * 10, 480 - y * 10 + bump(x))

        def w2p(self, X, Y):
            x = X / 10
            return (x, (480 - Y + bump(x)) / 10)

    g = GCPGeoBox((48, 64), _Map())
    gbt = gbx.GeoboxTiles(g, (16, 16))
    l, b, w, h = Real("l"), Real("b"), Real("w"), Real("h")
    assume(And(w > 0, h > 0, w <= 100, h <= 100, l >= -100, l <= 700, b >= -100, b <= 700))
    q = _Rects([(l, b, l + w, b + h)], g.crs)
    saved_box, saved_G = gm.box, gbx.Geometry
    from .c16 import FakeGeometry, setup_fakegeom

    if conc:
        setup_fakegeom()  # the replay runs in the same stand-in geometry
    gm.box = lambda l_, b_, r_, t_, crs: FakeGeometry([(l_, b_), (l_, t_), (r_, t_), (r_, b_), (l_, b_)], crs)
    try:
        got = list(gbt.tiles(q))
    finally:
        gm.box = saved_box
    # tile (0, 1): rows 0..16, columns 16..32; its upper edge bulges upwards by the bump
    x_lo, x_hi = 160, 320
    y_lo = 480 - 160
    y_hi = 480 + ex(d)  # the apex sits on a sampled point of the upper edge: the outline reaches it
    listed = Or(*[And(t[0] == 0, t[1] == 1) for t in got]) if got else False
    meets_bulge_only = And(ex(l) < 10 * x0, ex(l) + ex(w) > 10 * x0, ex(b) < y_hi, ex(b) + ex(h) > 480 + ex(d) / 2, ex(b) >= 480)
    prove("tile_met_only_where_its_edge_bulges_is_returned", listed, when=meets_bulge_only)
    # (the map bends every row alike: the lower edge of this tile bulges upwards too, by at most d)
    meets_body = And(ex(l) < x_hi, ex(l) + ex(w) > x_lo, ex(b) < 480, ex(b) + ex(h) > y_lo + ex(d))
    prove("tile_met_in_its_body_is_returned", listed, when=meets_body)


def replay_bulge(param, model):
    """the same law on real PROJ: an Albers destination tile over a lon/lat source raster; which
    source tiles are needed is computed pixel by pixel with pyproj, and compared with what the
    library lists"""
    import numpy as np

    from odc.geo.geobox import GeoBox, GeoboxTiles

    if param["via"] == "range_from_bbox" or model.get("h") in (0, "0"):
        # an Albers grid queried with a lon/lat box / a line along a parallel
        import itertools

        from odc.geo import geom
        from odc.geo.geom import BoundingBox

        gbt = GeoboxTiles(GeoBox.from_bbox((-2_000_000, -5_000_000, 2_500_000, -1_000_000), "epsg:3577", resolution=1000), (100, 100))
        alli = list(itertools.product(range(gbt.shape[0]), range(gbt.shape[1])))
        if param["via"] == "range_from_bbox":
            q = BoundingBox(115, -40, 150, -38, "epsg:4326")
            yy, xx = gbt.range_from_bbox(q)
            got = set(itertools.product(yy, xx))
            dense = q.polygon.to_crs("epsg:3577", resolution=0.01)
            what = "GeoboxTiles(Albers 3577 grid, 1000 m, 100-px tiles over (-2e6,-5e6,2.5e6,-1e6)).range_from_bbox(BoundingBox(115,-40,150,-38,'epsg:4326'))"
        else:
            ln = geom.line([(115, -38), (150, -38)], "epsg:4326")
            got = set(gbt.tiles(ln))
            dense = geom.line([(115 + i * 0.01, -38) for i in range(3501)], "epsg:4326").to_crs("epsg:3577")
            what = "tiles(line along the parallel 38S from 115E to 150E) on the same Albers grid"
        want = {i for i in alli if dense.intersects(gbt[i].extent)}
        missing = sorted(want - got)
        return {"reproduced": bool(missing), "witness": what, "needed_but_not_listed": [list(map(int, t)) for t in missing][:30], "model": model}
    if param["via"] == "graph_common":
        # a lon/lat source inside a polar-stereographic destination: parallels are arcs there
        src = GeoBox.from_bbox((0, 60, 90, 80), "epsg:4326", resolution=0.1)
        dst = GeoBox.from_geopolygon(src.footprint("epsg:3413", 0, 400), resolution=5000)
        S, D = GeoboxTiles(src, (50, 50)), GeoboxTiles(dst, (32, 32))
        deps = D.grid_intersect(S)
        missing = []
        for didx in np.ndindex(D.shape.yx):
            e = D[didx].extent.to_crs(4326, resolution=1000)
            want = {t for t in S.tiles(D[didx].extent) if (S[t].extent & e).area > 4 * 0.01}  # more than 4 source pixels
            if want - set(deps.get(didx, [])):
                missing.append([int(v) for v in didx])
        return {"reproduced": bool(missing), "witness": "GeoBox.from_bbox((0,60,90,80),'epsg:4326',resolution=0.1) in 50-px tiles; destination = its EPSG:3413 footprint at 5000 m in 32-px tiles",
                "destination_tiles_with_missing_source_tiles": missing[:30], "model": model}
    src = GeoBox.from_bbox((140, -40, 150, -30), "epsg:4326", shape=(60, 70))
    dst = src.to_crs("epsg:3577").pad(20)
    s = GeoboxTiles(src, ((17, 23, 20), (31, 9, 30)))
    d = GeoboxTiles(dst, (7, 300))
    idx = (9, 0)
    tile = d[idx]
    if param["via"] == "tiles":
        listed = set(s.tiles(tile.extent))
    else:
        listed = set(d.grid_intersect(s).get(idx, []))
    ny, nx = tile.shape
    xx, yy = np.meshgrid(np.arange(nx) + 0.5, np.arange(ny) + 0.5)
    wx, wy = tile.pix2wld(xx.ravel(), yy.ravel())
    tr = dst.crs.transformer_to_crs(src.crs)
    lon, lat = tr(wx, wy)
    px, py = src.wld2pix(np.asarray(lon), np.asarray(lat))
    ok = (px >= 0) & (px < 70) & (py >= 0) & (py < 60)
    need = {s.roi.locate((int(y), int(x))) for x, y in zip(px[ok], py[ok])}
    missing = sorted(need - listed)
    return {"reproduced": bool(missing), "witness": "GeoBox.from_bbox((140,-40,150,-30),'epsg:4326',shape=(60,70)) tiled ((17,23,20),(31,9,30)); destination = its Albers (3577) grid padded by 20, 7x300 chunks, tile (9,0)",
            "needed_but_not_listed": [list(map(int, t)) for t in missing], "model": model}


TS_Q = [(1, 1), (3, 7), (16, 256)]
TS_T = TS_Q + [(256, 16), (2, 2), (512, 512), (7, 1)]
GI_Q = [dict(k="1", mx=1, n_dst=3, n_src=4, axis="x"),  # one GeoBox can be cut both ways into the same number of tiles
        dict(k="1", mx=1, n_dst=4, n_src=4, axis="x"), dict(k="2", mx=1, n_dst=2, n_src=4, axis="y"), dict(k="1", mx=-1, n_dst=4, n_src=3, axis="x"), dict(k="1/2", mx=1, n_dst=4, n_src=2, axis="y")]
GI_T = GI_Q + [dict(k=k, mx=mx, n_dst=nd, n_src=ns, axis=ax) for k in ("1", "2", "3/2", "1/2") for mx in (1, -1) for nd, ns in ((4, 4), (3, 5)) for ax in ("x", "y")]

OBLIGATIONS = [
    Ob("Q1_range_from_bbox", h_range_from_bbox, tiered([dict(kind="regular", ty_=a, tx=b) for a, b in TS_Q] + [dict(kind="var", ty_=2, tx=3)],
                                                       [dict(kind="regular", ty_=a, tx=b) for a, b in TS_T] + [dict(kind="var", ty_=a, tx=b) for a, b in ((1, 1), (2, 3), (4, 4), (3, 2))]),
       descr="range_from_bbox (pixel-domain box): the row/col of every tile meeting the box in positive area is listed; ranges within [0, count); never empty or failing",
       functions=("odc.geo.geobox.GeoboxTiles.range_from_bbox", "odc.geo.roi.Tiles.locate", "odc.geo.roi.VariableSizedTiles.locate", "odc.geo.math.clamp"),
       bounds="box edges symbolic (any position/size, w,h >= 0); image sizes symbolic; tile size grid / <= 4 variable chunks per axis", stubs=("symbolic-bound range()", "NumpyModel for variable tiles"),
       setup=setup_range, timeout_ms=20000),
    Ob("Q3_check_linear", h_check_linear, fixed(dict(kind="st"), dict(kind="rot"), dict(kind="crs")), descr="_check_linear: linear path exactly for same-CRS scale+translation pairs",
       functions=("odc.geo.geobox.GeoboxTiles._check_linear", "odc.geo.math.snap_affine", "odc.geo.math.is_affine_st"), setup=setup),
    Ob("Q2_grid_intersect_linear", h_grid_intersect, tiered(GI_Q, GI_T),
       descr="grid_intersect (linear path): every source tile overlapping the mapped destination tile by more than a sliver is listed for it; one entry per destination tile",
       functions=("odc.geo.geobox.GeoboxTiles.grid_intersect", "odc.geo.geobox.GeoboxTiles._grid_intersect_linear", "odc.geo.geobox.GeoboxTiles.tiles", "odc.geo.geobox.GeoboxTiles.range_from_bbox", "odc.geo.geom.BoundingBox.transform", "odc.geo.geom.BoundingBox.round"),
       bounds="scale grid x mirroring; destination <= 2 tiles, source <= 4 tiles along the symbolic axis (image sizes symbolic within that); translation symbolic", setup=setup, timeout_ms=30000, deadline_s=1500),
    Ob("Q2_near_unit_scale_wide", h_grid_intersect, fixed(dict(k="9999991/10000000", mx=1, n_dst=1000000, n_src=1000000, axis="x")),
       descr="grid_intersect (linear path) between rasters whose pixel sizes differ by 9e-7 (inside the snapping tolerance 1e-6 of the linear test) and that are millions of pixels wide: overlapping source tiles must still be listed",
       functions=("odc.geo.geobox.GeoboxTiles.grid_intersect", "odc.geo.geobox.GeoboxTiles._check_linear", "odc.geo.math.snap_affine"),
       bounds="relative scale 1 - 9e-7; tiles of 10^6 pixels, destination <= 2 tiles, source <= 4 tiles; sizes and translation symbolic", setup=setup, timeout_ms=30000, deadline_s=600),
    Ob("Q4_disjoint_general_path", h_disjoint_general_path, fixed(dict(), dict(src_crs="epsg:4283", dst_crs="epsg:3857"), dict(src_crs="epsg:32633", dst_crs="epsg:3857"), dict(src_crs="epsg:3857", dst_crs="epsg:4283")), descr="different CRSs, footprints that do not meet: the dependency graph is empty rather than an error",
       functions=("odc.geo.geobox.GeoboxTiles.grid_intersect", "odc.geo.geobox.GeoboxTiles.tiles", "odc.geo.geobox.GeoboxTiles.range_from_bbox"),
       bounds="symbolic axis-aligned GeoBoxes in two CRSs", stubs=("GeoBox.footprint returns the empty geometry shapely gives for footprints that do not meet (NaN bounding box); the replay uses real disjoint rasters in EPSG:3857 / EPSG:4326",), setup=setup),
    Ob("Q5_footprint_buffer", h_footprint_buffer, fixed(), descr="footprint(crs, buffer=<pixels>) buffers outwards by that many source pixels whatever the signs of the resolution",
       functions=("odc.geo.geobox.GeoBoxBase.footprint", "odc.geo.geobox.GeoBoxBase._reproject_resolution"), bounds="axis-aligned symbolic affine (either sign per axis), symbolic buffer > 0",
       stubs=("vertex-list geometry recording buffer(); to_crs/dropna pass-through (the replay records shapely's buffer call)",), setup=setup_footprint),
    Ob("Q6_range_world_bbox", h_range_world_bbox, fixed(*[dict(lin=k) for k in ("north_up", "mirrored", "rot", "shear")]),
       descr="range_from_bbox with a box in the raster's CRS on mirrored / rotated / sheared grids: the tile row and column of every corner of the box inside the image is listed",
       functions=("odc.geo.geobox.GeoboxTiles.range_from_bbox", "odc.geo.geobox.GeoBoxBase.project", "odc.geo.roi.Tiles.locate"), bounds="linear part from 4 families, origin / image size / box symbolic; 16-pixel tiles",
       stubs=("symbolic-bound range()", "vertex-list polygon"), setup=setup_range_geom, timeout_ms=20000),
    Ob("Q7_tiles_geometry", h_tiles_geometry, tiered([dict(nrect=1)], [dict(nrect=1), dict(nrect=2)]),
       descr="tiles(geometry) with a (multi-part) stand-in geometry: only tiles meeting a part (none for a geometry outside the raster), every tile meeting one in positive area",
       functions=("odc.geo.geobox.GeoboxTiles.tiles", "odc.geo.geobox.GeoboxTiles.range_from_bbox"), bounds="48 x 64 raster in 3 x 4 tiles; parts up to 100 x 100 units anywhere from far outside to inside",
       stubs=("union-of-rectangles geometry answering to_crs / boundingbox / disjoint exactly", "vertex-list tile footprints"), setup=setup_range_geom, timeout_ms=20000),
    Ob("Q8_other_crs_bent_edges", h_tiles_other_crs_bulge, fixed(dict(via="tiles"), dict(via="grid_intersect"), dict(via="range_from_bbox"), dict(via="graph_common")),
       descr="a query polygon, line, bounding box, destination tile or source raster in another CRS whose straight edge bends in the raster's CRS: tiles reached only through the bend are listed too (tile query, box query and dependency graph)",
       functions=("odc.geo.geobox.GeoboxTiles.tiles", "odc.geo.geobox.GeoboxTiles.grid_intersect", "odc.geo.geobox.GeoboxTiles.range_from_bbox"),
       bounds="query rectangle, position / width / depth (<= 60 m) of the bend symbolic; 3x4 tiles of 16 px",
       stubs=("union-of-rectangles geometry whose to_crs() maps the vertices only unless a finite resolution is given (the library's own contract for to_crs); PROJ itself replaced by that stand-in, replay on real PROJ with a fixed witness",),
       setup=setup_range_geom, timeout_ms=20000, custom_replay=replay_bulge),
    Ob("Q9_gcp_tile_outline", h_gcp_tile_outline, tiered([dict(apex=4)], [dict(apex=a) for a in (1, 4, 8, 11, 14)]),
       descr="tiles of a control-point grid: the footprint used by tile queries is the outline sampled along the edges (a tile met only where its edge bulges is returned), not the quadrilateral of its corners",
       functions=("odc.geo.geobox.GeoboxTiles.tiles", "odc.geo.geobox.GeoBoxBase.extent", "odc.geo.gcp.GCPGeoBox.__getitem__"),
       bounds="3x4 tiles of 16 px; pixel->world map with a tent-shaped bump of symbolic height whose apex lies on one of the 16 outline samples (index from a grid); symbolic query rectangle",
       stubs=("control-point mapping stand-in (piecewise-linear bump)", "vertex-list / union-of-rectangles geometries; disjoint() judged on bounding boxes"), setup=setup_range_geom, timeout_ms=20000),
    Ob("Q2_disjoint_no_error", h_disjoint_no_error, fixed(dict(axis="x"), dict(axis="y")), descr="same-CRS rasters that do not overlap (apart or touching): no error and no dependencies",
       functions=("odc.geo.geobox.GeoboxTiles.grid_intersect",), bounds="gap >= 0 symbolic, either side", setup=setup),
]
