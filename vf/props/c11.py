"""C11 -- the output grid computed for another CRS encloses the source (dispatch, resolution
choice, snapping and UTM selection; the projection library enters as a stand-in)."""
from __future__ import annotations

from fractions import Fraction as F

from .. import shims, symx
from ..runner import Ob, fixed, tiered
from ..symx import And, Bool, Int, Not, Or, Real, assume, ex, prove, rconst
from .c08 import check_resolution_box, mk_anchor, mk_tol

EXPLANATION = (
    "The real compute_output_geobox / GeoBox.to_crs / .odc.output_geobox and GeoBox.footprint executed on a source GeoBox "
    "with symbolic origin and shape (pixel size from a grid). Requests for the source's own CRS run end to end (the footprint "
    "of an axis-aligned grid in its own CRS is its extent buffered by 0.9 source pixels, modelled exactly): z3 decides that "
    "the result is axis-aligned, has the requested pixel size, contains every source pixel up to tol output pixels, is less than "
    "one pixel (+tol) larger than the buffered footprint, and is aligned as requested -- or is the very same GeoBox for "
    "default options. For another CRS the projected footprint is a symbolic box in the target CRS (whatever PROJ reports): "
    "the same contract against that box; resolution choice same/auto/fit/explicit incl. rounding callbacks (scale fit recorded); "
    "shape requests; option pass-through of the entry points; utm / utm-n / utm-s selection over a stand-in CRS database."
)
ASSUMPTIONS = [
    "floats as exact reals; source pixel size, requested resolution, centre-pixel span and fitted scale from finite grids; origins, shapes, footprint box, tolerance, anchor fraction symbolic; quick tier factors the axes",
    "PROJ and GEOS are outside: that the footprint polygon PROJ produces (100 points per side, 0.9-pixel buffer) contains the projected position of every source pixel, and the least-squares scale fit, are NOT decided; what is decided is that the result relates as stated to the footprint box it is given, and that the footprint is requested for the target CRS with a non-negative buffer",
    "same-CRS requests: shapely's buffer of an axis-aligned rectangle is modelled by its bounding box (the rectangle grown by the distance on every side)",
    "UTM: pyproj's query_utm_crs_info / area_of_use enter as a stand-in database (candidate zones with symbolic overlap fractions); that the database returns the right zones is outside",
]

SRC_CRS = "epsg:3857"


# ---- geometry / projection stand-ins ----------------------------------------------------------

def _same_num(got, want):
    """replay in doubles: the exact rational of the model against the library's double, to a few ulps"""
    g, w = float(got), float(want)
    return abs(g - w) <= 4e-16 * max(abs(g), abs(w)) + 1e-300


def _install_geom(responses):
    """FakeGeometry (vertex list) gets buffer / to_crs / dropna for the duration of one run:
    buffer(d) of a rectangle -> the rectangle grown by d (same bounding box as the rounded
    shape); to_crs(same CRS) -> the very same object (what Geometry.to_crs does); to_crs(other)
    -> the next prepared response (a box in the target CRS); dropna() -> self"""
    from odc.geo.crs import norm_crs

    from .c16 import FakeGeometry

    log = []

    def buffer(self, d, *a, **kw):
        d = _simple(d)
        log.append(("buffer", d))
        bb = self.boundingbox
        l, b, r, t = bb.left - d, bb.bottom - d, bb.right + d, bb.top + d
        return FakeGeometry([(l, b), (l, t), (r, t), (r, b), (l, b)], self.crs)

    def to_crs(self, crs, resolution=None, **kw):
        c = norm_crs(crs)
        log.append(("to_crs", c, resolution))
        if c == self.crs:
            return self
        if not responses:
            log.append(("unexpected_to_crs", c))
            l, b, r, t = rconst(0), rconst(0), rconst(1), rconst(1)
        else:
            l, b, r, t = responses.pop(0)
        return FakeGeometry([(l, b), (l, t), (r, t), (r, b), (l, b)], c)

    FakeGeometry.buffer = buffer
    FakeGeometry.to_crs = to_crs
    FakeGeometry.dropna = lambda self: self
    return log


def _simple(d):
    """the buffer distance is 0.9 * pixel: the double 0.9 is 0.90000000000000002220..., which drags
    2^52 denominators through every later floor; the stand-in grows the rectangle by the nearest
    rational with a denominator <= 10^6 instead (relative difference < 1e-15, far below what GEOS'
    polygonal buffer resolves)"""
    import z3

    if isinstance(d, symx.Sym):
        t = z3.simplify(d.t)
        if z3.is_rational_value(t):
            return rconst(F(t.numerator_as_long(), t.denominator_as_long()).limit_denominator(10**6))
        return d
    if isinstance(d, float) and symx.concrete_mode():
        return float(F(d).limit_denominator(10**6))
    return d


def _uninstall_geom():
    from .c16 import FakeGeometry

    for k in ("buffer", "dropna"):
        if k in FakeGeometry.__dict__:
            delattr(FakeGeometry, k)
    FakeGeometry.to_crs = lambda self, crs: (_ for _ in ()).throw(symx.Unsupported("FakeGeometry.to_crs"))


def setup():
    from .c16 import setup_fakegeom

    setup_fakegeom()
    if symx.concrete_mode():
        return
    import odc.geo.overlap as ov

    shims.instrument(ov)


def _src_gbox(res, pin, size=None):
    """axis-aligned source grid: pixel size from the grid, origin symbolic on the free axis; the
    number of pixels on the free axis is symbolic (size=None) or from the grid -- it is symbolic
    exactly when the requested pixel divides the source pixel, because only then is the image
    height a whole number of output pixels plus a constant (an integer count times a non-integral
    ratio under a floor is where z3 gives up)"""
    from affine import Affine

    import odc.geo.geobox as gbx

    rx, ry = F(res[0]), F(res[1])
    if pin == "x":
        c, nx = rconst(F(1000)), 17
    else:
        c, nx = Real("src_c"), (Int("src_nx", 1) if size is None else size)
    if pin == "y":
        f, ny = rconst(F(-2000)), 9
    else:
        f, ny = Real("src_f"), (Int("src_ny", 1) if size is None else size)
    g = gbx.GeoBox((ny, nx), Affine(rconst(rx), 0.0, c, 0.0, rconst(ry), f), SRC_CRS)
    x0, x1 = ex(c), ex(c) + rx * nx
    y0, y1 = ex(f), ex(f) + ry * ny
    lo_x, hi_x = (x0, x1) if rx > 0 else (x1, x0)
    lo_y, hi_y = (y0, y1) if ry > 0 else (y1, y0)
    return g, (lo_x, lo_y, hi_x, hi_y)


class _GcpMap:
    """stands for a fitted control-point mapping whose pixel->world function is its linear
    equivalent (10 m pixels, inverted Y, symbolic origin)"""

    def __init__(self, c, f):
        from affine import Affine
        from odc.geo.crs import CRS
        from odc.geo.types import resxy_

        self.crs = CRS(SRC_CRS)
        self.approx = Affine(rconst(10), 0.0, c, 0.0, rconst(-10), f)
        self.resolution = resxy_(rconst(10), rconst(-10))

    def p2w(self, x, y):
        return self.approx * (x, y)

    def w2p(self, x, y):
        return (~self.approx) * (x, y)


def _gcp_src(zoom):
    """a view of a control-point grid zoomed out by `zoom` (an overview): its pixels are zoom x 10 m"""
    from affine import Affine
    from odc.geo.gcp import GCPGeoBox

    return GCPGeoBox((Int("src_ny", 1, 1000), Int("src_nx", 1, 1000)), _GcpMap(Real("src_c"), Real("src_f")), Affine(rconst(zoom), 0.0, rconst(0), 0.0, rconst(zoom), rconst(0)))


def _spell(crs, how):
    from odc.geo.crs import CRS

    if how == "str":
        return crs.upper()
    if how == "obj":
        return CRS(crs)
    if how == "int":
        return int(crs.split(":")[1])
    if how == "wkt":
        return CRS(crs).to_wkt()
    raise ValueError(how)


def _run(fn, responses=()):
    """run the real code with the geometry stand-ins in force; in the replay the same stand-ins
    run on plain floats"""
    from .c16 import setup_fakegeom

    if symx.concrete_mode():
        setup_fakegeom()
    log = _install_geom(list(responses))
    try:
        return fn(), log
    finally:
        _uninstall_geom()


# ---- E1/E2: the source's own CRS --------------------------------------------------------------
def h_own_crs(res, spelling, mode, pin, req=None, anchor="default", tight=False, size=None):
    import odc.geo.overlap as ov

    rx, ry = F(res[0]), F(res[1])
    rq = req if req is not None else ([str((abs(rx) + abs(ry)) / 2)] * 2 if mode == "fit" else None)
    if rq is not None and not ((rx / F(rq[0])).denominator == 1 and (ry / F(rq[1])).denominator == 1):
        size = size or 7
    else:
        size = None
    g, (lo_x, lo_y, hi_x, hi_y) = _src_gbox(res, pin, size)
    crs = _spell(SRC_CRS, spelling)
    tol = mk_tol("1/100") if mode != "tol" else mk_tol("1/1000")
    kw = {}
    a, axy = mk_anchor(anchor)
    if anchor != "default":
        kw["anchor"] = a
    if tight:
        kw["tight"] = True
    if mode in ("explicit", "tol"):
        from odc.geo.types import resxy_

        qx, qy = F(req[0]), F(req[1])
        kw["resolution"] = resxy_(rconst(qx), rconst(qy)) if qx != -qy or req[2:] else rconst(qx)
        want_res = (qx, qy)
    elif mode == "same":
        kw["resolution"] = "same"
        want_res = (rx, ry)
    elif mode == "fit":
        # the scale between a grid and itself is 1 (the least-squares fit is recorded): square pixels
        # of the mean source pixel size, inverted Y, on the default grid -- never the source as it is
        kw["resolution"] = "fit"
        avg = (abs(rx) + abs(ry)) / 2
        want_res = (avg, -avg)
    else:
        want_res = (rx, ry)
    if mode != "default_tol":
        kw["tol"] = tol
    fit_calls = []
    saved_fit = (ov.get_scale_at_point, ov.native_pix_transform)
    if mode == "fit":
        from odc.geo.types import xy_

        ov.native_pix_transform = lambda a_, b_: fit_calls.append(("npt", a_, b_)) or "tr"
        ov.get_scale_at_point = lambda pt, tr, r=None: fit_calls.append(("scale", pt, tr)) or xy_(rconst(1), rconst(1))
    try:
        out, log = _run(lambda: ov.compute_output_geobox(g, crs, **kw))
    finally:
        ov.get_scale_at_point, ov.native_pix_transform = saved_fit
    if mode == "fit":
        prove("scale_fitted_once", len([c for c in fit_calls if c[0] == "scale"]) == 1)
    shortcut = anchor == "default" and mode in ("default", "same", "default_tol")
    if shortcut:
        prove("own_crs_with_default_options_returns_the_source_unchanged", out is g)
        return
    prove("result_is_a_new_geobox_in_the_same_crs", out is not g and out.crs == g.crs)
    bufs = [e[1] for e in log if e[0] == "buffer"]
    prove("footprint_buffered_once_outwards", len(bufs) == 1 and bool(ex(bufs[0]) >= 0))
    d = ex(bufs[0])
    region = (lo_x - d, lo_y - d, hi_x + d, hi_y + d)
    check_resolution_box(out, region, [str(want_res[0]), str(want_res[1])], None if tight else axy, tol)
    # the statement itself: every source pixel lies inside the result, up to tol output pixels
    nx, ny = out.shape.x, out.shape.y
    x0, y0 = out.pix2wld(0, 0)
    x1, y1 = out.pix2wld(nx, ny)
    ox0, ox1 = (ex(x0), ex(x1)) if want_res[0] > 0 else (ex(x1), ex(x0))
    oy0, oy1 = (ex(y0), ex(y1)) if want_res[1] > 0 else (ex(y1), ex(y0))
    tx, ty = ex(tol) * abs(want_res[0]), ex(tol) * abs(want_res[1])
    prove("contains_every_source_pixel_x", And(ox0 <= lo_x + tx, ox1 >= hi_x - tx))
    prove("contains_every_source_pixel_y", And(oy0 <= lo_y + ty, oy1 >= hi_y - ty))


# ---- E3: another CRS, footprint as a symbolic box --------------------------------------------
DST = {"metre": "epsg:32633", "degree": "epsg:4326", "albers": "epsg:3577", "polar": "epsg:3031", "polar_n": "epsg:3413",
       # CRSs that have no EPSG code
       "moll": "ESRI:54009", "crs84": "OGC:CRS84", "sinu": "+proj=sinu +lon_0=0 +x_0=0 +y_0=0 +R=6371007.181 +units=m +no_defs"}


def _unit_names(crs):
    """the harness's own reading of 'share units': the unit names of the axes, whatever their directions"""
    from odc.geo.crs import CRS

    return sorted({a.unit_name for a in CRS(crs)._crs.axis_info})


def _fp_box(pin, tag="fp"):
    if pin == "x":
        l, w = rconst(F(5)), rconst(F(101))
    else:
        l, w = Real(f"{tag}_l"), Real(f"{tag}_w")
        assume(w >= 0)
    if pin == "y":
        b, h = rconst(F(-7)), rconst(F(57))
    else:
        b, h = Real(f"{tag}_b"), Real(f"{tag}_h")
        assume(h >= 0)
    return (l, b, l + w, b + h)


def h_other_crs(res, dst, mode, pin, req=None, anchor="default", tight=False, fit=None, rounding="none", gcp_zoom=None, history=None):
    """fit = [centre-pixel span x, span y, fitted scale x, scale y] (grid); history = CRSs whose
    properties were read earlier in the same process (the answer may not depend on it)"""
    import odc.geo.overlap as ov
    from odc.geo.types import resxy_, xy_

    for hc in history or ():
        from odc.geo.crs import CRS as _C

        c_ = _C(DST.get(hc, hc))
        _ = (c_.units, c_.epsg, c_.dimensions, c_.geographic, c_.projected, str(c_))

    if gcp_zoom is None:
        g, _ = _src_gbox(res, "both")
        rx, ry = F(res[0]), F(res[1])
    else:
        g = _gcp_src(gcp_zoom)
        rx, ry = F(10 * gcp_zoom), F(-10 * gcp_zoom)
    dcrs = DST[dst]
    fp = _fp_box(pin)
    responses = [fp]
    tol = mk_tol("1/100")
    kw = dict(tol=tol)
    a, axy = mk_anchor(anchor)
    if anchor != "default":
        kw["anchor"] = a
    if tight:
        kw["tight"] = True
    same_units = _unit_names(SRC_CRS) == _unit_names(dcrs)
    uses_fit = mode == "fit" or (mode == "auto" and not same_units)
    calls = []
    if mode == "explicit":
        qx, qy = F(req[0]), F(req[1])
        kw["resolution"] = resxy_(rconst(qx), rconst(qy))
        want = (qx, qy)
    elif mode == "scalar":
        q = F(req[0])
        kw["resolution"] = rconst(q)
        want = (q, -q)
    elif mode == "same":
        kw["resolution"] = "same"
        want = (rx, ry)
    elif mode in ("auto", "fit"):
        if mode == "fit":
            kw["resolution"] = "fit"
        want = (rx, ry)
    if uses_fit:
        wx, wy, sx, sy = (F(v) for v in fit)
        cl = Real("cp_l") if pin != "x" else rconst(F(3))
        cb = Real("cp_b") if pin != "y" else rconst(F(4))
        responses.append((cl, cb, cl + rconst(wx), cb + rconst(wy)))
        avg = (abs(wx / sx) + abs(wy / sy)) / 2
        if rounding == "true":
            kw["round_resolution"] = True
            avg = F(round(avg))
        elif rounding == "false":
            kw["round_resolution"] = False
        elif rounding == "callable":
            picked = F(7, 2)

            def rr(v, units):
                calls.append(("round", v, units))
                return rconst(picked)

            kw["round_resolution"] = rr
            want_avg_in = avg
            avg = picked
        want = (avg, -avg)
    saved = (ov.get_scale_at_point, ov.native_pix_transform)
    token = object()

    def fake_npt(a_, b_):
        calls.append(("npt", a_, b_))
        return token

    def fake_scale(pt, tr, r=None):
        calls.append(("scale", pt, tr))
        if not uses_fit:
            return xy_(rconst(1), rconst(1))
        return xy_(rconst(sx), rconst(sy))

    ov.native_pix_transform, ov.get_scale_at_point = fake_npt, fake_scale
    try:
        out, log = _run(lambda: ov.compute_output_geobox(g, dcrs, **kw), responses)
    finally:
        ov.get_scale_at_point, ov.native_pix_transform = saved
    from odc.geo.crs import CRS

    prove("result_is_in_the_requested_crs", out.crs == CRS(dcrs))
    t_calls = [e for e in log if e[0] == "to_crs"]
    prove("footprint_requested_in_the_target_crs", len(t_calls) >= 1 and t_calls[0][1] == CRS(dcrs))
    bufs = [e[1] for e in log if e[0] == "buffer"]
    rsl = t_calls[0][2]
    span = symx.m_max(abs(ex(g.shape.x) * rx), abs(ex(g.shape.y) * ry)) + 2 * ex(bufs[0]) if bufs else None
    prove("footprint_edges_are_followed_not_just_the_corners", rsl is not None and span is not None and And(ex(rsl) > 0, ex(rsl) <= span))
    prove("footprint_buffered_outwards_before_projecting", len(bufs) == 1 and bool(ex(bufs[0]) >= 0) and log.index(("buffer", bufs[0])) < log.index(t_calls[0]))
    if uses_fit:
        sc = [c for c in calls if c[0] == "scale"]
        npt = [c for c in calls if c[0] == "npt"]
        prove("scale_fitted_once_at_the_centre_of_the_centre_pixel", len(sc) == 1 and len(npt) == 1 and sc[0][2] is token and bool(ex(sc[0][1].x) == F(1, 2)) and bool(ex(sc[0][1].y) == F(1, 2)))
        d_, cp = npt[0][1], npt[0][2]
        prove("fit_is_between_the_projected_centre_pixel_and_the_centre_pixel", And(cp.shape.x == 1, cp.shape.y == 1, d_.shape.x == 1, d_.shape.y == 1) if not symx.concrete_mode() else (tuple(cp.shape) == (1, 1) and tuple(d_.shape) == (1, 1)))
        cx, cy = g.shape.x // 2, g.shape.y // 2
        wxy = g.pix2wld(cx, cy)
        cxy = cp.pix2wld(0, 0)
        prove("centre_pixel_is_the_middle_one", And(ex(wxy[0]) == ex(cxy[0]), ex(wxy[1]) == ex(cxy[1])))
        prove("projected_centre_pixel_has_its_box", And(ex(d_.affine.a) == wx, ex(d_.affine.e) == -wy, d_.crs == CRS(dcrs)))
        if rounding == "callable":
            rc = [c for c in calls if c[0] == "round"]
            prove("rounding_callback_gets_the_fitted_resolution_and_the_units", len(rc) == 1 and bool(ex(rc[0][1]) == want_avg_in) and rc[0][2] == CRS(dcrs).units[0])
    else:
        prove("no_scale_fit_when_the_resolution_is_given", len(calls) == 0)
    region = tuple(ex(v) for v in fp)
    check_resolution_box(out, region, [str(want[0]), str(want[1])], None if tight else axy, tol)


# ---- E4: shape requests ------------------------------------------------------------------------
def h_shape(dst, shape, span, pin, tight=False, anchor="default"):
    import odc.geo.overlap as ov

    g, _ = _src_gbox(["10", "-10"], "both")
    dcrs = DST[dst] if dst != "own" else SRC_CRS
    sx, sy = F(span[0]), F(span[1])
    l = rconst(F(3, 4)) if pin == "x" else Real("left")
    b = rconst(F(-7, 2)) if pin == "y" else Real("bottom")
    fp = (l, b, l + rconst(sx), b + rconst(sy))
    tol = mk_tol("1/100")
    a, axy = mk_anchor(anchor)
    kw = dict(tol=tol, shape=shape if isinstance(shape, int) else tuple(shape), resolution=rconst(F(123)))  # resolution is ignored
    if tight:
        kw["tight"] = True
    if anchor != "default":
        kw["anchor"] = a
    if dst == "own":
        # own CRS: the footprint is the buffered extent -- replace it by the prepared box through to_crs' response
        import odc.geo.geobox as gbx

        saved = gbx.GeoBox.footprint
        from .c16 import FakeGeometry

        gbx.GeoBox.footprint = lambda self, crs, buffer=0, npoints=100: FakeGeometry([(fp[0], fp[1]), (fp[0], fp[3]), (fp[2], fp[3]), (fp[2], fp[1])], SRC_CRS)
        try:
            out, _ = _run(lambda: ov.compute_output_geobox(g, dcrs, **kw))
        finally:
            gbx.GeoBox.footprint = saved
    else:
        out, _ = _run(lambda: ov.compute_output_geobox(g, dcrs, **kw), [fp])
    L, T = ex(l), ex(b) + sy
    x0, y0 = out.pix2wld(0, 0)
    x0, y0 = ex(x0), ex(y0)
    A = out.affine
    prove("axis_aligned", And(ex(A.b) == 0, ex(A.d) == 0))
    if isinstance(shape, int):
        pxs = max(sx, sy) / shape
        prove("square_pixels_from_the_longest_side", _same_num(A.a, pxs) and _same_num(A.e, -pxs) if symx.concrete_mode() else And(ex(A.a) == pxs, ex(A.e) == -pxs))
        longest = symx.m_max(out.shape.x, out.shape.y) if not symx.concrete_mode() else max(out.shape.x, out.shape.y)
        prove("longest_side_has_that_many_pixels", longest == shape)
        if tight:
            prove("tight_result_sits_on_the_footprint", And(x0 == L, y0 == T))
        else:
            prove("displaced_less_than_a_pixel", And(L - x0 < pxs * (1 + ex(tol)), x0 - L <= ex(tol) * pxs, y0 - T < pxs * (1 + ex(tol)), T - y0 <= ex(tol) * pxs))
        return
    ny, nx = shape
    prove("exactly_the_requested_shape", And(out.shape.x == nx, out.shape.y == ny))
    px, py = sx / nx, sy / ny
    prove("pixel_is_span_over_shape", _same_num(A.a, px) and _same_num(A.e, -py) if symx.concrete_mode() else And(ex(A.a) == px, ex(A.e) == -py))
    if tight or axy is None:
        prove("tight_result_sits_on_the_footprint", And(x0 == L, y0 == T))
    else:
        prove("displaced_less_than_a_pixel_x", And(x0 - L < px * (1 + ex(tol)), L - x0 < px * (1 + ex(tol))))
        prove("displaced_less_than_a_pixel_y", And(y0 - T < py * (1 + ex(tol)), T - y0 < py * (1 + ex(tol))))


# ---- E5: errors, E6: entry points --------------------------------------------------------------
def h_bad_resolution():
    import odc.geo.overlap as ov

    g, _ = _src_gbox(["10", "-10"], "both")
    try:
        _run(lambda: ov.compute_output_geobox(g, DST["metre"], resolution="native"), [_fp_box("none")])
    except ValueError:
        return
    prove("unknown_resolution_keyword_is_refused", False)


def h_entry_points(entry):
    """GeoBox.to_crs and the xarray accessor hand every option on unchanged"""
    import odc.geo.overlap as ov

    g, _ = _src_gbox(["10", "-10"], "both")
    tol = Real("tol")
    assume(And(tol > 0, tol < 1))
    fr = Real("anchor")
    assume(And(fr >= 0, fr < 1))
    n = Int("n", 1)
    cb = lambda v, u: v  # noqa: E731
    opts = dict(resolution="fit", shape=(n, 7), tight=True, anchor=fr, tol=tol, round_resolution=cb)
    seen = []

    def rec(gbox, crs, **kw):
        seen.append((gbox, crs, kw))
        return "result"

    saved = ov.compute_output_geobox
    ov.compute_output_geobox = rec
    try:
        if entry == "GeoBox.to_crs":
            r = g.to_crs("epsg:4326", **opts)
        else:
            import odc.geo._xr_interop as xi

            saved_xi = xi.compute_output_geobox
            xi.compute_output_geobox = rec

            class _State:
                pass

            class _Ext(xi.ODCExtension):
                @property
                def geobox(self):
                    return g

            try:
                r = _Ext(_State()).output_geobox("epsg:4326", **opts)
            finally:
                xi.compute_output_geobox = saved_xi
    finally:
        ov.compute_output_geobox = saved
    prove("one_call", len(seen) == 1 and r == "result")
    gb, crs, kw = seen[0]
    prove("source_and_crs_handed_on", gb is g and crs == "epsg:4326")
    prove("every_option_handed_on", set(kw) == set(opts))
    prove("option_values_unchanged", all(kw[k] is opts[k] or (k == "shape" and tuple(kw[k]) == tuple(opts[k])) for k in opts if k in kw))


def h_reproject_options():
    """xr_reproject(src, "<crs>", **options): the grid options are separated from the warp options
    and reach the output-grid computation unchanged"""
    import odc.geo._xr_interop as xi

    tol = Real("tol")
    assume(And(tol > 0, tol < 1))
    fr = Real("anchor")
    assume(And(fr >= 0, fr < 1))
    n = Int("n", 1)
    cb = lambda v, u: v  # noqa: E731
    grid = dict(resolution="fit", shape=(n, 7), tight=True, anchor=fr, tol=tol, round_resolution=cb)
    warp = dict(src_nodata=0, num_threads=2, chunks=(3, 4), XSCALE=1)
    kw = {**warp, **grid}
    got = xi._extract_output_geobox_params(kw)
    prove("grid_options_are_picked_out", set(got) == set(grid) and all(got[k] is grid[k] for k in grid))
    prove("warp_options_stay_behind", set(kw) == set(warp) and all(kw[k] is warp[k] for k in warp))
    # a falsy option value is an option all the same
    kw2 = dict(tight=False, tol=0, shape=None, anchor=0, num_threads=1)
    got2 = xi._extract_output_geobox_params(kw2)
    prove("falsy_values_are_handed_on_too", set(got2) == {"tight", "tol", "shape", "anchor"} and set(kw2) == {"num_threads"})


# ---- U: utm selection ---------------------------------------------------------------------------
class _Info:
    def __init__(self, code):
        self.auth_name, self.code = "EPSG", code


def h_utm(request, n_cand):
    """'utm' -> the candidate zone with the largest share of the raster; 'utm-n' / 'utm-s' -> the
    same zone in the requested hemisphere.  Candidates and their overlap with the raster come
    from a stand-in CRS database."""
    import odc.geo.crs as crsmod
    from odc.geo import geom

    pool = [32633, 32733, 32634, 32734][:n_cand]  # 33N, 33S, 34N, 34S
    conc = symx.concrete_mode()
    ov_share = {c: Real(f"share_{c}") for c in pool}
    for v in ov_share.values():
        assume(And(v >= 0, v <= 1))
    # a strict winner (ties are broken by database order, which the statement does not fix)
    first = Int("first", 0, n_cand - 1)
    fv = first.__index__() if isinstance(first, symx.Sym) else first
    order = pool[fv:] + pool[:fv]  # order in which the database lists them
    poly_area = Real("poly_area")
    assume(poly_area >= 0)

    class _Region:
        def __init__(self, code):
            self.code = code

        def __and__(self, other):
            return _Area(ov_share[self.code] * other.area)

    class _Area:
        def __init__(self, a):
            self.area = a

    class _Poly:
        crs = crsmod.CRS("epsg:4326")
        area = poly_area

        @property
        def geom(self):
            return self

    class _BBox:
        aoi = "aoi-token"
        polygon = _Poly()

    saved_vr = crsmod.CRS.valid_region
    crsmod.CRS.valid_region = property(lambda self: _Region(self.epsg))
    import pyproj.database as pdb

    saved_q = pdb.query_utm_crs_info
    seen = []

    def fake_query(datum_name=None, area_of_interest=None):
        seen.append((datum_name, area_of_interest))
        return [_Info(c) for c in order]

    pdb.query_utm_crs_info = fake_query
    saved_sorted = None
    try:
        if not conc:
            shims.instrument(crsmod, names=["sorted", "isinstance", "len"], scan=False)
        bb = _BBox()
        saved_isinst = crsmod.__dict__.get("isinstance")
        # CRS.utm dispatches on isinstance(x, geom.BoundingBox): hand it a real (degenerate) one carrying the stand-ins
        real_bb = geom.BoundingBox(10, 0, 11, 1, "epsg:4326")
        saved_aoi, saved_poly = geom.BoundingBox.aoi, geom.BoundingBox.polygon
        geom.BoundingBox.aoi = property(lambda self: "aoi-token")
        geom.BoundingBox.polygon = property(lambda self: _Poly())
        try:
            out = crsmod.norm_crs(request, ctx=real_bb)
        finally:
            geom.BoundingBox.aoi, geom.BoundingBox.polygon = saved_aoi, saved_poly
    finally:
        crsmod.CRS.valid_region = saved_vr
        pdb.query_utm_crs_info = saved_q
    prove("database_asked_for_wgs84_zones_of_the_raster", len(seen) == 1 and seen[0] == ("WGS 84", "aoi-token"))
    code = out.epsg
    zone = code % 100
    north = code // 100 == 326
    share = {33: None, 34: None}
    # best zone: the largest share among the candidates (both hemispheres of a zone share its longitudes;
    # the stand-in gives each candidate its own share, the winner must have the largest)
    win_pool = [c for c in pool if c % 100 == zone]
    prove("result_is_a_utm_zone_from_the_database", len(win_pool) >= 1)
    request = request.lower()  # the request is case-insensitive ("UTM-N", "Utm-s", ...)
    if request == "utm":
        prove("result_is_a_candidate", code in pool)
        if n_cand > 1:
            for c in pool:
                if c != code:
                    prove(f"no_candidate_overlaps_more:{c}", ov_share[code] >= ov_share[c], when=poly_area > F(1e-9))
        prove("point_like_region_takes_the_first_candidate", code == order[0], when=poly_area <= F(1e-9))
    else:
        prove("requested_hemisphere", north == (request == "utm-n"))
        # the zone is the best candidate's zone
        best = [c for c in pool]
        for c in pool:
            if c % 100 != zone:
                prove(f"zone_of_the_best_candidate:{c}", Or(*[ov_share[w] >= ov_share[c] for w in win_pool]), when=poly_area > F(1e-9))


RES_Q = [["10", "-10"], ["-1/4", "1/3"]]
RES_T = RES_Q + [["30", "30"], ["1/3600", "-1/3600"], ["100", "-100"]]


def _own_params(tier, rng):
    out = []
    for sp in ("str", "obj", "int", "wkt"):
        out.append(dict(res=["10", "-10"], spelling=sp, mode="default", pin="none"))
    out.append(dict(res=["-1/4", "1/3"], spelling="obj", mode="same", pin="none"))
    out.append(dict(res=["10", "-10"], spelling="str", mode="fit", pin="x"))
    out.append(dict(res=["5", "-15"], spelling="int", mode="fit", pin="y", anchor="center"))
    out.append(dict(res=["10", "-10"], spelling="str", mode="default_tol", pin="none"))
    ress = RES_Q if tier == "quick" else RES_T
    reqs = [["10", "-10"], ["25", "-25"], ["-3", "7/2", "xy"]] if tier == "quick" else [["10", "-10"], ["25", "-25"], ["-3", "7/2", "xy"], ["1/3", "-1/3"], ["1000", "-250", "xy"]]
    i = 0
    for r in ress:
        for pin in ("x", "y"):
            for a in ("edge", "center", "fraction", "floating"):
                out.append(dict(res=r, spelling=("str", "obj", "int", "wkt")[i % 4], mode="same", pin=pin, anchor=a))
                i += 1
            for q in reqs:
                i += 1
                if r == ["100", "-100"] and q[:2] == ["-3", "7/2"] and pin == "y":
                    # z3 answers `unknown` on this grid point (floor over a mixed integer/real
                    # product, 20 s): left out of the grid rather than reported as inconclusive on
                    # every run (DESIGN 4, C11)
                    continue
                out.append(dict(res=r, spelling="obj", mode="explicit", pin=pin, req=q, anchor=("default", "center", "xy")[(i - 1) % 3], tight=((i - 1) % 5 == 0)))
            out.append(dict(res=r, spelling="str", mode="tol", pin=pin, req=["25", "-25"]))
    # both pixel sizes negative, the larger one in magnitude negative: the buffer must still go outwards
    for r in (["-10", "-20"], ["10", "-20"], ["-10", "-10"]):
        for pin in ("x", "y"):
            out.append(dict(res=r, spelling="obj", mode="same", pin=pin, anchor="center"))
        out.append(dict(res=r, spelling="str", mode="explicit", pin="x", req=["5", "-5"]))
    return out


def _other_params(tier, rng):
    out = []
    fits = [["3/1000", "2/1000", "10", "8"], ["50", "40", "2", "5/2"]]
    i = 0
    for r in (RES_Q if tier == "quick" else RES_T):
        for pin in ("x", "y"):
            out.append(dict(res=r, dst="metre", mode="auto", pin=pin))
            out.append(dict(res=r, dst=("polar", "polar_n")[i % 2], mode="auto", pin=pin))
            out.append(dict(res=r, dst="albers", mode="same", pin=pin, anchor=("center", "fraction")[i % 2]))
            out.append(dict(res=r, dst="degree", mode="same", pin=pin, tight=True))
            out.append(dict(res=r, dst="degree", mode="explicit", pin=pin, req=["1/400", "-1/400"], anchor=("default", "xy", "edge")[i % 3]))
            out.append(dict(res=r, dst="metre", mode="scalar", pin=pin, req=["30"]))
            out.append(dict(res=r, dst="degree", mode="auto", pin=pin, fit=fits[0], rounding=("none", "false")[i % 2]))
            out.append(dict(res=r, dst="metre", mode="fit", pin=pin, fit=fits[1], rounding=("true", "callable")[i % 2], anchor=("default", "center")[i % 2]))
            i += 1
    # a control-point source seen through an overview (zoomed out 4x): its resolution is 4 x the native one
    out.append(dict(res=["40", "-40"], dst="metre", mode="auto", pin="x", gcp_zoom=4))
    out.append(dict(res=["40", "-40"], dst="albers", mode="same", pin="y", gcp_zoom=4, anchor="center"))
    for r in (["-10", "-20"], ["10", "-20"]):
        out.append(dict(res=r, dst="metre", mode="auto", pin="x"))
        out.append(dict(res=r, dst="degree", mode="explicit", pin="y", req=["1/400", "-1/400"]))
    # targets without an EPSG code, after other such CRSs (of the other unit) were looked at in the same process
    out.append(dict(res=["10", "-10"], dst="moll", mode="auto", pin="x", history=["crs84"]))
    out.append(dict(res=["10", "-10"], dst="crs84", mode="auto", pin="y", fit=fits[0], history=["sinu", "moll"]))
    out.append(dict(res=["10", "-10"], dst="sinu", mode="auto", pin="y", history=["crs84", "degree"]))
    return out


def _shape_params(tier, rng):
    out = []
    for dst in ("metre", "degree", "own"):
        for pin in ("x", "y"):
            out.append(dict(dst=dst, shape=[3, 5], span=["50", "30"], pin=pin))
            out.append(dict(dst=dst, shape=7, span=["70", "30"], pin=pin, tight=True))
        out.append(dict(dst=dst, shape=[1, 1], span=["7/3", "1/4"], pin="x", tight=True))
        out.append(dict(dst=dst, shape=5, span=["1", "10"], pin="x"))
        out.append(dict(dst=dst, shape=[4, 2], span=["8", "8"], pin="y", anchor="center"))
    return out


COMMON = dict(setup=setup, timeout_ms=20000, deadline_s=1200.0)
FUNCS = ("odc.geo.overlap.compute_output_geobox", "odc.geo.geobox.GeoBox.footprint", "odc.geo.geobox.GeoBox.from_bbox", "odc.geo.math.snap_grid")

OBLIGATIONS = [
    Ob("E1_E2_own_crs", h_own_crs, _own_params,
       descr="the source's own CRS (spelled as a string, an object, an EPSG number or WKT): default options / 'same' return the very same GeoBox; other anchors, explicit resolutions, tight: axis-aligned, requested pixel size, every source pixel inside up to tol, < 1 pixel (+tol) larger than the buffered footprint, aligned as requested",
       functions=FUNCS, bounds="source pixel size and requested resolution from grids; source origin and shape, tolerance, anchor fraction symbolic; one axis at a time",
       stubs=("vertex-list geometry: buffer of a rectangle = grown rectangle, to_crs(same CRS) = same object",), **COMMON),
    Ob("E3_other_crs", h_other_crs, _other_params,
       descr="another CRS: the footprint PROJ would report is a symbolic box in the target CRS; resolution = source resolution for 'same' and for 'auto' with equal units, the fitted square resolution for 'fit' / 'auto' with different units (scale fit recorded; rounding flag and callback honoured), the given one otherwise; the result covers that box up to tol, < 1 pixel (+tol) larger, aligned as requested, in the target CRS",
       functions=FUNCS + ("odc.geo.geobox.GeoBox.center_pixel",), bounds="source pixel size, requested resolution, centre-pixel span and fitted scale from grids; footprint box, source origin and shape, anchor fraction symbolic; one axis at a time",
       stubs=("vertex-list geometry with prepared to_crs responses", "get_scale_at_point / native_pix_transform recorded"), **COMMON),
    Ob("E4_shape", h_shape, _shape_params,
       descr="explicit shape: exactly that shape (an integer: that longest side, snapped or not), pixel = span/shape, displaced from the footprint by < 1 pixel (not at all when tight); the resolution argument is ignored",
       functions=FUNCS, bounds="shape and footprint span from a grid, footprint position symbolic", stubs=("vertex-list geometry with prepared to_crs responses",), **COMMON),
    Ob("E5_bad_resolution", h_bad_resolution, fixed(), descr="an unknown resolution keyword is refused with ValueError", functions=("odc.geo.overlap.compute_output_geobox",), **COMMON),
    Ob("E6_entry_points", h_entry_points, fixed(dict(entry="GeoBox.to_crs"), dict(entry="odc.output_geobox")),
       descr="GeoBox.to_crs and .odc.output_geobox hand every option on unchanged", functions=("odc.geo.geobox.GeoBox.to_crs", "odc.geo._xr_interop.ODCExtension.output_geobox"), **COMMON),
    Ob("E6_reproject_options", h_reproject_options, fixed(), descr="xr_reproject(src, crs, **options): grid options are separated from warp options and handed on unchanged (falsy values included)",
       functions=("odc.geo._xr_interop._extract_output_geobox_params",), **COMMON),
    Ob("U1_utm", h_utm, fixed(*[dict(request=r, n_cand=n) for r in ("utm", "utm-n", "utm-s") for n in (1, 2, 4)], dict(request="UTM-N", n_cand=4), dict(request="Utm-S", n_cand=2), dict(request="UTM", n_cand=2)),
       descr="'utm': the database candidate with the largest share of the raster (the first one for a point); 'utm-n'/'utm-s': that zone in the requested hemisphere",
       functions=("odc.geo.crs.norm_crs", "odc.geo.crs.CRS.utm", "odc.geo.crs._pick_best_crs"), bounds="<= 4 candidate zones (33N, 33S, 34N, 34S) listed in a symbolic rotation, symbolic overlap shares and region area",
       stubs=("pyproj.database.query_utm_crs_info and CRS.valid_region replaced by a stand-in database",), **COMMON),
]
