"""C17 -- ROI (slice) helpers agree with array slicing semantics.

Reference model: the index set ``range(*slice(start, stop).indices(n))`` of the Python data model
(step None/1), written once over symbolic ints (``pysel``).  Every helper of odc.geo.roi is run on
symbolic slices and compared with that model.
"""
from __future__ import annotations

from ..runner import Ob, fixed, tiered
from ..symx import (And, Bool, Implies, Int, Not, Or, Real, assume, const, ex, ite, prove,
                    s_max, s_min)
from .. import shims, symx

EXPLANATION = (
    "ROI helpers (odc.geo.roi) executed on symbolic slices/ints; each result compared with a reference model of "
    "Python/numpy slice semantics (slice.indices for step None/1) over unbounded symbolic integers; roi_from_points "
    "over a numpy model that includes the float->int32/int64 casts and their wrap-around."
)
ASSUMPTIONS = [
    "Python ints are mathematical integers (z3 Int); floats are modelled as exact reals",
    "helpers that do not receive the array length are checked on slices valid for some array (0 <= start <= stop)",
    "roi_is_full is checked on 0 <= start <= stop <= n (it compares with the shape literally, by design)",
    "integer indices are checked on -n <= i < n (outside numpy raises IndexError, there is no element set to compare)",
    "slice steps other than None/1 are outside the claim (roi helpers leave .step untouched)",
    "roi_from_points: image sides <= 2^31-1; float32 rounding of boundary points is outside the real model",
    "numpy's out-of-range float->int cast is modelled as on x86-64 (INT_MIN), checked against the installed numpy at start-up",
]


def setup():
    shims.install_core()


def preflight():
    from .. import npmodel

    npmodel.selfcheck()


def roi_mod():
    import odc.geo.roi as roi

    return roi


# ---------------------------------------------------------------------------------------------
def pysel(start, stop, n):
    """(lo, cnt): X[start:stop] on len(X)==n selects indices lo .. lo+cnt-1 (cnt may be 0)."""
    if start is None:
        lo = 0
    else:
        lo = ite(start < 0, s_max(start + n, 0), s_min(start, n))
    if stop is None:
        hi = n
    else:
        hi = ite(stop < 0, s_max(stop + n, 0), s_min(stop, n))
    cnt = s_max(hi - lo, 0)
    return lo, cnt


def mk_slice(tag, kind):
    """kind: two letters, each 'n' (None) or 'i' (symbolic int of any sign)"""
    a = None if kind[0] == "n" else Int(f"{tag}_start")
    b = None if kind[1] == "n" else Int(f"{tag}_stop")
    return slice(a, b)


def same_selection(label, s1, s2, n):
    lo1, c1 = pysel(s1.start, s1.stop, n)
    lo2, c2 = pysel(s2.start, s2.stop, n)
    prove(label + ":count", c1 == c2)
    prove(label + ":origin", Or(c1 == 0, lo1 == lo2))


# ---- N1: roi_normalise ---------------------------------------------------------------------
def h_normalise(kind, form):
    roi = roi_mod()
    n = Int("n", 0)
    s = mk_slice("s", kind)
    if form == "scalar":
        r = roi.roi_normalise(s, n)
    elif form == "tuple1":
        (r,) = roi.roi_normalise((s,), (n,))
    else:
        r = roi.roi_normalise(s, (n,))
    prove("norm:start_int", Not(r.start is None))
    prove("norm:stop_int", Not(r.stop is None))
    same_selection("norm", s, r, n)


def h_normalise_int():
    roi = roi_mod()
    n = Int("n", 1)
    i = Int("i")  # any integer: outside [-n, n) array indexing raises IndexError, so must this
    inside = And(i >= -n, i < n)
    try:
        r = roi.roi_normalise(i, n)
    except IndexError:
        prove("normint:only_out_of_range_indices_are_refused", Not(inside))
        return
    prove("normint:out_of_range_index_is_refused", inside)
    want = ite(i < 0, i + n, i)
    prove("normint:start", r.start == want)
    prove("normint:stop", r.stop == want + 1)


def h_normalise_nd(nd):
    roi = roi_mod()
    ns = tuple(Int(f"n{k}", 0) for k in range(nd))
    kinds = ["ii", "ni", "in"]
    ss = tuple(mk_slice(f"s{k}", kinds[k % 3]) for k in range(nd))
    rr = roi.roi_normalise(ss, ns)
    prove("normnd:len", len(rr) == nd)
    for k in range(nd):
        same_selection(f"normnd{k}", ss[k], rr[k], ns[k])


# ---- N2: slice_intersect3 / roi_intersect3 ---------------------------------------------------
def valid_slice(tag, open_start=False):
    a = None if open_start else Int(f"{tag}_start", 0)
    b = Int(f"{tag}_stop", 0)
    if a is not None:
        assume(a <= b)
    return slice(a, b)


def _st(s):
    return 0 if s.start is None else s.start


def h_intersect3(open_a, open_b):
    roi = roi_mod()
    a = valid_slice("a", open_a)
    b = valid_slice("b", open_b)
    a_, b_, ab = roi.slice_intersect3(a, b)
    _intersect3_atoms("i3", a, b, a_, b_, ab)


def _intersect3_atoms(L, a, b, a_, b_, ab):
    na = a.stop - _st(a)
    nb = b.stop - _st(b)
    # a' indexes into X[a] (length na), b' into X[b]
    prove(L + ":a'_in_range", And(0 <= a_.start, a_.start <= a_.stop, a_.stop <= na))
    prove(L + ":b'_in_range", And(0 <= b_.start, b_.start <= b_.stop, b_.stop <= nb))
    prove(L + ":ab_wellformed", And(0 <= ab.start, ab.start <= ab.stop))
    cnt = ab.stop - ab.start
    prove(L + ":same_count_a", a_.stop - a_.start == cnt)
    prove(L + ":same_count_b", b_.stop - b_.start == cnt)
    prove(L + ":a_maps", Or(cnt == 0, _st(a) + a_.start == ab.start))
    prove(L + ":b_maps", Or(cnt == 0, _st(b) + b_.start == ab.start))
    # ab' is exactly the common index set
    e = Int("e")
    in_a = And(_st(a) <= e, e < a.stop)
    in_b = And(_st(b) <= e, e < b.stop)
    in_ab = And(ab.start <= e, e < ab.stop)
    prove(L + ":ab_sound", Implies(in_ab, And(in_a, in_b)))
    prove(L + ":ab_complete", Implies(And(in_a, in_b), in_ab))


def h_intersect3_int():
    roi = roi_mod()
    i = Int("i", 0)
    b = valid_slice("b")
    a_, b_, ab = roi.slice_intersect3(i, b)
    _intersect3_atoms("i3int", slice(i, i + 1), b, a_, b_, ab)


def h_roi_intersect3_nd(nd):
    roi = roi_mod()
    aa = tuple(valid_slice(f"a{k}") for k in range(nd))
    bb = tuple(valid_slice(f"b{k}") for k in range(nd))
    ra, rb, rab = roi.roi_intersect3(aa, bb)
    prove("i3nd:len", len(ra) == nd and len(rb) == nd and len(rab) == nd)
    k = nd - 1
    na = aa[k].stop - aa[k].start
    cnt = rab[k].stop - rab[k].start
    prove("i3nd:cnt", And(ra[k].stop - ra[k].start == cnt, rb[k].stop - rb[k].start == cnt))
    e = Int("e")
    in_a = And(aa[k].start <= e, e < aa[k].stop)
    in_b = And(bb[k].start <= e, e < bb[k].stop)
    in_ab = And(rab[k].start <= e, e < rab[k].stop)
    prove("i3nd:exact", in_ab == And(in_a, in_b))
    prove("i3nd:a_maps", Or(cnt == 0, aa[k].start + ra[k].start == rab[k].start))
    prove("i3nd:a_rng", And(0 <= ra[k].start, ra[k].stop <= na))
    # first axis too (tuple order preserved)
    in_a0 = And(aa[0].start <= e, e < aa[0].stop)
    in_b0 = And(bb[0].start <= e, e < bb[0].stop)
    in_ab0 = And(rab[0].start <= e, e < rab[0].stop)
    prove("i3nd:exact0", in_ab0 == And(in_a0, in_b0))


# ---- N3: roi_intersect ------------------------------------------------------------------------
def h_intersect(form):
    roi = roi_mod()
    a = valid_slice("a")
    b = valid_slice("b")
    if form == "scalar":
        r = roi.roi_intersect(a, b)
    elif form == "mixed":
        r = roi.roi_intersect(a, (b,))
    else:
        (r,) = roi.roi_intersect((a,), (b,))
    e = Int("e")
    in_a = And(a.start <= e, e < a.stop)
    in_b = And(b.start <= e, e < b.stop)
    in_r = And(r.start <= e, e < r.stop)
    prove("int:wellformed", And(0 <= r.start, r.start <= r.stop))
    prove("int:sound", Implies(in_r, And(in_a, in_b)))
    prove("int:complete", Implies(And(in_a, in_b), in_r))


def h_intersect_nd():
    roi = roi_mod()
    aa = tuple(valid_slice(f"a{k}") for k in range(2))
    bb = tuple(valid_slice(f"b{k}") for k in range(2))
    rr = roi.roi_intersect(aa, bb)
    e = Int("e")
    for k in range(2):
        in_a = And(aa[k].start <= e, e < aa[k].stop)
        in_b = And(bb[k].start <= e, e < bb[k].stop)
        in_r = And(rr[k].start <= e, e < rr[k].stop)
        prove(f"intnd{k}:exact", in_r == And(in_a, in_b))
    # consistency with the emptiness query
    empty = roi.roi_is_empty(rr)
    overlap = And(*[And(s_max(aa[k].start, bb[k].start) < s_min(aa[k].stop, bb[k].stop)) for k in range(2)])
    prove("intnd:empty_iff_no_overlap", Not(empty) == overlap if isinstance(empty, symx.Sym) or isinstance(overlap, symx.Sym) else (not empty) == overlap)


# ---- N4: shape / empty / full / center ---------------------------------------------------------
def h_shape_empty(open_start):
    roi = roi_mod()
    a = valid_slice("a", open_start)
    b = valid_slice("b")
    i = Int("i", 0)
    sh = roi.roi_shape((a, b, i))
    prove("shape:a", sh[0] == a.stop - _st(a))
    prove("shape:b", sh[1] == b.stop - b.start)
    prove("shape:int", sh[2] == 1)
    (s1,) = roi.roi_shape(a)
    prove("shape:scalar", s1 == a.stop - _st(a))
    em = roi.roi_is_empty((a, b))
    want = Or(a.stop - _st(a) == 0, b.stop - b.start == 0)
    prove("empty:iff", em == want if isinstance(em, symx.Sym) else (Not(want) if not em else want))
    em1 = roi.roi_is_empty(a)
    w1 = a.stop - _st(a) == 0
    prove("empty:scalar", em1 == w1 if isinstance(em1, symx.Sym) else (Not(w1) if not em1 else w1))


def h_shape_reversed():
    """roi_shape is documented as xx[roi].shape: for non-negative bounds (the only ones it can
    resolve without the array length) a reversed slice selects nothing -- length 0, never negative"""
    roi = roi_mod()
    a, b = Int("start", 0), Int("stop", 0)
    (d,) = roi.roi_shape(slice(a, b))
    prove("shape_is_selection_length", d == s_max(b - a, 0))
    (d2,) = roi.roi_shape(slice(None, b))
    prove("shape_open_start", d2 == b)
    prove("empty_iff_no_elements", _iff(roi.roi_is_empty(slice(a, b)), b <= a))


def _iff(got, want):
    return got == want if isinstance(got, symx.Sym) else (want if got else Not(want))


def h_shape_open_stop():
    roi = roi_mod()
    a = slice(Int("a_start", 0), None)
    try:
        roi.roi_shape(a)
    except ValueError:
        return
    prove("shape:open_stop_raises", False)


def h_full(kind):
    roi = roi_mod()
    n = Int("n", 1)
    s = mk_slice("s", kind)  # any bounds incl. negative and reversed ...
    # ... except beyond +n: the repository's own test pins roi_is_full(s_[0:4], 3) to False
    # ("a slice larger than the array is not the array"), so that reading is not contested here
    if s.start is not None:
        assume(s.start <= n)
    if s.stop is not None:
        assume(s.stop <= n)
    full = roi.roi_is_full(s, n)
    _, cnt = pysel(s.start, s.stop, n)
    want = cnt == n
    _prove_iff("full", full, want)
    full2 = roi.roi_is_full((s,), (n,))
    _prove_iff("full:tuple", full2, want)


def h_full_int():
    roi = roi_mod()
    n = Int("n", 1)
    i = Int("i")
    assume(And(-n <= i, i < n))
    full = roi.roi_is_full(i, n)
    _prove_iff("full:int", full, n == 1)


def _prove_iff(label, got, want):
    if isinstance(got, symx.Sym) or isinstance(want, symx.Sym):
        prove(label + ":iff", got == want if isinstance(got, symx.Sym) else (want if got else Not(want)))
    else:
        prove(label + ":iff", bool(got) == bool(want))


def h_center():
    roi = roi_mod()
    a = valid_slice("a")
    b = valid_slice("b", True)
    c = roi.roi_center(a)
    prove("center:scalar", ex(c) * 2 == a.start + a.stop)
    ca, cb = roi.roi_center((a, b))
    prove("center:nd0", ex(ca) * 2 == a.start + a.stop)
    prove("center:nd1", ex(cb) * 2 == b.stop)
    i = Int("i", 0)
    ci = roi.roi_center(i)
    prove("center:int", ex(ci) * 2 == 2 * i + 1)


# ---- N5: roi_pad -------------------------------------------------------------------------------
def h_pad(kind, form):
    roi = roi_mod()
    n = Int("n", 0)
    pad = Int("pad", 0)
    s = mk_slice("s", kind)
    # pad is defined on slices that lie within the array once normalised
    lo, cnt = pysel(s.start, s.stop, n)
    if form == "scalar":
        r = roi.roi_pad(s, pad, n)
    else:
        (r,) = roi.roi_pad((s,), pad, (n,))
    prove("pad:within", And(0 <= r.start, r.stop <= n))
    # the non-empty selection grows by `pad` on each side, clamped to the array
    ne = cnt > 0
    prove("pad:start", r.start == s_max(0, lo - pad), when=ne)
    prove("pad:stop", r.stop == s_min(n, lo + cnt + pad), when=ne)
    prove("pad:contains", And(r.start <= lo, lo + cnt <= r.stop), when=ne)


# ---- N6: scaling -------------------------------------------------------------------------------
def h_scaled(scale):
    roi = roi_mod()
    a = valid_slice("a")
    b = valid_slice("b")
    k = const(scale)
    d = roi.scaled_down_roi((a, b), k)
    u = roi.scaled_up_roi(d, k)
    for i, (o, dd, uu) in enumerate(zip((a, b), d, u)):
        prove(f"scale{i}:contains", And(uu.start <= o.start, o.stop <= uu.stop))
        prove(f"scale{i}:tight_lo", o.start - uu.start < scale)
        prove(f"scale{i}:tight_hi", uu.stop - o.stop < scale)
        prove(f"scale{i}:down_def", And(dd.start * scale <= o.start, o.start < (dd.start + 1) * scale))
        prove(f"scale{i}:down_def_hi", And((dd.stop - 1) * scale < o.stop, o.stop <= dd.stop * scale), when=o.stop > 0)
    # clamped variant
    ny = Int("ny", 0)
    nx = Int("nx", 0)
    uc = roi.scaled_up_roi(d, k, (ny, nx))
    for i, (uu, ucl, dim) in enumerate(zip(u, uc, (ny, nx))):
        prove(f"scale{i}:clamp", And(ucl.start == s_min(dim, uu.start), ucl.stop == s_min(dim, uu.stop)))
    sh = roi.scaled_down_shape((ny, nx, a.stop), k)
    for i, (s0, dim) in enumerate(zip(sh, (ny, nx, a.stop))):
        prove(f"sdshape{i}", And(s0 * scale >= dim, (s0 - 1) * scale < dim) if True else True, when=dim > 0)
        prove(f"sdshape{i}:zero", s0 == 0, when=dim == 0)


# ---- N7: roi_from_points ------------------------------------------------------------------------
def h_from_points(npts, align, pad_mode):
    roi = roi_mod()
    import numpy as real_np

    from .. import npmodel

    ny = Int("ny", 1, 2**31 - 1)
    nx = Int("nx", 1, 2**31 - 1)
    if pad_mode == "zero":
        padding = 0
    else:
        padding = Int("padding", 0, 2**20)
    pts = []
    fin = []
    finxy = []
    for k in range(npts):
        x = Real(f"x{k}")
        y = Real(f"y{k}")
        # each coordinate is finite or not on its own (NaN in x, +inf in y when not)
        fx, fy = Bool(f"finite{k}"), Bool(f"finite_y{k}")
        finxy.append((fx, fy))
        fin.append(And(fx, fy) if not symx.concrete_mode() else (fx and fy))
        if symx.concrete_mode():
            pts.append([x if fx else float("nan"), y if fy else float("inf")])
        else:
            pts.append((x, y))
    if symx.concrete_mode():
        xy = real_np.asarray(pts, dtype="float64").reshape(-1, 2)
        coords = [(ex(p[0]), ex(p[1])) for p in pts]
    else:
        rows = [[x, y] for x, y in pts]
        coords = list(pts)
        xy = _MaskedPoints(rows, finxy)
    before = xy.copy() if symx.concrete_mode() else [list(r) for r in rows]
    ry, rx = roi.roi_from_points(xy, (ny, nx), padding, align=None if align == 0 else align)
    # the caller's points are read, not written (the same array is typically used again for another image)
    if symx.concrete_mode():
        prove("pts:callers_array_left_as_it_was", bool(real_np.array_equal(xy, before, equal_nan=True)))
    else:
        prove("pts:callers_array_left_as_it_was", And(*[a_ == b_ for r0, r1 in zip(before, rows) for a_, b_ in zip(r0, r1)]) if rows else True)
    prove("pts:within", And(0 <= rx.start, rx.stop <= nx, 0 <= ry.start, ry.stop <= ny))
    prove("pts:ordered", And(rx.start <= rx.stop, ry.start <= ry.stop))
    anyfin = Or(*fin) if fin else False
    prove("pts:all_nonfinite_empty", And(rx.start == rx.stop, ry.start == ry.stop), when=Not(anyfin))
    for k, ((x, y), f) in enumerate(zip(coords, fin)):
        inside = And(f, 0 <= x, x < nx, 0 <= y, y < ny) if not isinstance(f, bool) else (f and And(0 <= x, x < nx, 0 <= y, y < ny))
        # every finite in-image point is inside, together with its padding margin (clamped)
        prove(f"pts{k}:contains_x", And(rx.start <= x, x < rx.stop) if False else And(ex(rx.start) <= x, x <= ex(rx.stop)), when=inside)
        prove(f"pts{k}:contains_y", And(ex(ry.start) <= y, y <= ex(ry.stop)), when=inside)
        prove(f"pts{k}:pad_lo_x", Or(rx.start == 0, ex(rx.start) <= x - padding), when=inside)
        prove(f"pts{k}:pad_hi_x", Or(rx.stop == nx, ex(rx.stop) >= x + padding), when=inside)
        prove(f"pts{k}:pad_lo_y", Or(ry.start == 0, ex(ry.start) <= y - padding), when=inside)
        prove(f"pts{k}:pad_hi_y", Or(ry.stop == ny, ex(ry.stop) >= y + padding), when=inside)
    # non-finite points are IGNORED: the region hugs the envelope of the finite points -- it starts
    # no lower than the smallest finite coordinate (floored) minus padding and alignment slack, and
    # ends no higher than the largest (ceiled) plus those; a coordinate of a point whose other
    # coordinate is not finite does not count
    slack = padding + ((align - 1) if align else 0)
    for c, (r_, n_) in enumerate(((rx, nx), (ry, ny))):
        for k, f in enumerate(fin):
            others_ge = [Or(Not(g), coords[j][c] >= coords[k][c]) if not isinstance(g, bool) else ((not g) or coords[j][c] >= coords[k][c]) for j, g in enumerate(fin)]
            others_le = [Or(Not(g), coords[j][c] <= coords[k][c]) if not isinstance(g, bool) else ((not g) or coords[j][c] <= coords[k][c]) for j, g in enumerate(fin)]
            is_min = And(f, *others_ge) if not isinstance(f, bool) else (f and all(bool(v) for v in others_ge))
            is_max = And(f, *others_le) if not isinstance(f, bool) else (f and all(bool(v) for v in others_le))
            v = coords[k][c]
            prove(f"pts:hugs_the_finite_points_from_below[{'xy'[c]}{k}]", Or(ex(r_.start) > v - 1 - slack, r_.start == r_.stop, r_.start == n_), when=is_min)
            prove(f"pts:hugs_the_finite_points_from_above[{'xy'[c]}{k}]", Or(ex(r_.stop) < v + 1 + slack, r_.start == r_.stop, r_.stop == 0), when=is_max)
    if align:
        prove("pts:aligned_x", And(Or(rx.start % align == 0, rx.start == nx), Or(rx.stop % align == 0, rx.stop == nx, rx.stop == 0)))
        prove("pts:aligned_y", And(Or(ry.start % align == 0, ry.start == ny), Or(ry.stop % align == 0, ry.stop == ny, ry.stop == 0)))


def h_boundary(pps):
    """roi_boundary: 4*(pps-1) points, all on the perimeter of the roi rectangle, corners included,
    in ring order starting at the top-left corner"""
    roi = roi_mod()
    y0, x0 = Int("y0", 0), Int("x0", 0)
    h, w = Int("h", 0), Int("w", 0)
    r = (slice(y0, y0 + h), slice(x0, x0 + w))
    pts = roi.roi_boundary(r, pps)
    pl = pts.tolist() if hasattr(pts, "tolist") else list(pts)
    prove("count", len(pl) == 4 * (pps - 1))
    X0, X1, Y0, Y1 = x0, x0 + w, y0, y0 + h
    if symx.concrete_mode():
        # float32 rounding of the boundary points: compare with the float32 images of the edges
        import numpy as np

        f32 = lambda v: F(float(np.float32(v)))  # noqa: E731
        X0, X1, Y0, Y1 = f32(X0), f32(X1), f32(Y0), f32(Y1)
    for k, (px, py) in enumerate(pl):
        px, py = ex(px), ex(py)
        prove(f"pt{k}_inside_closed_rectangle", And(X0 <= px, px <= X1, Y0 <= py, py <= Y1))
        prove(f"pt{k}_on_perimeter", Or(px == X0, px == X1, py == Y0, py == Y1))
    prove("starts_at_top_left", And(ex(pl[0][0]) == X0, ex(pl[0][1]) == Y0))
    corners = [(X1, Y0), (X1, Y1), (X0, Y1)]
    for ci, (cx, cy) in enumerate(corners):
        k = (ci + 1) * (pps - 1)
        prove(f"corner{ci + 1}_at_index_{k}", And(ex(pl[k][0]) == cx, ex(pl[k][1]) == cy))


def h_window():
    """w_[roi]: rasterio window tuples ((row_start, row_stop), (col_start, col_stop))"""
    roi = roi_mod()
    a, b, c = Int("a", 0), Int("b", 0), Int("c", 0)
    win = roi.w_[slice(a, b), slice(None, c)]
    prove("window", And(win[0][0] == a, win[0][1] == b, win[1][0] == 0, win[1][1] == c))
    prove("none_passthrough", roi.w_[None] is None)
    try:
        roi.w_[(slice(a, b),)]
    except ValueError:
        return
    prove("needs_2d", False)


class _MaskedPoints:
    """Nx2 points where coordinate (k, c) is finite iff fin[k][c] (symbolic flags): presents to
    roi_from_points the numpy operations it uses (ndim/shape, isfinite mask, row filtering in
    either idiom: xy[keep, :] or xy[keep])."""

    def __init__(self, rows, fin):
        self.rows, self.fin = rows, fin
        self.ndim = 2
        self.shape = (len(rows), 2)

    def isfinite_mask(self):
        from .. import npmodel

        return npmodel.SymArray([[fx, fy] for fx, fy in self.fin], "bool")

    def filtered(self, keep):
        from .. import npmodel

        kd = keep.data if hasattr(keep, "data") else list(keep)
        rows = [r for r, k in zip(self.rows, kd) if bool(k)]
        return npmodel.SymArray(rows, "float64") if rows else _Empty()


class _Empty:
    shape = (0, 2)
    ndim = 2


def _install_masked():
    from .. import npmodel

    NP = npmodel.NP
    if getattr(NP, "_masked", False):
        return
    _isf = NP.isfinite

    def isfinite(a):
        if isinstance(a, _MaskedPoints):
            return _MaskMask(a)
        return _isf(a)

    NP.isfinite = staticmethod(isfinite)
    _clip, _asarray = NP.clip, NP.asarray

    def clip(a, lo, hi, out=None):
        if isinstance(a, _MaskedPoints):
            # numpy semantics incl. the in-place form: out=a overwrites the caller's array
            if not all(bool(And(fx, fy)) for fx, fy in a.fin):
                raise symx.Unsupported("clip of points that are not all finite")
            rows = [[npmodel.f_clip(v, lo, hi) for v in r] for r in a.rows]
            if out is a:
                for r, nr in zip(a.rows, rows):
                    r[:] = nr
                return a
            if out is not None:
                raise symx.Unsupported("clip into another array")
            return _MaskedPoints(rows, a.fin)
        return _clip(a, lo, hi, out=out)

    def asarray(x, dtype=None):
        if isinstance(x, _MaskedPoints):
            return x  # a float64 array is handed back as it is (no copy)
        return _asarray(x, dtype) if dtype is not None else _asarray(x)

    _where = getattr(NP, "where", None)

    def where(cond, a, b):
        # where(isfinite(xy), xy, nan): the same points, the non-finite entries as NaN
        if isinstance(cond, _MaskMask) and cond.mp is a and isinstance(b, float) and b != b:
            return _NanPoints(a)
        if _where is not None:
            return _where(cond, a, b)
        import numpy as real_np

        return real_np.where(cond, a, b)

    def _nan_extreme(kind):
        def f(a, axis=None):
            mp = a.mp if isinstance(a, _NanPoints) else a
            if not isinstance(mp, _MaskedPoints) or axis != 0:
                raise symx.Unsupported("nanmin/nanmax of something else")
            out = []
            for c in (0, 1):
                vals = [r[c] for r, fl in zip(mp.rows, mp.fin) if bool(fl[c])]  # forks on the flags
                if not vals:
                    out.append(float("nan"))
                elif len(vals) == 1:
                    out.append(vals[0])
                else:
                    out.append(symx.m_min(*vals) if kind == "min" else symx.m_max(*vals))
            return npmodel.SymArray(out, "float64")

        return f

    NP.where = staticmethod(where)
    NP.nanmin = staticmethod(_nan_extreme("min"))
    NP.nanmax = staticmethod(_nan_extreme("max"))
    NP.clip = staticmethod(clip)
    NP.asarray = staticmethod(asarray)
    NP._masked = True


class _NanPoints:
    """the points with their non-finite entries replaced by NaN"""

    ndim = 2

    def __init__(self, mp):
        self.mp = mp
        self.shape = mp.shape


class _MaskMask:
    def __init__(self, mp):
        self.mp = mp
        self.m = mp.isfinite_mask()

    def all(self, *a, **kw):
        return self.m.all(*a, **kw)

    def any(self, axis=None):
        from .. import npmodel

        cols = [Or(*[f[c] for f in self.mp.fin]) if self.mp.fin else False for c in (0, 1)]
        if axis == 0:
            return npmodel.SymArray(cols, "bool")
        if axis is None:
            return Or(*cols)
        raise symx.Unsupported("mask.any along rows")

    @property
    def T(self):
        return self.m.T

    def __getitem__(self, idx):
        return self.m[idx]


def _mp_getitem(self, idx):
    keep = idx[0] if isinstance(idx, tuple) else idx
    return self.filtered(keep)


_MaskedPoints.__getitem__ = _mp_getitem


def _mp_minmax(name):
    def f(self, axis=0):
        from .. import npmodel

        return getattr(npmodel.SymArray(self.rows, "float64"), name)(axis=axis)

    return f


_MaskedPoints.min = _mp_minmax("min")
_MaskedPoints.max = _mp_minmax("max")


def setup_pts():
    setup()
    _install_masked()


# ---- N8: Tiles / GeoBox indexing reuse roi_normalise (checked in C04 / C02) -------------------

KINDS = ["ii", "ni", "in", "nn"]


def _xh_custom(param, tier):
    from ..xh import run

    return run.run_twins(param, tier)


def _xh_replay(param, model):
    from ..xh import run

    return run.replay_twin(param, model)


OBLIGATIONS = [
    Ob("N1_normalise", h_normalise,
       fixed(*[dict(kind=k, form=f) for k in KINDS for f in ("scalar", "tuple1", "mixed")]),
       descr="roi_normalise(slice, n) selects the same elements as the original slice (all signs, None, beyond +-n)",
       functions=("odc.geo.roi.roi_normalise", "odc.geo.roi._norm_slice"),
       bounds="n >= 0 unbounded; start/stop in {None, any int}", setup=setup),
    Ob("N1_normalise_int", h_normalise_int, fixed(),
       descr="integer index -n <= i < n becomes slice(i%n, i%n+1)",
       functions=("odc.geo.roi.roi_normalise",), bounds="n >= 1, -n <= i < n", setup=setup),
    Ob("N1_normalise_nd", h_normalise_nd, fixed(dict(nd=2), dict(nd=3)),
       descr="N-D tuples (length 2, 3)", functions=("odc.geo.roi.roi_normalise",),
       bounds="per-axis n >= 0, slices mixed open/closed", setup=setup),
    Ob("N2_intersect3", h_intersect3,
       fixed(*[dict(open_a=a, open_b=b) for a in (False, True) for b in (False, True)]),
       descr="X[a][a'] == X[b][b'] == X[ab'], ab' exactly the common index set incl. touching/disjoint",
       functions=("odc.geo.roi.slice_intersect3", "odc.geo.roi._norm_slice_or_error"),
       bounds="0 <= start <= stop unbounded; start possibly None; probe element e any int", setup=setup),
    Ob("N2_intersect3_int", h_intersect3_int, fixed(),
       descr="integer index as first operand", functions=("odc.geo.roi.slice_intersect3",),
       bounds="i >= 0", setup=setup),
    Ob("N2_roi_intersect3_nd", h_roi_intersect3_nd, fixed(dict(nd=2), dict(nd=3)),
       descr="roi_intersect3 on N-D tuples", functions=("odc.geo.roi.roi_intersect3",),
       bounds="nd in {2,3}", setup=setup),
    Ob("N3_intersect", h_intersect, fixed(dict(form="scalar"), dict(form="mixed"), dict(form="tuple")),
       descr="roi_intersect is exactly the common index set (empty slice when disjoint)",
       functions=("odc.geo.roi.roi_intersect",), bounds="0 <= start <= stop unbounded", setup=setup),
    Ob("N3_intersect_nd", h_intersect_nd, fixed(),
       descr="2-D roi_intersect and roi_is_empty of the result", functions=("odc.geo.roi.roi_intersect", "odc.geo.roi.roi_is_empty"),
       bounds="2 axes", setup=setup),
    Ob("N4_shape_empty", h_shape_empty, fixed(dict(open_start=False), dict(open_start=True)),
       descr="roi_shape / roi_is_empty match the index sets", functions=("odc.geo.roi.roi_shape", "odc.geo.roi.roi_is_empty"),
       bounds="0 <= start <= stop", setup=setup),
    Ob("N4_shape_reversed", h_shape_reversed, fixed(), descr="roi_shape == length of the selection for non-negative bounds, 0 (not negative) for reversed slices; roi_is_empty agrees",
       functions=("odc.geo.roi.roi_shape", "odc.geo.roi.roi_is_empty"), bounds="start, stop >= 0 symbolic", setup=setup),
    Ob("N4_shape_open", h_shape_open_stop, fixed(),
       descr="roi_shape refuses an open right-hand side", functions=("odc.geo.roi.roi_shape",), setup=setup),
    Ob("N4_full", h_full, fixed(*[dict(kind=k) for k in KINDS]),
       descr="roi_is_full iff the slice selects all n elements", functions=("odc.geo.roi.roi_is_full",),
       bounds="0 <= start <= stop <= n", setup=setup),
    Ob("N4_full_int", h_full_int, fixed(), descr="integer index is full iff n == 1",
       functions=("odc.geo.roi.roi_is_full",), setup=setup),
    Ob("N4_center", h_center, fixed(), descr="roi_center is the midpoint", functions=("odc.geo.roi.roi_center",), setup=setup),
    Ob("N5_pad", h_pad, fixed(*[dict(kind=k, form=f) for k in KINDS for f in ("scalar", "tuple")]),
       descr="roi_pad grows the selection by pad on each side, clamped to the array",
       functions=("odc.geo.roi.roi_pad",), bounds="n >= 0, pad >= 0, any slice", setup=setup),
    Ob("N6_scaled", h_scaled, tiered([dict(scale=s) for s in (1, 2, 3, 7)], [dict(scale=s) for s in (1, 2, 3, 4, 5, 7, 8, 16, 255)]),
       descr="scaled_down_roi then scaled_up_roi contains the original and exceeds it by < scale; scaled_down_shape",
       functions=("odc.geo.roi.scaled_down_roi", "odc.geo.roi.scaled_up_roi", "odc.geo.roi.scaled_down_shape", "odc.geo.math.align_up"),
       bounds="scale from grid; slices unbounded", setup=setup),
    Ob("N8_boundary", h_boundary, tiered([dict(pps=2), dict(pps=5)], [dict(pps=p) for p in (2, 3, 5, 16)]),
       descr="roi_boundary: 4(p-1) points on the perimeter of the region, corners included, ring order from the top-left",
       functions=("odc.geo.roi.roi_boundary", "odc.geo.roi.polygon_path", "odc.geo.math.edge_index"), bounds="region origin and size symbolic >= 0; points per side from grid",
       stubs=("NumpyModel (linspace, fancy index, vstack)",), setup=setup),
    Ob("N8_window", h_window, fixed(), descr="w_[roi] window tuples", functions=("odc.geo.roi.WindowFromSlice.__getitem__",), setup=setup),
    Ob("X_crosshair_twins", None, tiered([], [dict(per_condition_timeout=20)]), custom=_xh_custom, custom_replay=_xh_replay,
       descr="second engine (thorough tier): CrossHair 0.0.110 on contract twins of the integer kernels (align_down/up, slice_intersect3, roi_intersect, roi_normalise, roi_pad, scaled_down/up_roi); 'Confirmed over all paths' recorded, 'Not confirmed' ignored, a counterexample replayed",
       functions=("odc.geo.roi.slice_intersect3", "odc.geo.roi.roi_intersect", "odc.geo.roi.roi_pad", "odc.geo.roi.scaled_down_roi", "odc.geo.math.align_up"), bounds="CrossHair's own path exploration, 20 s per condition"),
    Ob("N7_from_points", h_from_points,
       tiered([dict(npts=1, align=0, pad_mode="sym"), dict(npts=2, align=0, pad_mode="sym"), dict(npts=2, align=4, pad_mode="zero"), dict(npts=2, align=16, pad_mode="sym")],
              [dict(npts=n, align=a, pad_mode=p) for n in (1, 2, 3) for a in (0, 4, 16) for p in ("zero", "sym")]),
       descr="roi_from_points: within image, contains every finite in-image point with padding, ignores non-finite, any coordinate magnitude",
       functions=("odc.geo.roi.roi_from_points", "odc.geo.math.align_down", "odc.geo.math.align_up"),
       bounds="<= 3 points, each finite or not (symbolic flag), coordinates unbounded reals, padding 0..2^20, align grid {None,4,16}, sides <= 2^31-1",
       stubs=("NumpyModel (SymArray, astype int32/int64 with x86 out-of-range semantics, clip)",), setup=setup_pts,
       timeout_ms=20000),
]
