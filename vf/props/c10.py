"""C10 -- the paste shortcut is pixel-identical to a nearest-neighbour warp (planning side)."""
from __future__ import annotations

from fractions import Fraction as F

from .. import shims, symx
from ..runner import Ob, fixed, tiered
from ..symx import (And, Bool, Implies, Int, Not, Or, Real, assume, const, ex, ite, prove,
                    rconst, m_max, m_min)
from .c03 import mk_pair, src_of, _rs

EXPLANATION = (
    "Oracle: the pixel-centre nearest-neighbour rule (destination pixel p samples source pixel floor(A(p + 1/2)) when "
    "that lies in the source, nodata otherwise). Decided: whenever compute_reproject_roi reports paste_ok with "
    "read_shrink 1, roi_dst is exactly the set of destination pixels whose centre falls in the source and pixel "
    "roi_dst.start+u samples roi_src.start+u (mirrored: roi_src.stop-1-u) = floor(A(p+1/2)) of the un-snapped map; for "
    "read_shrink k > 1 roi_src is k times the overview-space region; paste_ok only for integer scale + whole-pixel shift "
    "within tolerance, never with rotation, shear, fractional scale, larger residues, padding or alignment."
)
ASSUMPTIONS = [
    "that rasterio.warp.reproject(..., nearest) implements the pixel-centre rule for every dtype is a property of GDAL and outside the claim",
    "floats as exact reals; integer scale k from a grid, residues / translations / sizes / probe pixel symbolic",
    "_can_paste: near-integer scales are explored under s = k + eps with eps symbolic; decompose_rws on axis-aligned input runs through the exact-Cholesky model",
    "sub-pixel residue |r| <= ttol < 1/2 (ttol defaults 0.05 / 0.01)",
]
TTOL = F(0.05)
STOL = F(1e-3)


def setup():
    shims.install_core()


def setup_rws_stub():
    """_can_paste with a symbolic near-integer scale: decompose_rws on an axis-aligned affine is
    replaced by its contract (C20/N9 decides the real function for every matrix): R proper
    rotation, W unit upper triangular, S diagonal, R W S == A  =>  for b == d == 0 and the code's
    choice S.a > 0:  S = diag(|a|, e * sgn(a)),  R = sgn(a) * I."""
    shims.install_core()
    import odc.geo.overlap as ov
    from affine import Affine

    real = ov.decompose_rws

    def decompose_rws(A):
        if isinstance(A, Affine) and any(isinstance(v, symx.Sym) for v in (A.a, A.e)):
            zb = A.b == 0
            zd = A.d == 0
            if (zb is True or (not isinstance(zb, symx.Sym) and zb)) and (zd is True or (not isinstance(zd, symx.Sym) and zd)):
                if A.a > 0:  # forks
                    return Affine(1.0, 0.0, A.c, 0.0, 1.0, A.f), Affine(1.0, 0.0, 0.0, 0.0, 1.0, 0.0), Affine(A.a, 0.0, 0.0, 0.0, A.e, 0.0)
                if A.a < 0:
                    return Affine(-1.0, 0.0, A.c, 0.0, -1.0, A.f), Affine(1.0, 0.0, 0.0, 0.0, 1.0, 0.0), Affine(-A.a, 0.0, 0.0, 0.0, -A.e, 0.0)
                raise ZeroDivisionError("singular")
        return real(A)

    ov.decompose_rws = decompose_rws


def preflight():
    """the axis-aligned decompose_rws contract stub vs the real function on concrete inputs"""
    from affine import Affine

    from odc.geo.math import decompose_rws

    for a, e in ((2.0, -3.0), (-2.0, 3.0), (-1.5, -0.25), (7.0, 7.0), (1.0000001, -0.9999999)):
        R, W, S = decompose_rws(Affine(a, 0, 5, 0, e, 6))
        want = (abs(a), e * (1 if a > 0 else -1))
        assert abs(S.a - want[0]) < 1e-12 and abs(S.e - want[1]) < 1e-12 and abs(S.b) < 1e-12, (a, e, S)
        assert abs(R.a - (1 if a > 0 else -1)) < 1e-12 and abs(W.b) < 1e-12, (a, e, R, W)


def ovm():
    import odc.geo.overlap as ov

    return ov


# ---- P1: _can_paste ---------------------------------------------------------------------------------
def h_can_paste(k, sgnx, sgny):
    from affine import Affine

    ov = ovm()
    ex_, ey_ = Real("eps_x"), Real("eps_y")
    assume(And(abs(ex_) <= F(1, 100), abs(ey_) <= F(1, 100)))
    tx, ty_ = Real("tx"), Real("ty")
    sx = sgnx * (k + ex_)
    sy = sgny * (k + ey_)
    A = Affine(sx, 0.0, tx, 0.0, sy, ty_)
    ok, why = ov._can_paste(A, ttol=rconst(TTOL), stol=rconst(STOL))
    near_x = abs(ex(ex_)) / k
    near_y = abs(ex(ey_)) / k

    def dist_int(v):
        v = ex(v)
        f = symx.s_floor(v)
        lo = v - f
        return lo if lo <= F(1, 2) else 1 - lo  # forks

    if ok:
        smin_eps = ex(ex_) if True else None
        prove("true=>scales_equal_within_stol", And(near_x <= STOL, near_y <= STOL))
        prove("true=>tx_within_ttol", dist_int(ex(tx) / k) < TTOL)
        prove("true=>ty_within_ttol", dist_int(ex(ty_) / k) < TTOL)
        prove("reason_none", why is None)
    else:
        prove("reason_given", isinstance(why, str))
    # exact integer grids are always pasteable
    exact = And(ex(ex_) == 0, ex(ey_) == 0, ex(tx) == symx.s_floor(ex(tx)) , ex(ty_) == symx.s_floor(ex(ty_)),
                (symx.s_floor(ex(tx)) % k) == 0, (symx.s_floor(ex(ty_)) % k) == 0)
    prove("exact_grid=>true", ok is True or ok == True, when=exact)  # noqa: E712


def h_can_paste_rot():
    from affine import Affine

    ov = ovm()
    b, d = Real("b"), Real("d")
    assume(Or(abs(b) >= F(1e-10), abs(d) >= F(1e-10)))
    A = Affine(rconst(1), b, Real("tx"), d, rconst(1), Real("ty"))
    ok, why = ov._can_paste(A)
    prove("rotation_or_shear_never_pasted", ok is False)


def h_can_paste_frac(s):
    from affine import Affine

    ov = ovm()
    A = Affine(rconst(F(s)), 0.0, Real("tx"), 0.0, rconst(F(s)), Real("ty"))
    ok, why = ov._can_paste(A)
    prove("fractional_scale_never_pasted", ok is False)


# ---- P2/P3: exactness of the planned regions ---------------------------------------------------------
def h_paste_exact(k, mx, my, pin="none"):
    ov = ovm()
    src, dst, L, t, (Nsy, Nsx, Ndy, Ndx) = mk_pair(k, k, mx, my, None, bound=True, pin=pin)
    rr = ov.compute_reproject_roi(src, dst)
    if not rr.paste_ok:
        # (P4) not pasteable: some residue is beyond the tolerance
        def far(v):
            v = v / k
            f = symx.s_floor(v)
            return And(v - f >= TTOL, f + 1 - v >= TTOL)

        prove("refused_only_beyond_ttol", Or(far(t[0]), far(t[1])))
        return
    rs = _rs(rr)
    prove("read_shrink_is_k", rs == k)
    (sy_, sx_), (dy_, dx_) = rr.roi_src, rr.roi_dst
    u, v = Int("u"), Int("v")
    assume(And(0 <= u, u < Ndx, 0 <= v, v < Ndy))
    # un-snapped map of the pixel centre
    sx, sy = src_of(L, t, u + F(1, 2), v + F(1, 2))
    fx, fy = symx.s_floor(sx), symx.s_floor(sy)
    if k == 1:
        in_x = And(fx >= 0, fx < Nsx)
        in_y = And(fy >= 0, fy < Nsy)
    else:
        # read_shrink k: the statement only asks that roi_src is k x the overview-space region;
        # that region is checked against the zoom_out(k) source (ceil(N/k) overview pixels)
        in_x = And(fx >= 0, fx < ((Nsx + k - 1) // k) * k)
        in_y = And(fy >= 0, fy < ((Nsy + k - 1) // k) * k)
    in_dx = And(dx_.start <= u, u < dx_.stop)
    in_dy = And(dy_.start <= v, v < dy_.stop)
    # roi_dst is EXACTLY the set of destination pixels whose centre falls in the source
    prove("col_in_roi=>centre_inside", in_x, when=in_dx)
    prove("centre_inside=>col_in_roi", in_dx, when=in_x)
    prove("row_in_roi=>centre_inside", in_y, when=in_dy)
    prove("centre_inside=>row_in_roi", in_dy, when=in_y)
    # regions are k : 1 and the index map is the nearest-neighbour map
    prove("shape_x", sx_.stop - sx_.start == k * (dx_.stop - dx_.start), when=dx_.stop > dx_.start)
    prove("shape_y", sy_.stop - sy_.start == k * (dy_.stop - dy_.start), when=dy_.stop > dy_.start)
    if k == 1:
        ux = u - dx_.start
        vy = v - dy_.start
        want_x = sx_.start + ux if mx > 0 else sx_.stop - 1 - ux
        want_y = sy_.start + vy if my > 0 else sy_.stop - 1 - vy
        prove("index_map_x", want_x == fx, when=in_dx)
        prove("index_map_y", want_y == fy, when=in_dy)
    else:
        # overview pixel (k x k block) that the centre falls into
        ux = u - dx_.start
        vy = v - dy_.start
        blk_x = sx_.start + k * ux if mx > 0 else sx_.stop - k * (ux + 1)
        blk_y = sy_.start + k * vy if my > 0 else sy_.stop - k * (vy + 1)
        prove("block_map_x", And(blk_x <= fx, fx < blk_x + k), when=in_dx)
        prove("block_map_y", And(blk_y <= fy, fy < blk_y + k), when=in_dy)
        prove("roi_src_multiple_of_k", And(sx_.start % k == 0, sx_.stop % k == 0, sy_.start % k == 0, sy_.stop % k == 0))


def h_paste_near_integer(eps, mx):
    """a scale that is only NEAR an integer (inside the scale tolerance): when the plan says
    paste, the pasted pixel must still be the nearest-neighbour pixel -- for every destination
    pixel, however wide the images are (the drift eps * u grows with the pixel index)"""
    ov = ovm()
    k = 1 + F(eps)
    src, dst, L, t, (Nsy, Nsx, Ndy, Ndx) = mk_pair(k, k, mx, 1, None, bound=True, pin="y:aligned")
    rr = ov.compute_reproject_roi(src, dst)
    if not rr.paste_ok:
        return  # refusing is always allowed
    prove("read_shrink_is_1", _rs(rr) == 1)
    (sy_, sx_), (dy_, dx_) = rr.roi_src, rr.roi_dst
    u = Int("u")
    assume(And(0 <= u, u < Ndx, dx_.start <= u, u < dx_.stop))
    sx, _ = src_of(L, t, u + F(1, 2), F(1, 2))
    fx = symx.s_floor(sx)
    ux = u - dx_.start
    want_x = sx_.start + ux if mx > 0 else sx_.stop - 1 - ux
    prove("pasted_pixel_is_the_nearest_neighbour", want_x == fx)



def h_paste_caller_stol(k, eps, stol, mx=1):
    """the caller widens the scale tolerance (stol above the default 1e-3) and the scale sits
    between the two tolerances below an integer: whatever the planner decides, its answers agree
    with each other -- when it says paste, the source region is read_shrink x the destination region"""
    ov = ovm()
    kk = F(k) + F(eps)
    src, dst, L, t, (Nsy, Nsx, Ndy, Ndx) = mk_pair(kk, kk, mx, 1, None, bound=True, pin="y:aligned")
    rr = ov.compute_reproject_roi(src, dst, stol=rconst(F(stol)))
    if not rr.paste_ok:
        return  # refusing is always allowed
    rs = _rs(rr)
    (sy_, sx_), (dy_, dx_) = rr.roi_src, rr.roi_dst
    prove("paste:source_region_is_read_shrink_times_the_destination_region_x", sx_.stop - sx_.start == rs * (dx_.stop - dx_.start), when=dx_.stop > dx_.start)
    prove("paste:source_region_is_read_shrink_times_the_destination_region_y", sy_.stop - sy_.start == rs * (dy_.stop - dy_.start), when=dy_.stop > dy_.start)
    # and the read-shrink factor is within the stated tolerance of the scale
    prove("paste:read_shrink_is_the_scale_to_within_stol", abs(rs - kk) <= F(stol) * rs)


def setup_warp():
    setup()
    if symx.concrete_mode():
        return
    import odc.geo.warp as warp

    shims.instrument(warp, names=["isinstance"], scan=False)


def h_warp_call(dtype, nd, nodata):
    """what rio_reproject asks of GDAL, and what it makes of the answer, for every pixel type:
    each 2-D plane is warped once; an explicit destination nodata value -- zero included -- is
    handed on unchanged, a missing one becomes NaN for float data only; pixels GDAL leaves at
    nodata come back as that nodata in the caller's dtype (the int8 / bool detours included)"""
    import numpy as np

    import odc.geo.warp as warp
    from affine import Affine
    from odc.geo.geobox import GeoBox

    shape = (4, 5) if nd == 2 else (2, 4, 5)
    src = np.ones(shape, dtype=dtype)
    dst = np.zeros(shape, dtype=dtype)
    sg = GeoBox((4, 5), Affine(10, 0, 0, 0, -10, 0), "epsg:3857")
    dg = GeoBox((4, 5), Affine(10, 0, 10**6, 0, -10, 0), "epsg:3857")  # far away: nothing is covered
    conc = symx.concrete_mode()
    if nodata == "none":
        nd_val = None
    elif nodata == "zero":
        nd_val = False if dtype == "bool" else 0
    elif dtype == "bool":
        nd_val = True
    elif dtype.startswith("float") and not conc:
        nd_val = Real("dst_nodata")
    else:
        nd_val = {"uint8": 255, "int8": -128, "int16": -9999}.get(dtype, float(Real("dst_nodata")) if conc else -7)
    calls = []
    if not conc:
        real_reproject = warp.rasterio.warp.reproject

        def fake_reproject(source, destination=None, **kw):  # rasterio.warp.reproject's own parameter names
            src_, dst_ = source, destination
            calls.append((src_, dst_, kw))
            fill = kw.get("dst_nodata")
            # GDAL initialises the destination with the nodata value; nothing of the source lands here
            if fill is not None and not isinstance(fill, symx.Sym):
                dst_[...] = fill
            elif fill is None:
                dst_[...] = 0

        warp.rasterio.warp.reproject = fake_reproject
    try:
        out = warp.rio_reproject(src, dst, sg, dg, "nearest", dst_nodata=nd_val, ydim=(None if nd == 2 else 1))
    finally:
        if not conc:
            warp.rasterio.warp.reproject = real_reproject
    prove("returns_the_destination_array", out is dst)
    is_float = dtype.startswith("float")
    if conc:
        want = nd_val
        if want is None:
            want = float("nan") if is_float else 0
        if is_float and want != want:
            prove("uncovered_pixels_are_nodata", bool(np.isnan(dst).all()))
        else:
            prove("uncovered_pixels_are_nodata", bool((dst == np.asarray(want).astype(dtype)).all()))
        return
    prove("one_warp_per_plane", len(calls) == (1 if nd == 2 else 2))
    for k, (s_, d_, kw) in enumerate(calls):
        prove(f"plane{k}_is_2d", s_.ndim == 2 and d_.ndim == 2)
        got = kw.get("dst_nodata")
        if nd_val is None:
            prove(f"plane{k}_missing_nodata_is_nan_for_floats_only", (got is not None and got != got) if is_float else got is None)
        elif isinstance(nd_val, symx.Sym):
            prove(f"plane{k}_nodata_handed_on_unchanged", got is not None and not (isinstance(got, float) and got != got) and (got == nd_val))
        else:
            prove(f"plane{k}_nodata_handed_on_in_working_range", got is not None and (got == nd_val or (dtype == "bool" and got == (255 if nd_val else 0))))
        prove(f"plane{k}_working_dtype", s_.dtype.name == {"int8": "int16", "bool": "uint8"}.get(dtype, dtype))
    if nd_val is not None and not isinstance(nd_val, symx.Sym):
        prove("uncovered_pixels_are_nodata", bool((dst == np.asarray(nd_val).astype(dtype)).all()))



def h_paste_options(padmode, align):
    """(P4) paste is never reported when padding or alignment was requested"""
    ov = ovm()
    src, dst, L, t, sizes = mk_pair(1, 1, 1, 1, None, bound=True, pin="y:aligned")
    kw = {}
    if padmode == "sym":
        p = Int("padding", 1, 64)
        kw["padding"] = p
    elif padmode != "none":
        kw["padding"] = int(padmode)
    if align:
        kw["align"] = align
    rr = ov.compute_reproject_roi(src, dst, **kw)
    prove("no_paste_with_padding_or_align", rr.paste_ok is False)


PINS = ["y:aligned", "y:near", "x:shifted", "x:near", "y:subpixel"]


def _exact(tier, rng):
    out = []
    ks = (1, 2, 3) if tier == "quick" else (1, 2, 3, 4, 7)
    for k in ks:
        for mx, my in ((1, 1), (-1, 1), (1, -1)) if tier == "quick" else ((1, 1), (-1, 1), (1, -1), (-1, -1)):
            if tier == "quick" and k == 3 and (mx, my) != (1, 1):
                continue
            for pin in PINS:
                out.append(dict(k=k, mx=mx, my=my, pin=pin))
    if tier == "thorough":
        out += [dict(k=1, mx=1, my=1, pin="none"), dict(k=2, mx=-1, my=1, pin="none")]
    return out


OBLIGATIONS = [
    Ob("P1_can_paste", h_can_paste, tiered([dict(k=k, sgnx=a, sgny=b) for k, a, b in ((1, 1, 1), (1, -1, 1), (2, 1, -1), (3, 1, 1))],
                                           [dict(k=k, sgnx=a, sgny=b) for k in (1, 2, 3, 4, 7) for a in (1, -1) for b in (1, -1)]),
       descr="_can_paste True => both |s|/k within stol of 1 and both t/k within ttol of integers; exact integer grids => True",
       functions=("odc.geo.overlap._can_paste", "odc.geo.overlap.get_scale_from_linear_transform", "odc.geo.math.is_almost_int", "odc.geo.overlap._pick_read_scale"),
       bounds="k from grid, per-axis scale k + eps (|eps| <= 1/100), translations symbolic", stubs=("decompose_rws contract on axis-aligned input (validated at start-up, decided in full by C20/N9)",),
       setup=setup_rws_stub, timeout_ms=30000),
    Ob("P4_rotation", h_can_paste_rot, fixed(), descr="rotation/shear never pasted", functions=("odc.geo.overlap._can_paste",), setup=setup),
    Ob("P4_fractional", h_can_paste_frac, fixed(*[dict(s=s) for s in ("3/2", "1/2", "7/3", "1/3")]), descr="fractional scale never pasted", functions=("odc.geo.overlap._can_paste",), setup=setup),
    Ob("P2_paste_exact", h_paste_exact, _exact,
       descr="paste_ok: roi_dst is exactly the pixel-centre set, regions k:1, index map = floor(A(p+1/2)) of the un-snapped map (mirrored axes reversed); refused only beyond ttol",
       functions=("odc.geo.overlap.compute_reproject_roi", "odc.geo.overlap._can_paste", "odc.geo.math.snap_affine", "odc.geo.overlap.box_overlap", "odc.geo.roi.scaled_up_roi", "odc.geo.geobox.GeoBox.zoom_out"),
       bounds="k in grid, mirroring, origins / sizes / probe pixel symbolic; quick factors the axes (other axis pinned: aligned / within tolerance / shifted / sub-pixel)",
       setup=setup, timeout_ms=30000, deadline_s=2400),
    Ob("P5_near_integer_scale", h_paste_near_integer, fixed(dict(eps="9/10000", mx=1), dict(eps="-1/2000", mx=1), dict(eps="1/4000", mx=-1)),
       descr="relative scale near 1 inside the scale tolerance: if paste is reported, every pasted pixel is the nearest-neighbour pixel, for images of any width",
       functions=("odc.geo.overlap.compute_reproject_roi", "odc.geo.overlap._can_paste", "odc.geo.math.snap_affine"), bounds="eps from a grid (it multiplies the pixel index); x sizes, translation and probe pixel symbolic; y axis pinned aligned", setup=setup, timeout_ms=30000),
    Ob("P7_caller_tolerance", h_paste_caller_stol, fixed(dict(k=2, eps="-1/200", stol="1/100"), dict(k=3, eps="-3/500", stol="1/100", mx=-1), dict(k=2, eps="1/300", stol="1/100"), dict(k=1, eps="1/200", stol="1/100")),
       descr="a caller-supplied scale tolerance above the default, scale between the two tolerances of an integer: paste_ok, read_shrink and the two regions agree with each other (source region = read_shrink x destination region, read_shrink within stol of the scale)",
       functions=("odc.geo.overlap.compute_reproject_roi", "odc.geo.overlap._can_paste", "odc.geo.overlap._pick_read_scale"), bounds="integer 1..3 plus an offset inside the caller's tolerance; x sizes, translation symbolic; y axis pinned aligned", setup=setup, timeout_ms=30000),
    Ob("P6_warp_call", h_warp_call, fixed(*[dict(dtype=d, nd=n, nodata=m) for d in ("uint8", "int8", "bool", "float32") for n in (2, 3) for m in ("none", "zero", "value") if not (n == 3 and m == "none")]),
       descr="rio_reproject for every pixel type: one warp per 2-D plane, explicit nodata (zero included) handed on unchanged, missing nodata -> NaN for floats only, pixels left at nodata come back as that nodata through the int8 / bool detours",
       functions=("odc.geo.warp.rio_reproject", "odc.geo.warp._rio_reproject"), bounds="dtypes uint8/int8/bool/float32, 2-D and 3-D arrays, nodata none / zero / a value (symbolic real for floats)",
       stubs=("rasterio.warp.reproject recorded; it initialises the destination with the nodata value and covers nothing (the replay warps between rasters 1000 km apart with GDAL itself)",), setup=setup_warp),
    Ob("P4_options", h_paste_options, fixed(dict(padmode="1", align=0), dict(padmode="sym", align=0), dict(padmode="none", align=4), dict(padmode="0", align=16)),
       descr="paste never reported with padding/align requested", functions=("odc.geo.overlap.compute_reproject_roi",), setup=setup, timeout_ms=30000),
]
