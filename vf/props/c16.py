"""C16 -- GeoBox and bounding-box set operations respect the common pixel grid."""
from __future__ import annotations

from fractions import Fraction as F

from .. import shims, symx
from ..runner import Ob, fixed, tiered
from ..symx import (And, Bool, Implies, Int, Not, Or, Real, assume, const, ex, ite, prove,
                    rconst, m_max, m_min)

EXPLANATION = (
    "BoundingBox | & lattice laws on symbolic boxes; GeoBox | & overlap_roi / geobox_union_conservative / "
    "geobox_intersection_conservative on families base.translate_pix(tx, ty) with symbolic integer shifts and symbolic "
    "shapes over grid base affines (north-up, mirrored, non-square, rational rotation); rejection of incompatible grids; "
    "enclosing() and snap_to()."
)
ASSUMPTIONS = [
    "floats as exact reals; base affines from a finite grid, integer pixel shifts and shapes symbolic and unbounded",
    "numpy.isclose modelled with numpy's default tolerances (|a-b| <= 1e-8 + 1e-5 |b|)",
    "enclosing(): the shapely polygon is replaced by a vertex-list fake (transform = per-vertex map, bounds = min/max); regions in another CRS are outside the claim",
    "a real pyproj CRS object is attached where a CRS is required; only identity/equality is used",
]


def setup_merge():
    shims.install_core()
    _merge_minmax()


def setup():
    shims.install_core()


def _merge_minmax():
    import odc.geo.geom as geom

    geom.min = symx.m_min_shim
    geom.max = symx.m_max_shim


# ---- S1: bounding box lattice ---------------------------------------------------------------
def mk_bb(tag, crs=None):
    from odc.geo.geom import BoundingBox

    l, b = Real(f"{tag}_l"), Real(f"{tag}_b")
    w, h = Real(f"{tag}_w"), Real(f"{tag}_h")
    assume(And(w >= 0, h >= 0))
    return BoundingBox(l, b, l + w, b + h, crs)


def bb_eq(p, q):
    return And(*[ex(u) == ex(v) for u, v in zip(p.bbox, q.bbox)])


def bb_contains(p, q):
    """q inside p"""
    return And(ex(p.left) <= ex(q.left), ex(p.bottom) <= ex(q.bottom), ex(q.right) <= ex(p.right), ex(q.top) <= ex(p.top))


def h_bbox_lattice():
    a, b, c = mk_bb("a"), mk_bb("b"), mk_bb("c")
    prove("union_commutative", bb_eq(a | b, b | a))
    prove("intersection_commutative", bb_eq(a & b, b & a))
    prove("union_associative", bb_eq((a | b) | c, a | (b | c)))
    prove("intersection_associative", bb_eq((a & b) & c, a & (b & c)))
    prove("union_idempotent", bb_eq(a | a, a))
    prove("intersection_idempotent", bb_eq(a & a, a))
    prove("absorption_1", bb_eq(a | (a & b), a))  # disjoint operands included (their meet is an inverted, i.e. empty, box)
    prove("absorption_2", bb_eq(a & (a | b), a))
    prove("union_contains_a", bb_contains(a | b, a))
    prove("union_contains_b", bb_contains(a | b, b))
    prove("intersection_in_a", bb_contains(a, a & b))
    prove("intersection_in_b", bb_contains(b, a & b))
    prove("intersection_nonempty_iff_overlap", And(ex((a & b).left) <= ex((a & b).right), ex((a & b).bottom) <= ex((a & b).top)) == _overlap(a, b))
    # union is the smallest box containing both
    d = mk_bb("d")
    prove("union_smallest", bb_contains(d, a | b), when=And(bb_contains(d, a), bb_contains(d, b)))
    prove("intersection_largest", bb_contains(a & b, d), when=And(bb_contains(a, d), bb_contains(b, d)))


def _overlap(a, b):
    return And(ex(a.left) <= ex(b.right), ex(b.left) <= ex(a.right), ex(a.bottom) <= ex(b.top), ex(b.bottom) <= ex(a.top))


def h_bbox_stream():
    from odc.geo.geom import bbox_intersection, bbox_union

    a, b, c = mk_bb("a"), mk_bb("b"), mk_bb("c")
    prove("union_stream", bb_eq(bbox_union(iter([a, b, c])), (a | b) | c))
    prove("intersection_stream", bb_eq(bbox_intersection(iter([a, b, c])), (a & b) & c))
    for f in (bbox_union, bbox_intersection):
        try:
            f(iter([]))
        except ValueError:
            continue
        prove("empty_stream_raises", False)


# ---- S2: geoboxes on a common grid ------------------------------------------------------------
BASES = {
    "north_up": ("10", "0", "0", "-10"),
    "mirrored": ("-10", "0", "0", "10"),
    "nonsquare": ("1/4", "0", "0", "-1/3"),
    "rotated": ("6", "-8", "8", "6"),  # 10 * rotation(3/5, 4/5)
    "sheared": ("10", "3", "0", "-10"),
}


def base_affine(name):
    from affine import Affine

    a, b, d, e = (rconst(F(v)) for v in BASES[name])
    return Affine(a, b, Real("c0"), d, e, Real("f0"))


TOL = F(1e-8)  # the near-integer tolerance of the grid-compatibility test


def mk_family(base, n, crs="epsg:3857", perturb=False):
    """GeoBoxes on one grid: whole-pixel shifts of a base.  perturb: members after the first are
    off the grid by less than the accepted tolerance (what float round-off produces): they still
    count as on the grid and the results must be those of the exact shifts"""
    import odc.geo.geobox as gbx

    A = base_affine(base)
    out = []
    for k in range(n):
        tx, ty_ = Int(f"tx{k}"), Int(f"ty{k}")
        ny, nx = Int(f"ny{k}", 1), Int(f"nx{k}", 1)
        ref = gbx.GeoBox((ny, nx), A, crs)
        if perturb and k > 0:
            # offsets are multiples of 2^-40 pixel below the tolerance (keeps the floor terms integer)
            ex_ = Int(f"ex{k}", -10000, 10000)
            ey_ = Int(f"ey{k}", -10000, 10000) if perturb != "x" else 0
            dx, dy = ex_ / 2**40, ey_ / 2**40
            out.append((ref.translate_pix(tx + dx, ty_ + dy), tx, ty_, ny, nx))
        else:
            out.append((ref.translate_pix(tx, ty_), tx, ty_, ny, nx))
    return out


def pix_box(g, tx, ty_, ny, nx):
    return tx, ty_, tx + nx, ty_ + ny


def rel_origin(r, g0, t0):
    """integer pixel offset of geobox r relative to the common grid (base at 0,0), recovered from
    its affine: r.affine == A * translation(ox, oy)"""
    px, py = (~g0.affine) * (r.affine.c, r.affine.f)
    return ex(px) + t0[0], ex(py) + t0[1]


def h_union(base, perturb=False):
    (g0, tx0, ty0, ny0, nx0), (g1, tx1, ty1, ny1, nx1) = mk_family(base, 2, perturb=perturb)
    u = g0 | g1
    ox, oy = rel_origin(u, g0, (tx0, ty0))
    L, T = m_min(tx0, tx1), m_min(ty0, ty1)
    R, B_ = m_max(tx0 + nx0, tx1 + nx1), m_max(ty0 + ny0, ty1 + ny1)
    prove("union_origin", And(ox == L, oy == T))
    prove("union_shape", And(u.shape.x == R - L, u.shape.y == B_ - T))
    prove("union_same_grid", And(ex(u.affine.a) == ex(g0.affine.a), ex(u.affine.b) == ex(g0.affine.b), ex(u.affine.d) == ex(g0.affine.d), ex(u.affine.e) == ex(g0.affine.e)))
    prove("union_crs", u.crs == g0.crs)
    u2 = g1 | g0
    if perturb:  # the result lies on the first operand's grid: equal up to the accepted offset
        qx, qy = (~g0.affine) * (u2.affine.c, u2.affine.f)
        px, py = (~g0.affine) * (u.affine.c, u.affine.f)
        prove("union_commutative", And(abs(ex(qx) - ex(px)) < TOL, abs(ex(qy) - ex(py)) < TOL, u2.shape.x == u.shape.x, u2.shape.y == u.shape.y))
    else:
        prove("union_commutative", And(ex(u2.affine.c) == ex(u.affine.c), ex(u2.affine.f) == ex(u.affine.f), u2.shape.x == u.shape.x, u2.shape.y == u.shape.y))


def h_union_with_empty(base):
    """an operand without pixels (what `&` returns for boxes that do not meet) contains nothing:
    the union is the smallest box containing the pixels of the others -- it is not stretched to
    wherever the empty operand happens to be anchored; the union of empty operands is empty"""
    import odc.geo.geobox as gbx

    A = base_affine(base)
    boxes = []
    for k in range(2):
        tx, ty_ = Int(f"tx{k}"), Int(f"ty{k}")
        ny, nx = Int(f"ny{k}", 0), Int(f"nx{k}", 0)
        boxes.append((gbx.GeoBox((ny, nx), A, "epsg:3857").translate_pix(tx, ty_), tx, ty_, ny, nx))
    (g0, tx0, ty0, ny0, nx0), (g1, tx1, ty1, ny1, nx1) = boxes
    e0, e1 = Or(ny0 == 0, nx0 == 0), Or(ny1 == 0, nx1 == 0)
    assume(Or(e0, e1))  # (two non-empty operands are S2_union)
    for nm, u in (("first_second", g0 | g1), ("second_first", g1 | g0)):
        ox, oy = rel_origin(u, g0, (tx0, ty0))
        prove(f"{nm}:union_with_an_empty_second_operand_is_the_first", And(ox == tx0, oy == ty0, u.shape.x == nx0, u.shape.y == ny0), when=And(e1, Not(e0)))
        prove(f"{nm}:union_with_an_empty_first_operand_is_the_second", And(ox == tx1, oy == ty1, u.shape.x == nx1, u.shape.y == ny1), when=And(e0, Not(e1)))
        prove(f"{nm}:union_of_empty_operands_is_empty", Or(u.shape.x == 0, u.shape.y == 0), when=And(e0, e1))


def h_union_empty_other_grid(kind):
    """an operand without pixels that is NOT on the grid of the other one (another pixel size, a
    sub-pixel offset, another CRS) is refused like any other operand off the grid -- having no
    pixels is no licence"""
    from affine import Affine

    import odc.geo.geobox as gbx

    A = base_affine("north_up")
    ny, nx = Int("ny", 1), Int("nx", 1)
    g = gbx.GeoBox((ny, nx), A, "epsg:3857")
    w = Int("w", 0)
    if kind == "pixel_size":
        e = gbx.GeoBox((0, w), A * Affine.scale(2, 2), "epsg:3857")
    elif kind == "subpixel":
        d = Real("d")
        assume(And(d > F(1, 10), d < F(9, 10)))
        e = gbx.GeoBox((0, w), A * Affine.translation(d, 0), "epsg:3857")
    else:
        e = gbx.GeoBox((0, w), A, "epsg:32633")
    for nm, op in (("g_or_e", lambda: g | e), ("e_or_g", lambda: e | g)):
        try:
            op()
            ok = False
        except ValueError:
            ok = True
        prove(f"{nm}:empty_operand_off_the_grid_is_refused", ok)


def h_near_scale_wide(eps):
    """a pixel size that differs by less than the accepted relative tolerance (numpy.isclose's
    1e-5): when the pair is accepted, the union still has to contain both operands to within half
    a pixel, however many pixels wide they are (the mismatch times the width is a drift in pixels)"""
    from affine import Affine

    import odc.geo.geobox as gbx

    e = F(eps)
    ny0, nx0 = 10, Int("nx0", 1, 10**7)
    ny1, nx1 = 10, Int("nx1", 1, 10**7)
    g0 = gbx.GeoBox((ny0, nx0), Affine(rconst(10), 0.0, rconst(0), 0.0, rconst(-10), rconst(0)), "epsg:3857")
    g1 = gbx.GeoBox((ny1, nx1), Affine(rconst(10 * (1 + e)), 0.0, rconst(0), 0.0, rconst(-10), rconst(0)), "epsg:3857")
    try:
        u = g0 | g1
    except ValueError:
        return  # refusing is what the statement asks for
    # accepted: the far edge of the second operand, in pixels of the first
    far = nx1 * (1 + e)
    prove("accepted_pair_is_contained_in_its_union_to_half_a_pixel", u.shape.x >= far - F(1, 2))


def h_intersection(base, perturb=False):
    (g0, tx0, ty0, ny0, nx0), (g1, tx1, ty1, ny1, nx1) = mk_family(base, 2, perturb=perturb)
    r = g0 & g1
    ox, oy = rel_origin(r, g0, (tx0, ty0))
    L, T = m_max(tx0, tx1), m_max(ty0, ty1)
    R, B_ = m_min(tx0 + nx0, tx1 + nx1), m_min(ty0 + ny0, ty1 + ny1)
    w, h = R - L, B_ - T
    shared = And(w > 0, h > 0)
    prove("intersection_origin", And(ox == L, oy == T), when=shared)
    prove("intersection_shape", And(r.shape.x == w, r.shape.y == h), when=shared)
    # no shared pixels: an empty GeoBox (also when empty on one axis only), never a negative shape
    prove("empty_when_disjoint", Or(r.shape.x == 0, r.shape.y == 0), when=Not(shared))
    prove("shape_never_negative", And(r.shape.x >= 0, r.shape.y >= 0))
    prove("one_axis_empty_keeps_other", r.shape.y == h, when=And(w <= 0, h > 0))
    r2 = g1 & g0
    if perturb:
        qx, qy = (~g0.affine) * (r2.affine.c, r2.affine.f)
        px, py = (~g0.affine) * (r.affine.c, r.affine.f)
        prove("intersection_commutative", And(r2.shape.x == r.shape.x, r2.shape.y == r.shape.y, Or(Not(shared), And(abs(ex(qx) - ex(px)) < TOL, abs(ex(qy) - ex(py)) < TOL))))
    else:
        prove("intersection_commutative", And(r2.shape.x == r.shape.x, r2.shape.y == r.shape.y, Or(Not(shared), And(ex(r2.affine.c) == ex(r.affine.c), ex(r2.affine.f) == ex(r.affine.f)))))
    # overlap_roi indexes exactly the shared pixels within the first operand
    ry, rx = g0.overlap_roi(g1)
    prove("overlap_roi_x", And(rx.start == L - tx0, rx.stop == R - tx0), when=shared)
    prove("overlap_roi_y", And(ry.start == T - ty0, ry.stop == B_ - ty0), when=shared)
    prove("overlap_roi_within", And(0 <= rx.start, rx.stop <= nx0, 0 <= ry.start, ry.stop <= ny0), when=shared)
    prove("overlap_roi_empty_when_disjoint", Or(rx.stop <= rx.start, ry.stop <= ry.start), when=Not(shared))
    # ... as an index: under array slicing semantics (a negative stop counts from the end) it selects
    # exactly the shared pixels, i.e. nothing when there are none
    from .c17 import pysel

    lox, cx = pysel(rx.start, rx.stop, nx0)
    loy, cy = pysel(ry.start, ry.stop, ny0)
    prove("overlap_roi_selects_shared_x", And(lox == L - tx0, cx == w), when=shared)
    prove("overlap_roi_selects_shared_y", And(loy == T - ty0, cy == h), when=shared)
    prove("overlap_roi_selects_nothing_when_disjoint", Or(cx == 0, cy == 0), when=Not(shared))


def h_assoc(base, op):
    import odc.geo.geobox as gbx

    fam = mk_family(base, 3)
    (g0, tx0, ty0, *_), (g1, *_), (g2, *_) = fam
    if op == "union":
        x = (g0 | g1) | g2
        y = g0 | (g1 | g2)
        z = gbx.geobox_union_conservative([g0, g1, g2])
        L = m_min(*[t[1] for t in fam])
        T = m_min(*[t[2] for t in fam])
        R = m_max(*[t[1] + t[4] for t in fam])
        B_ = m_max(*[t[2] + t[3] for t in fam])
        nonempty = True
    else:
        x = (g0 & g1) & g2
        y = g0 & (g1 & g2)
        z = gbx.geobox_intersection_conservative([g0, g1, g2])
        L = m_max(*[t[1] for t in fam])
        T = m_max(*[t[2] for t in fam])
        R = m_min(*[t[1] + t[4] for t in fam])
        B_ = m_min(*[t[2] + t[3] for t in fam])
        nonempty = And(R > L, B_ > T)
    for nm, r in (("left_assoc", x), ("right_assoc", y), ("list_form", z)):
        ox, oy = rel_origin(r, g0, (tx0, ty0))
        prove(f"{nm}:origin", And(ox == L, oy == T), when=nonempty)
        prove(f"{nm}:shape", And(r.shape.x == R - L, r.shape.y == B_ - T), when=nonempty)
        if op != "union":
            prove(f"{nm}:empty", Or(r.shape.x == 0, r.shape.y == 0), when=Not(nonempty))


# ---- S3: incompatible grids are rejected --------------------------------------------------------
def h_reject(base, how):
    from affine import Affine

    import odc.geo.geobox as gbx

    A = base_affine(base)
    ny0, nx0, ny1, nx1 = Int("ny0", 1), Int("nx0", 1), Int("ny1", 1), Int("nx1", 1)
    g0 = gbx.GeoBox((ny0, nx0), A, "epsg:3857")
    tx, ty_ = Int("tx"), Int("ty")
    if how == "subpixel":
        dx, dy = Real("dx"), Real("dy")
        # off the grid by more than the tolerance on at least one axis (and less than a pixel)
        tol = F(1e-8)
        assume(And(abs(dx) <= F(1, 2), abs(dy) <= F(1, 2), Or(abs(dx) >= tol, abs(dy) >= tol)))
        g1 = gbx.GeoBox((ny1, nx1), A * Affine.translation(tx + dx, ty_ + dy), "epsg:3857")
    elif how == "scale":
        g1 = gbx.GeoBox((ny1, nx1), A * Affine.translation(tx, ty_) * Affine.scale(rconst(F(2)), rconst(F(2))), "epsg:3857")
    elif how == "scale_near":
        s = Real("s")
        assume(And(abs(s - 1) > F(2, 10**5), s > F(1, 2), s < 2))
        g1 = gbx.GeoBox((ny1, nx1), A * Affine.scale(s, 1.0), "epsg:3857")
    elif how == "flip":
        g1 = gbx.GeoBox((ny1, nx1), A * Affine.translation(tx, ty_) * Affine.scale(rconst(F(1)), rconst(F(-1))), "epsg:3857")
    elif how == "rotate":
        g1 = gbx.GeoBox((ny1, nx1), A * Affine.translation(tx, ty_) * Affine(rconst(F(3, 5)), rconst(F(-4, 5)), 0.0, rconst(F(4, 5)), rconst(F(3, 5)), 0.0), "epsg:3857")
    elif how == "shear":
        # same pixel size along both axes, whole-pixel offset, but sheared by any amount beyond round-off
        b = Real("shear")
        assume(abs(b) >= F(1, 10**6))
        g1 = gbx.GeoBox((ny1, nx1), A * Affine.translation(tx, ty_) * Affine(rconst(F(1)), b, 0.0, 0.0, rconst(F(1)), 0.0), "epsg:3857")
    elif how == "crs":
        g1 = gbx.GeoBox((ny1, nx1), A * Affine.translation(tx, ty_), "epsg:32633")
    elif how == "crs_none":
        g1 = gbx.GeoBox((ny1, nx1), A * Affine.translation(tx, ty_), None)
    for nm, f in (("union", lambda: g0 | g1), ("intersection", lambda: g0 & g1), ("overlap_roi", lambda: g0.overlap_roi(g1)),
                  ("union_rev", lambda: g1 | g0), ("snap_to", (lambda: g0.snap_to(g1)) if how not in ("subpixel",) else None)):
        if f is None:
            continue
        try:
            f()
        except ValueError:
            continue
        prove(f"{nm}:rejected", False)


# ---- S4: enclosing ---------------------------------------------------------------------------------
class FakeGeometry:
    """vertex-list stand-in for odc.geo.geom.Geometry (polygon): transform = per-vertex map,
    bounds = min/max over the vertices"""

    def __init__(self, geom, crs=None):
        if isinstance(geom, FakeGeometry):
            geom = geom.geom
        self.geom = list(geom)
        from odc.geo.crs import norm_crs

        self.crs = norm_crs(crs)

    def transform(self, func, crs=None):
        from affine import Affine

        if isinstance(func, Affine):
            pts = [func * p for p in self.geom]
        else:
            pts = [func(x, y) for x, y in self.geom]
        return FakeGeometry(pts, self.crs)

    @property
    def boundingbox(self):
        from odc.geo.geom import BoundingBox

        xs = [p[0] for p in self.geom]
        ys = [p[1] for p in self.geom]

        def fmin(v):
            r = v[0]
            for x in v[1:]:
                if x < r:
                    r = x
            return r

        def fmax(v):
            r = v[0]
            for x in v[1:]:
                if x > r:
                    r = x
            return r

        if len(xs) > 8:  # long rings (GeoBox.boundary of a non-linear box): one fresh variable per extreme
            return BoundingBox(symx.fresh_extreme(xs, "min"), symx.fresh_extreme(ys, "min"), symx.fresh_extreme(xs, "max"), symx.fresh_extreme(ys, "max"), self.crs)
        return BoundingBox(fmin(xs), fmin(ys), fmax(xs), fmax(ys), self.crs)

    def to_crs(self, crs):
        raise symx.Unsupported("FakeGeometry.to_crs")


def setup_fakegeom():
    shims.install_core()
    import odc.geo.geobox as gbx
    import odc.geo.geom as geom

    gbx.Geometry = FakeGeometry
    geom.polygon = lambda outer, crs, *inners: FakeGeometry(outer, crs)


def h_enclosing(base, region="bbox"):
    from odc.geo.geom import BoundingBox

    import odc.geo.geobox as gbx

    A = base_affine(base)
    ny, nx = Int("ny", 1), Int("nx", 1)
    g = gbx.GeoBox((ny, nx), A, "epsg:3857")
    if region == "bbox":
        l, b, w, h = Real("l"), Real("b"), Real("w"), Real("h")
        assume(And(w >= 0, h >= 0))
        region = BoundingBox(l, b, l + w, b + h, "epsg:3857")
        corners = [(l, b), (l, b + h), (l + w, b), (l + w, b + h)]
    else:
        # a polygon that does not fill its own bounding box (a triangle with symbolic vertices)
        if symx.concrete_mode():
            setup_fakegeom()  # the replay uses the same vertex-list geometry, on plain floats
        corners = [(Real(f"vx{k}"), Real(f"vy{k}")) for k in range(3)]
        region = gbx.Geometry(corners + corners[:1], "epsg:3857")
    r = g.enclosing(region)
    prove("same_grid", And(ex(r.affine.a) == ex(A.a), ex(r.affine.b) == ex(A.b), ex(r.affine.d) == ex(A.d), ex(r.affine.e) == ex(A.e)))
    ox, oy = (~A) * (r.affine.c, r.affine.f)
    ox, oy = ex(ox), ex(oy)
    if symx.concrete_mode():
        prove("whole_pixel_shift", And(abs(ox - round(ox)) < F(1, 10**6), abs(oy - round(oy)) < F(1, 10**6)))
    else:
        prove("whole_pixel_shift", And(ox == symx.s_floor(ox), oy == symx.s_floor(oy)))
    # region corners in the pixel plane of the result
    eps = F(1, 10**6) if symx.concrete_mode() else 0
    pxs, pys = [], []
    for k, (x, y) in enumerate(corners):
        px, py = r.wld2pix(x, y)
        px, py = ex(px), ex(py)
        pxs.append(px)
        pys.append(py)
        prove(f"covers_corner{k}", And(-eps <= px, px <= r.shape.x + eps, -eps <= py, py <= r.shape.y + eps))
    # exceeds the region's pixel-space box by less than one pixel per side (one-pixel minimum aside)
    prove("tight_left", Or(*[p < 1 + eps for p in pxs]))
    prove("tight_top", Or(*[p < 1 + eps for p in pys]))
    prove("tight_right", Or(r.shape.x == 1, *[p > r.shape.x - 1 - eps for p in pxs]))
    prove("tight_bottom", Or(r.shape.y == 1, *[p > r.shape.y - 1 - eps for p in pys]))
    prove("crs", r.crs == g.crs)


def h_enclosing_nocrs():
    from odc.geo.geom import BoundingBox

    import odc.geo.geobox as gbx

    A = base_affine("north_up")
    g = gbx.GeoBox((Int("ny", 1), Int("nx", 1)), A, "epsg:3857")
    try:
        g.enclosing(BoundingBox(0, 0, 1, 1, None))
    except ValueError:
        return
    prove("region_without_crs_rejected", False)


# ---- S5: snap_to -----------------------------------------------------------------------------------
def h_snap_to(base):
    from affine import Affine

    import odc.geo.geobox as gbx

    A = base_affine(base)
    ny0, nx0, ny1, nx1 = Int("ny0", 1), Int("nx0", 1), Int("ny1", 1), Int("nx1", 1)
    other = gbx.GeoBox((ny0, nx0), A, "epsg:3857")
    # parametrised by u = -offset: the code floors pixel_translation(other, self) = -offset, and
    # the harness must name the same floor term (z3 relates to_int(x) and to_int(-x) badly)
    ux, uy = Real("ux"), Real("uy")
    tx, ty_ = -ux, -uy
    g = gbx.GeoBox((ny1, nx1), A * Affine.translation(tx, ty_), "epsg:3857")
    r = g.snap_to(other)
    prove("shape_kept", And(r.shape.x == nx1, r.shape.y == ny1))
    # relative to other: a whole-pixel shift
    px, py = (~A) * (r.affine.c, r.affine.f)
    px, py = ex(px), ex(py)
    tol = F(1e-8)
    if symx.concrete_mode():
        prove("on_others_grid", And(abs(px - round(px)) <= F(1, 10**6), abs(py - round(py)) <= F(1, 10**6)))
        prove("moved_at_most_half_pixel", And(abs(px - ex(tx)) <= F(1, 2) + F(1, 10**6), abs(py - ex(ty_)) <= F(1, 2) + F(1, 10**6)))
        return
    # the nearest integer(s) to the original offset, named through the one canonical floor term
    for nm, p_, u_ in (("x", px, ux), ("y", py, uy)):
        f = symx.s_floor(u_)
        d = u_ - f
        if d < F(1, 2):  # forks
            ks = (f,)
        elif d > F(1, 2):
            ks = (f + 1,)
        else:
            ks = (f, f + 1)
        # new offset p_ is minus the nearest integer to u
        # asked twice: to a thousandth of a pixel first (a counterexample of that size survives the
        # replay in doubles), then to the library's own 1e-8
        coarse = F(1, 1000)
        prove(f"on_others_grid_to_a_thousandth_{nm}", Or(*[And(-p_ - k <= coarse, k + p_ <= coarse) for k in ks]))
        prove(f"on_others_grid_{nm}", Or(*[And(-p_ - k <= tol, k + p_ <= tol) for k in ks]))
        prove(f"moved_at_most_half_pixel_{nm}", And(p_ + u_ <= F(1, 2), -u_ - p_ <= F(1, 2)))
    prove("same_linear_part", And(r.affine.a == A.a, r.affine.b == A.b, r.affine.d == A.d, r.affine.e == A.e))


BQ = ["north_up", "mirrored", "rotated"]
BT = ["north_up", "mirrored", "nonsquare", "rotated", "sheared"]
FB = dict(bounds="base affine from grid with symbolic origin; integer pixel shifts and shapes symbolic", setup=setup)

OBLIGATIONS = [
    Ob("S1_bbox_lattice", h_bbox_lattice, fixed(), descr="BoundingBox | & : commutative, associative, idempotent, absorbing, union contains / intersection contained in each operand, union smallest / intersection largest",
       functions=("odc.geo.geom.bbox_union", "odc.geo.geom.bbox_intersection", "odc.geo.geom.BoundingBox.__or__", "odc.geo.geom.BoundingBox.__and__"),
       bounds="four symbolic boxes incl. degenerate (w, h >= 0)", setup=setup_merge, timeout_ms=20000),
    Ob("S1_bbox_stream", h_bbox_stream, fixed(), descr="stream forms equal the folded binary operations; empty stream raises", functions=("odc.geo.geom.bbox_union", "odc.geo.geom.bbox_intersection"), setup=setup_merge),
    Ob("S2_union", h_union, tiered([dict(base=b) for b in BQ], [dict(base=b) for b in BT]), descr="| is the smallest on-grid GeoBox containing both operands; commutative",
       functions=("odc.geo.geobox.geobox_union_conservative", "odc.geo.geobox.bounding_box_in_pixel_domain", "odc.geo.geobox.pixel_translation"), stubs=("numpy.isclose model",), **FB),
    Ob("S2_union_empty_other_grid", h_union_empty_other_grid, fixed(dict(kind="pixel_size"), dict(kind="subpixel"), dict(kind="crs")),
       descr="a union operand without pixels on another grid (pixel size, sub-pixel offset, CRS) is refused with ValueError in either order", functions=("odc.geo.geobox.geobox_union_conservative", "odc.geo.geobox.pixel_translation"), **FB),
    *([Ob("S2_union_with_empty", h_union_with_empty, fixed(dict(base="north_up"), dict(base="rotated")),
          descr="union with an operand that has no pixels (the result of an intersection of boxes that do not meet): the smallest box containing the pixels of the others, in either order; empty with empty is empty",
          functions=("odc.geo.geobox.geobox_union_conservative", "odc.geo.geobox.bounding_box_in_pixel_domain", "odc.geo.geom.bbox_union"),
          bounds="two boxes on one grid, symbolic integer shifts, symbolic shapes >= 0 with at least one of them empty", setup=setup, timeout_ms=20000)] if True else []),
    Ob("S3_near_scale_wide", h_near_scale_wide, fixed(dict(eps="9/1000000"), dict(eps="-4/1000000")),
       descr="a pixel-size mismatch inside the accepted relative tolerance: if the pair is accepted, the union contains both operands to within half a pixel whatever their width",
       functions=("odc.geo.geobox.pixel_translation", "odc.geo.geobox.geobox_union_conservative"), bounds="relative mismatch from a grid (9e-6, -4e-6); widths symbolic up to 10^7 pixels", setup=setup, timeout_ms=20000),
    Ob("S2_intersection", h_intersection, tiered([dict(base=b) for b in BQ], [dict(base=b) for b in BT]), descr="& is exactly the shared pixels (normalised empty GeoBox otherwise, also when empty on one axis only); overlap_roi indexes the shared pixels in the first operand",
       functions=("odc.geo.geobox.geobox_intersection_conservative", "odc.geo.geobox.GeoBox.overlap_roi", "odc.geo.geobox.bounding_box_in_pixel_domain"), stubs=("numpy.isclose model",), **FB),
    Ob("S2_within_tolerance", h_union, tiered([dict(base="nonsquare", perturb=True)], [dict(base=b, perturb=True) for b in BT]),
       descr="| with the second operand off the grid by less than the accepted 1e-8 pixel (float round-off): same result as for the exact whole-pixel shift",
       functions=("odc.geo.geobox.geobox_union_conservative", "odc.geo.geobox.bounding_box_in_pixel_domain", "odc.geo.math.is_almost_int"), stubs=("numpy.isclose model",), **FB),
    Ob("S2_within_tolerance_and", h_intersection, tiered([dict(base="north_up", perturb="x")], [dict(base=b, perturb=True) for b in BT]),
       descr="& and overlap_roi with the second operand off the grid by less than the accepted 1e-8 pixel: same result as for the exact whole-pixel shift",
       functions=("odc.geo.geobox.geobox_intersection_conservative", "odc.geo.geobox.GeoBox.overlap_roi", "odc.geo.geobox.bounding_box_in_pixel_domain"), stubs=("numpy.isclose model",), **FB),
    Ob("S2_assoc", h_assoc, tiered([dict(base="north_up", op="union"), dict(base="rotated", op="intersection")], [dict(base=b, op=o) for b in BT for o in ("union", "intersection")]),
       descr="union/intersection associative over three GeoBoxes; list forms agree", functions=("odc.geo.geobox.geobox_union_conservative", "odc.geo.geobox.geobox_intersection_conservative"), **FB),
    Ob("S3_reject", h_reject, tiered([dict(base="north_up", how=h) for h in ("subpixel", "scale", "scale_near", "flip", "rotate", "shear", "crs", "crs_none")] + [dict(base="rotated", how="subpixel"), dict(base="rotated", how="shear")],
                                      [dict(base=b, how=h) for b in BT for h in ("subpixel", "scale", "scale_near", "flip", "rotate", "shear", "crs", "crs_none")]),
       descr="sub-pixel offset beyond the tolerance, other pixel size, flipped/rotated partner, other CRS => ValueError from |, &, overlap_roi, snap_to",
       functions=("odc.geo.geobox.pixel_translation", "odc.geo.geobox.bounding_box_in_pixel_domain"), stubs=("numpy.isclose model",), **FB),
    Ob("S4_enclosing", h_enclosing, tiered([dict(base=b) for b in ("north_up", "mirrored", "rotated")] + [dict(base="rotated", region="triangle"), dict(base="sheared", region="triangle")],
                                           [dict(base=b, region=r_) for b in BT for r_ in ("bbox", "triangle")]),
       descr="enclosing(region): on the source grid (whole-pixel shift), covers the region, exceeds its pixel-space box by < 1 pixel per side",
       functions=("odc.geo.geobox.GeoBox.enclosing", "odc.geo.geobox.GeoBoxBase.project", "odc.geo.geom.BoundingBox.round"), stubs=("vertex-list fake polygon",),
       bounds="region: symbolic box (w,h >= 0) or symbolic triangle, same CRS", setup=setup_fakegeom, timeout_ms=20000),
    Ob("S4_enclosing_nocrs", h_enclosing_nocrs, fixed(), descr="region without CRS rejected", functions=("odc.geo.geobox.GeoBox.enclosing",), setup=setup_fakegeom),
    Ob("S5_snap_to", h_snap_to, tiered([dict(base=b) for b in BQ], [dict(base=b) for b in BT]), descr="snap_to: result lies on the other grid (whole-pixel shift up to 1e-8) and moved by at most half a pixel per axis",
       functions=("odc.geo.geobox.GeoBox.snap_to", "odc.geo.math.split_translation", "odc.geo.math.maybe_zero"), **FB),
]
