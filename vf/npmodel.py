"""A narrow numpy model for the handful of numpy calls in roi.py, geobox.py, math.py, overlap.py,
_blocks.py.  SymArray = nested Python lists with element-wise operations over symx values.
Unknown attributes fall through to the real numpy.  Every modelled function is compared with real
numpy on concrete vectors by selfcheck() (DESIGN 3.7/2)."""
from __future__ import annotations

import fractions
import math

import numpy as real_np
import z3

from . import symx
from .symx import Abort, Sym, SymBool, SymInt, SymReal, Unsupported, _z, wrap

F = fractions.Fraction
INT32_MIN, INT32_MAX = -(2**31), 2**31 - 1
INT64_MIN, INT64_MAX = -(2**63), 2**63 - 1


def wrap_bits(v, bits):
    half = 2 ** (bits - 1)
    full = 2**bits
    if isinstance(v, int):
        return (v + half) % full - half
    t = v.t
    # fork instead of building a mod term: in range (the common, usually only feasible case) the
    # value is unchanged
    if symx.ctx().decide(z3.And(t >= -half, t <= half - 1)):
        return v
    return wrap(((t + half) % full) - half)


def _has_sym(d):
    if isinstance(d, (list, tuple)):
        return any(_has_sym(y) for y in d)
    if isinstance(d, SymArray):
        return True
    return isinstance(d, Sym)


def _tolist(d):
    if isinstance(d, SymArray):
        return _tolist(d.data)
    if isinstance(d, real_np.ndarray):
        return d.tolist()
    if isinstance(d, (list, tuple)):
        return [_tolist(y) for y in d]
    return d


def f_min(vals):
    r = vals[0]
    for x in vals[1:]:
        if x < r:
            r = x
    return r


def f_max(vals):
    r = vals[0]
    for x in vals[1:]:
        if x > r:
            r = x
    return r


def f_clip(v, lo, hi):
    if v < lo:
        return lo
    if v > hi:
        return hi
    return v


class SymArray:
    __array_priority__ = 1000

    def __init__(self, data, dtype="float64"):
        self.data = data
        self.dtype = dtype

    # ---- structure
    @property
    def shape(self):
        s = []
        d = self.data
        while isinstance(d, list):
            s.append(len(d))
            d = d[0] if d else None
        return tuple(s)

    @property
    def ndim(self):
        return len(self.shape)

    @property
    def size(self):
        n = 1
        for k in self.shape:
            n *= k
        return n

    @property
    def T(self):
        if self.ndim == 1:
            return self
        assert self.ndim == 2
        r, c = self.shape
        return SymArray([[self.data[i][j] for i in range(r)] for j in range(c)], self.dtype)

    def _map(self, f, dtype=None):
        def go(d):
            return [go(x) for x in d] if isinstance(d, list) else f(d)

        return SymArray(go(self.data), dtype or self.dtype)

    def _zip(self, o, f, dtype=None):
        if isinstance(o, real_np.ndarray):
            o = SymArray(o.tolist(), str(o.dtype))
        if isinstance(o, (list, tuple)):
            o = SymArray(_tolist(o))
        if isinstance(o, SymArray):

            def go(a, b):
                if isinstance(a, list) and isinstance(b, list):
                    if len(a) == len(b):
                        return [go(x, y) for x, y in zip(a, b)]
                    if len(b) == 1:
                        return [go(x, b[0]) for x in a]
                    if len(a) == 1:
                        return [go(a[0], y) for y in b]
                    raise Unsupported("broadcast of unequal lengths")
                if isinstance(a, list):
                    return [go(x, b) for x in a]
                if isinstance(b, list):
                    return [go(a, y) for y in b]
                return f(a, b)

            return SymArray(go(self.data, o.data), dtype or self.dtype)
        return self._map(lambda a: f(a, o), dtype)

    def _arith(self, o, f):
        dt = self.dtype
        if dt in ("int32", "int64"):
            osym = o.dtype if isinstance(o, SymArray) else None
            if isinstance(o, (float, SymReal)) or osym in ("float64", "float32"):
                dt = "float64"
        f0 = f

        def f(a, b):
            # a non-finite float (a point the coordinate transformer could not map) meeting a
            # symbolic value stays non-finite: NaN (the sign of an infinity is not tracked; the
            # library filters such points with isfinite)
            if isinstance(a, float) and not math.isfinite(a) and isinstance(b, Sym):
                return float("nan")
            if isinstance(b, float) and not math.isfinite(b) and isinstance(a, Sym):
                return float("nan")
            return f0(a, b)

        r = self._zip(o, f, dt)
        if dt == "int32":
            r = r._map(lambda v: wrap_bits(v, 32))
        elif dt == "int64":
            r = r._map(lambda v: wrap_bits(v, 64))
        return r

    def __add__(self, o):
        return self._arith(o, lambda a, b: a + b)

    def __radd__(self, o):
        return self._arith(o, lambda a, b: b + a)

    def __sub__(self, o):
        return self._arith(o, lambda a, b: a - b)

    def __rsub__(self, o):
        return self._arith(o, lambda a, b: b - a)

    def __mul__(self, o):
        return self._arith(o, lambda a, b: a * b)

    def __rmul__(self, o):
        return self._arith(o, lambda a, b: b * a)

    def __mod__(self, o):
        # numpy integer arrays: x % 0 == 0 (with a RuntimeWarning), no exception
        return self._arith(o, lambda a, b: 0 if (not isinstance(b, Sym) and b == 0 and self.dtype.startswith("int")) else a % b)

    # boolean masks: & | ~ (element-wise)
    def __and__(self, o):
        return self._zip(o, lambda a, b: symx.And(a, b) if isinstance(a, Sym) or isinstance(b, Sym) else (bool(a) and bool(b)), "bool")

    __rand__ = __and__

    def __or__(self, o):
        return self._zip(o, lambda a, b: symx.Or(a, b) if isinstance(a, Sym) or isinstance(b, Sym) else (bool(a) or bool(b)), "bool")

    __ror__ = __or__

    def __invert__(self):
        return self._map(lambda a: symx.Not(a) if isinstance(a, Sym) else (not bool(a)), "bool")

    def __floordiv__(self, o):
        return self._arith(o, lambda a, b: a // b)

    def __truediv__(self, o):
        r = self._zip(o, lambda a, b: symx._s_float(a) / b, "float64")
        return r

    def __neg__(self):
        return self._map(lambda a: -a)

    def _cmpop(self, o, f):
        return self._zip(o, f, "bool")

    def __lt__(self, o):
        return self._cmpop(o, lambda a, b: a < b)

    def __le__(self, o):
        return self._cmpop(o, lambda a, b: a <= b)

    def __gt__(self, o):
        return self._cmpop(o, lambda a, b: a > b)

    def __ge__(self, o):
        return self._cmpop(o, lambda a, b: a >= b)

    def __eq__(self, o):  # type: ignore[override]
        return self._cmpop(o, lambda a, b: a == b)

    def __ne__(self, o):  # type: ignore[override]
        return self._cmpop(o, lambda a, b: a != b)

    __hash__ = None  # type: ignore[assignment]

    def __getitem__(self, idx):
        if isinstance(idx, tuple):
            if len(idx) == 2 and isinstance(idx[0], SymArray) and idx[1] == slice(None):
                # boolean row mask: forks per row
                rows = [row for row, keep in zip(self.data, idx[0].data) if bool(keep)]
                return SymArray(rows, self.dtype)
            if len(idx) == 2 and idx[0] is None and isinstance(idx[1], real_np.ndarray):
                return SymArray([[self.data[int(i)] for i in idx[1]]], self.dtype)
            if len(idx) == 2 and all(isinstance(i, (int, slice)) for i in idx):
                r = self.data[idx[0]]
                if isinstance(idx[0], int):
                    r = r[idx[1]]
                    return SymArray(r, self.dtype) if isinstance(r, list) else r
                r = [row[idx[1]] for row in r]
                return SymArray(r, self.dtype)
            raise Unsupported(f"SymArray index {idx}")
        if isinstance(idx, real_np.ndarray):
            return SymArray([self.data[int(i)] for i in idx], self.dtype)
        if isinstance(idx, slice):
            return SymArray(self.data[idx], self.dtype)
        if isinstance(idx, SymInt):
            t = z3.simplify(idx.t)
            if z3.is_int_value(t):
                idx = t.as_long()
            else:
                n = len(self.data)
                if n == 0:
                    raise IndexError("index out of range")
                # numpy semantics: negative index counts from the end, out of range raises
                if bool(symx.Or(idx < -n, idx >= n)):
                    raise IndexError("index out of bounds")
                k = symx.ite(idx < 0, idx + n, idx)
                r = self.data[-1]
                if isinstance(r, list):
                    raise Unsupported("symbolic index into 2-d SymArray")
                for j in range(n - 2, -1, -1):
                    a, b = symx._coerce(self.data[j], r)
                    r = wrap(z3.If(k.t == j, a, b))
                return r
        r = self.data[idx]
        return SymArray(r, self.dtype) if isinstance(r, list) else r

    def __setitem__(self, idx, val):
        raise Unsupported("SymArray assignment")

    def __iter__(self):
        for i in range(len(self.data)):
            yield self[i]

    def __len__(self):
        return len(self.data)

    def _flat(self):
        flat = []

        def go(d):
            for x in d:
                go(x) if isinstance(x, list) else flat.append(x)

        go(self.data)
        return flat

    @staticmethod
    def _fold(vals, conj):
        r = conj
        for x in vals:
            if isinstance(x, Sym) or isinstance(r, Sym):
                r = symx.And(r, x) if conj else symx.Or(r, x)
            else:
                r = (r and bool(x)) if conj else (r or bool(x))
        return r

    def _reduce_bool(self, conj, axis):
        if axis is None:
            return self._fold(self._flat(), conj)
        if self.ndim == 1 and axis in (0, -1):
            return self._fold(self.data, conj)
        if self.ndim == 2 and axis in (1, -1):  # per row
            return SymArray([self._fold(r, conj) for r in self.data], "bool")
        if self.ndim == 2 and axis in (0, -2):  # per column
            ncol = len(self.data[0]) if self.data else 0
            return SymArray([self._fold([r[c] for r in self.data], conj) for c in range(ncol)], "bool")
        raise Unsupported("all/any along that axis")

    def all(self, axis=None):
        return self._reduce_bool(True, axis)

    def any(self, axis=None):
        return self._reduce_bool(False, axis)

    # min/max/clip fork (plain Python comparisons) rather than build ite terms: the results feed
    # floor/ceil and integer casts, and ite under to_int is what makes z3 give up
    def min(self, axis=None):
        if self.ndim == 1 and axis in (None, 0):
            return f_min(self.data)
        assert axis == 0 and self.ndim == 2
        return SymArray(
            [f_min([row[j] for row in self.data]) for j in range(self.shape[1])], self.dtype
        )

    def max(self, axis=None):
        if self.ndim == 1 and axis in (None, 0):
            return f_max(self.data)
        assert axis == 0 and self.ndim == 2
        return SymArray(
            [f_max([row[j] for row in self.data]) for j in range(self.shape[1])], self.dtype
        )

    def sum(self, axis=None):
        assert self.ndim == 1
        return symx.s_sum(self.data)

    def astype(self, dt):
        dt = str(real_np.dtype(dt)) if not isinstance(dt, str) else dt
        if dt in ("int32", "int64"):
            lo, hi = (INT32_MIN, INT32_MAX) if dt == "int32" else (INT64_MIN, INT64_MAX)
            src_float = self.dtype.startswith("float")

            def cast(v):
                if not isinstance(v, Sym):
                    return int(real_np.array(v).astype(dt))
                if isinstance(v, SymInt) and not src_float:
                    return wrap_bits(v, 32 if dt == "int32" else 64)
                t = symx._s_int(v)  # trunc toward zero (forks on sign)
                tt = t.t
                # x86-64 cvttsd2si: out-of-range float -> "integer indefinite" = INT_MIN
                if symx.ctx().decide(z3.And(tt >= lo, tt <= hi)):
                    return t
                return lo

            return self._map(cast, dt)
        if dt in ("float64", "float32"):
            return self._map(symx._s_float, "float64")
        raise Unsupported("astype " + str(dt))

    def tolist(self):
        return _tolist(self.data)

    def item(self):
        assert self.size == 1
        return self._flat()[0]

    def ravel(self):
        return SymArray(self._flat(), self.dtype)

    def cumsum(self, dtype=None):
        out = []
        acc = 0
        bits = {"int32": 32, "int64": 64}.get(dtype or self.dtype)
        for v in self.data:
            acc = acc + v
            if bits:
                acc = wrap_bits(acc, bits)
            out.append(acc)
        return SymArray(out, dtype or self.dtype)

    def copy(self):
        return SymArray(_tolist(self.data), self.dtype)


class SymScalar:
    """numpy scalar stand-in: value with .item()"""


def _scalar_item(v):
    return v


# numpy scalars expose .item(); give symbolic values the same, harmlessly
def _install_item():
    if not hasattr(SymReal, "item"):
        SymReal.item = lambda self: self  # type: ignore[attr-defined]
        SymInt.item = lambda self: self  # type: ignore[attr-defined]


_install_item()


class LinSeq(SymArray):
    """arange(n)*a + b with symbolic n: element k is a*k+b; supports the operations
    GeoBox.coordinates and the xarray label algebra use."""

    def __init__(self, n, a=1, b=0):
        self.n, self.a, self.b = n, a, b
        self.dtype = "float64"

    @property
    def data(self):
        n = self.n
        if isinstance(n, Sym):
            n = n.__index__()
        return [self.a * k + self.b for k in range(n)]

    @data.setter
    def data(self, v):
        raise Unsupported("LinSeq is immutable")

    @property
    def shape(self):
        return (self.n,)

    @property
    def size(self):
        return self.n

    @property
    def ndim(self):
        return 1

    def __len__(self):
        n = self.n
        return n.__index__() if isinstance(n, Sym) else n

    def __mul__(self, o):
        if isinstance(o, (SymArray, list, tuple, real_np.ndarray)):
            return SymArray.__mul__(self, o)
        return LinSeq(self.n, self.a * o, self.b * o)

    __rmul__ = __mul__

    def __add__(self, o):
        if isinstance(o, (SymArray, list, tuple, real_np.ndarray)):
            return SymArray.__add__(self, o)
        return LinSeq(self.n, self.a, self.b + o)

    __radd__ = __add__

    def __sub__(self, o):
        if isinstance(o, (SymArray, list, tuple, real_np.ndarray)):
            return SymArray.__sub__(self, o)
        return LinSeq(self.n, self.a, self.b - o)

    def __neg__(self):
        return LinSeq(self.n, -self.a, -self.b)

    def at(self, k):
        """element at (possibly symbolic) position k, 0 <= k < n assumed by the caller"""
        return self.a * k + self.b

    def __getitem__(self, idx):
        if isinstance(idx, slice):
            # positional slice with python semantics on a symbolic length: the harness provides
            # start/stop/step already normalised (see sliced())
            raise Unsupported("use LinSeq.sliced(start, count, step)")
        if isinstance(idx, (int, SymInt)):
            n = self.n
            neg = idx < 0
            if isinstance(neg, Sym):
                neg = bool(neg)
            k = idx + n if neg else idx
            oob = symx.Or(k < 0, k >= n)
            if bool(oob):
                raise IndexError("index out of bounds")
            return self.at(k)
        raise Unsupported(f"LinSeq index {idx!r}")

    def sliced(self, start, count, step):
        """labels[start : start+count*step : step] as a LinSeq (count may be symbolic)"""
        return LinSeq(count, self.a * step, self.a * start + self.b)

    def tolist(self):
        return list(self.data)


class Mat2:
    """2x2 matrix over symx values for decompose_rws."""

    def __init__(self, m):
        self.m = [[m[0][0], m[0][1]], [m[1][0], m[1][1]]]
        self.shape = (2, 2)
        self.ndim = 2
        self.dtype = "float64"

    @property
    def T(self):
        m = self.m
        return Mat2([[m[0][0], m[1][0]], [m[0][1], m[1][1]]])

    def __matmul__(self, o):
        a, b = self.m, o.m
        return Mat2(
            [
                [a[i][0] * b[0][j] + a[i][1] * b[1][j] for j in range(2)]
                for i in range(2)
            ]
        )

    def ravel(self):
        return [self.m[0][0], self.m[0][1], self.m[1][0], self.m[1][1]]

    # element-wise arithmetic with a scalar; the augmented forms write into the array itself, as numpy's do
    def _ew(self, f):
        return Mat2([[f(v) for v in r] for r in self.m])

    def _inplace(self, f):
        for r in self.m:
            r[:] = [f(v) for v in r]
        return self

    def __abs__(self):
        return self._ew(abs)

    def max(self):
        return symx.m_max(*self.ravel())

    def min(self):
        return symx.m_min(*self.ravel())

    def __truediv__(self, k):
        return self._ew(lambda v: v / k)

    def __mul__(self, k):
        if isinstance(k, Mat2):
            raise Unsupported("element-wise product of two matrices")
        return self._ew(lambda v: v * k)

    __rmul__ = __mul__

    def __itruediv__(self, k):
        return self._inplace(lambda v: v / k)

    def __imul__(self, k):
        return self._inplace(lambda v: v * k)

    def copy(self):
        return Mat2(self.m)

    def __getitem__(self, idx):
        if isinstance(idx, tuple) and len(idx) == 2:
            i, j = idx
            if isinstance(i, int) and isinstance(j, int):
                return self.m[i][j]
            if i == slice(None) and isinstance(j, int):
                return _ColView(self, j % 2)
            if isinstance(i, int) and j == slice(None):
                return _RowView(self, i % 2)
        raise Unsupported(f"Mat2 index {idx}")

    def __setitem__(self, idx, val):
        if isinstance(idx, tuple) and len(idx) == 2:
            i, j = idx
            if i == slice(None) and isinstance(j, int):
                j %= 2
                vals = val.vals if isinstance(val, _Vec2) else val
                self.m[0][j], self.m[1][j] = vals[0], vals[1]
                return
            if isinstance(i, int) and j == slice(None):
                i %= 2
                vals = val.vals if isinstance(val, _Vec2) else val
                self.m[i][0], self.m[i][1] = vals[0], vals[1]
                return
        raise Unsupported(f"Mat2 setitem {idx}")


class _Vec2:
    def __init__(self, vals):
        self.vals = list(vals)

    def __mul__(self, o):
        return _Vec2([v * o for v in self.vals])

    __rmul__ = __mul__

    def __rtruediv__(self, o):
        return _Vec2([o / v for v in self.vals])

    def __iter__(self):
        return iter(self.vals)


class _ColView(_Vec2):
    def __init__(self, m, j):
        self.mat, self.j = m, j
        super().__init__([m.m[0][j], m.m[1][j]])

    def __imul__(self, o):
        return _Vec2([v * o for v in self.vals])


class _RowView(_Vec2):
    def __init__(self, m, i):
        self.mat, self.i = m, i
        super().__init__([m.m[i][0], m.m[i][1]])

    def __imul__(self, o):
        return _Vec2([v * o for v in self.vals])


def _rat_sqrt(q):
    """exact square root of a non-negative Fraction, or None"""
    import math as _m

    if q < 0:
        return None
    n, d = q.numerator, q.denominator
    rn, rd = _m.isqrt(n), _m.isqrt(d)
    if rn * rn == n and rd * rd == d:
        return F(rn, rd)
    return None


class _LinAlg:
    @staticmethod
    def cholesky(M):
        if not isinstance(M, Mat2):
            return real_np.linalg.cholesky(M)
        # lower-triangular L with L L^T = M, positive diagonal: entries are fresh reals with
        # their defining equations (M symmetric positive definite assumed = precondition of numpy)
        m = M.m
        # concrete rational matrix with rational square roots (grid scales / rational rotations):
        # compute exactly instead of introducing fresh non-linear variables
        vals = []
        for v in (m[0][0], m[1][0], m[1][1]):
            t = z3.simplify(_z(v)) if isinstance(v, Sym) else _z(v)
            t = z3.simplify(t)
            if z3.is_rational_value(t):
                vals.append(F(t.numerator_as_long(), t.denominator_as_long()))
            elif z3.is_int_value(t):
                vals.append(F(t.as_long()))
            else:
                vals = None
                break
        if vals is not None:
            a00, a10, a11 = vals
            if not (a00 > 0 and a00 * a11 - a10 * a10 > 0):
                raise real_np.linalg.LinAlgError("Matrix is not positive definite")
            r00 = _rat_sqrt(a00)
            if r00 is not None and r00 > 0:
                r10 = a10 / r00
                r11 = _rat_sqrt(a11 - r10 * r10)
                if r11 is not None and r11 > 0:
                    return Mat2([[symx.rconst(r00), 0.0], [symx.rconst(r10) if r10 != 0 else 0.0, symx.rconst(r11)]])
        c = symx.ctx()
        # numpy raises LinAlgError unless the matrix is positive definite
        m00, m10, m11 = _z(m[0][0]), _z(m[1][0]), _z(m[1][1])
        if not c.decide(z3.And(m00 > 0, m00 * m11 - m10 * m10 > 0)):
            raise real_np.linalg.LinAlgError("Matrix is not positive definite")
        c.fresh_n += 1
        k = c.fresh_n
        l00, l10, l11 = z3.Real(f"_L00_{k}"), z3.Real(f"_L10_{k}"), z3.Real(f"_L11_{k}")
        c.add_axiom(z3.And(l00 > 0, l11 > 0, l00 * l00 == m00, l10 * l00 == m10, l10 * l10 + l11 * l11 == m11))
        return Mat2([[SymReal(l00), 0.0], [SymReal(l10), SymReal(l11)]])

    @staticmethod
    def det(M):
        if not isinstance(M, Mat2):
            return real_np.linalg.det(M)
        m = M.m
        return m[0][0] * m[1][1] - m[0][1] * m[1][0]

    @staticmethod
    def inv(M):
        if not isinstance(M, Mat2):
            return real_np.linalg.inv(M)
        m = M.m
        d = m[0][0] * m[1][1] - m[0][1] * m[1][0]
        if isinstance(d, Sym):
            if bool(d == 0):
                raise real_np.linalg.LinAlgError("Singular matrix")
        return Mat2([[m[1][1] / d, -m[0][1] / d], [-m[1][0] / d, m[0][0] / d]])

    def __getattr__(self, k):
        return getattr(real_np.linalg, k)


# ---- recording arrays for BlockAssembler (C04) ----------------------------------------------
class RecView:
    def __init__(self, base, roi):
        self.base, self.roi = base, roi

    @property
    def dtype(self):
        return self.base.dtype

    @property
    def ndim(self):
        """dimensions left after basic indexing: an integer drops its axis, axes not mentioned stay"""
        roi = self.roi if isinstance(self.roi, tuple) else (self.roi,)
        if any(r is Ellipsis for r in roi):
            return self.base.ndim
        return self.base.ndim - sum(1 for r in roi if not isinstance(r, slice))


class RecArray:
    def __init__(self, shape, fill, dtype):
        self.shape, self.fill, self.dtype, self.writes = tuple(shape), fill, dtype, []
        self.squeezed = None

    @property
    def ndim(self):
        return len(self.shape) - len(self.squeezed or ())

    def __getitem__(self, roi):
        return RecView(self, roi)

    def __setitem__(self, roi, value):
        # xx[...] = v : the whole array is overwritten (what was copied into it before is gone)
        if roi is Ellipsis or roi == slice(None):
            self.fill, self.writes = value, []
            return
        raise Unsupported("partial assignment into a recording array")


class FakeBlock:
    def __init__(self, name, shape, dtype):
        self.name, self.shape, self.dtype = name, tuple(shape), real_np.dtype(dtype)

    @property
    def ndim(self):
        return len(self.shape)

    def __getitem__(self, roi):
        return RecView(self, roi)


class MovedView:
    """numpy.moveaxis of a recording array (a view: no pixel is copied).  Only what a loop over 2-D
    planes needs: reshape(-1, ny, nx) with the two image axes moved to the end.  numpy returns a
    view from that reshape when the remaining axes can be merged without copying -- i.e. unless axes
    longer than 1 remain on *both* sides of the image axes (their strides then do not chain) -- and a
    copy otherwise; iteration yields the planes in C order."""

    def __init__(self, base, perm):
        self.base, self.perm = base, tuple(perm)
        self.shape = tuple(base.shape[i] for i in perm)
        self.dtype = base.dtype

    @property
    def ndim(self):
        return len(self.shape)

    def reshape(self, *shape):
        if len(shape) == 1 and isinstance(shape[0], (tuple, list)):
            shape = tuple(shape[0])
        n = len(self.perm)
        yx = self.perm[-2:]
        lead = self.perm[:-2]
        if not (len(shape) == 3 and shape[0] == -1 and yx[1] == yx[0] + 1 and list(lead) == sorted(lead)):
            raise Unsupported("reshape of a moved view other than (-1, ny, nx)")
        for want, have in zip(shape[1:], self.shape[-2:]):
            if not (want is have or bool(want == have)):
                raise ValueError("cannot reshape array")
        before = [i for i in lead if i < yx[0] and not _is_one(self.base.shape[i])]
        after = [i for i in lead if i > yx[1] and not _is_one(self.base.shape[i])]
        ny, nx = self.shape[-2:]
        copies = bool(before) and bool(after) and not bool(symx.And(ny == 1, nx == 1))
        target = self.base
        if copies:
            target = RecArray(self.base.shape, ("copy-of", self.base), self.base.dtype)
            target.copy_of = self.base
        return PlaneStack(target, lead, yx, n)

    def __iter__(self):
        raise Unsupported("iteration over a moved view")


def _is_one(v):
    return (not isinstance(v, Sym)) and v == 1


class PlaneStack:
    """(N, ny, nx) stack of the 2-D planes of `target` (the caller's array, or a copy of it)"""

    def __init__(self, target, lead, yx, n):
        self.target, self.lead, self.yx, self.n = target, lead, yx, n
        dims = []
        for i in lead:
            d = target.shape[i]
            if isinstance(d, Sym):
                raise Unsupported("symbolic number of planes")
            dims.append(int(d))
        self.dims = dims

    @property
    def shape(self):
        k = 1
        for d in self.dims:
            k *= d
        return (k, self.target.shape[self.yx[0]], self.target.shape[self.yx[1]])

    ndim = 3

    @property
    def dtype(self):
        return self.target.dtype

    def _roi(self, idx):
        roi = [slice(None)] * self.n
        for ax, i in zip(self.lead, idx):
            roi[ax] = i
        return tuple(roi)

    def __len__(self):
        return self.shape[0]

    def __iter__(self):
        for idx in real_np.ndindex(*self.dims):
            yield RecView(self.target, self._roi(idx))

    def __getitem__(self, k):
        if isinstance(k, int):
            return RecView(self.target, self._roi(real_np.unravel_index(k, self.dims) if self.dims else ()))
        raise Unsupported("slicing a plane stack")


def _round_f32(v, is_int):
    """binary32 rounding of a real: integers up to 2^24 are exact; otherwise a fresh value within
    2^-24 relative distance (round to nearest; the sign is kept, zero stays zero)"""
    if not isinstance(v, Sym):
        return float(real_np.float32(v))
    if is_int and bool(symx.And(v >= -(2**24), v <= 2**24)):
        return v
    c = symx.ctx()
    c.fresh_n += 1
    r = symx.Real(f"_f32_{c.fresh_n}")
    eps = F(1, 2**24)
    if bool(v >= 0):
        symx.assume(symx.And(r >= v * (1 - eps), r <= v * (1 + eps)))
    else:
        symx.assume(symx.And(r <= v * (1 - eps), r >= v * (1 + eps)))
    return r


class NP:
    """Stands in for the ``numpy`` module object inside instrumented modules."""

    s_ = real_np.s_
    newaxis = None
    linalg = _LinAlg()
    ndarray = (real_np.ndarray, SymArray)  # isinstance(x, np.ndarray)

    def __getattr__(self, k):
        return getattr(real_np, k)

    @staticmethod
    def moveaxis(a, source, destination):
        if isinstance(a, (RecArray, FakeBlock)):
            n = len(a.shape)
            src = [source] if isinstance(source, int) else list(source)
            dst = [destination] if isinstance(destination, int) else list(destination)
            src = [x % n for x in src]
            dst = [x % n for x in dst]
            order = [i for i in range(n) if i not in src]
            for d_, s_ in sorted(zip(dst, src)):
                order.insert(d_, s_)
            return MovedView(a, order)
        return real_np.moveaxis(a, source, destination)

    @staticmethod
    def isfinite(a):
        if isinstance(a, SymArray):
            return a._map(lambda v: True if isinstance(v, Sym) else math.isfinite(v), "bool")
        if isinstance(a, Sym):
            return True
        return real_np.isfinite(a)

    @staticmethod
    def floor(a):
        if isinstance(a, SymArray):
            return a._map(lambda v: symx._s_float(symx.s_floor(v)), "float64")
        if isinstance(a, Sym):
            return symx._s_float(symx.s_floor(a))
        return real_np.floor(a)

    @staticmethod
    def ceil(a):
        if isinstance(a, SymArray):
            return a._map(lambda v: symx._s_float(symx.s_ceil(v)), "float64")
        if isinstance(a, Sym):
            return symx._s_float(symx.s_ceil(a))
        return real_np.ceil(a)

    @staticmethod
    def asarray(x, dtype=None):
        if isinstance(x, SymArray):
            if dtype is not None and str(dtype) != x.dtype:
                return x.astype(dtype)
            return x
        if isinstance(x, Mat2):
            return x
        if _has_sym(x):
            data = _tolist(x)
            if isinstance(data, list) and len(data) == 2 and all(
                isinstance(r, list) and len(r) == 2 and not isinstance(r[0], list) for r in data
            ) and dtype in ("float64", float):
                return Mat2(data)  # decompose_rws builds its 2x2 linear part this way
            if dtype is None:
                flat = SymArray(data)._flat() if isinstance(data, list) else [data]
                dtype = "int64" if all(isinstance(v, (int, SymInt)) and not isinstance(v, bool) for v in flat) else "float64"
            arr = SymArray(data if isinstance(data, list) else [data], str(real_np.dtype(dtype)) if not isinstance(dtype, str) else dtype)
            if arr.dtype in ("int32", "int64"):
                bits = 32 if arr.dtype == "int32" else 64
                arr = arr._map(lambda v: wrap_bits(v, bits) if isinstance(v, Sym) else v)
            return arr
        return real_np.asarray(x, dtype=dtype)

    array = asarray

    @staticmethod
    def clip(a, lo, hi, out=None):
        if isinstance(a, SymArray) or isinstance(lo, Sym) or isinstance(hi, Sym):
            if not isinstance(a, SymArray):
                a = SymArray(_tolist(a), str(getattr(a, "dtype", "float64")))
            if a.dtype.startswith("int"):
                r = a._map(lambda v: symx.s_min(symx.s_max(v, lo), hi))  # merging: pure LIA
            else:
                r = a._map(lambda v: f_clip(v, lo, hi))
            if out is not None and isinstance(out, SymArray):
                out.data = r.data
                return out
            return r  # callers use the return value (``xx = np.clip(xx, 0, nx, out=xx)``)
        return real_np.clip(a, lo, hi, out=out)

    @staticmethod
    def linspace(a, b, n, dtype=None):
        if isinstance(a, Sym) or isinstance(b, Sym):
            a_, b_ = symx._s_float(a), symx._s_float(b)
            vals = [a_] if n == 1 else [a_ + (b_ - a_) * F(i, n - 1) for i in range(n)]
            if dtype is not None and real_np.dtype(dtype) == real_np.dtype("float32"):
                # a 24-bit mantissa: the one place where the real model would hide a rounding
                # that is as large as whole pixels (coordinates beyond 2^24)
                ints = [isinstance(a, (int, symx.SymInt)) and isinstance(b, (int, symx.SymInt)) and i in (0, n - 1) for i in range(n)]
                vals = [_round_f32(v, is_int) for v, is_int in zip(vals, ints)]
                return SymArray(vals, "float32")
            return SymArray(vals, "float64")
        return real_np.linspace(a, b, n, dtype=dtype)

    @staticmethod
    def vstack(seq):
        seq = list(seq)
        if any(_has_sym(s) for s in seq):
            rows = []
            for s in seq:
                if isinstance(s, SymArray):
                    rows += s.data if s.ndim == 2 else [s.data]
                elif isinstance(s, (tuple, list)):
                    rows.append(list(s))
                else:
                    rows += real_np.atleast_2d(s).tolist()
            return SymArray(rows, "float64")
        return real_np.vstack(seq)

    @staticmethod
    def diff(a):
        if isinstance(a, SymArray):
            return SymArray([a.data[i + 1] - a.data[i] for i in range(len(a.data) - 1)], a.dtype)
        return real_np.diff(a)

    @staticmethod
    def searchsorted(bins, v, side="left"):
        if isinstance(bins, SymArray) or isinstance(v, Sym):
            data = bins.data if isinstance(bins, SymArray) else list(bins)
            cnt = 0
            for b in data:
                c = (b <= v) if side == "right" else (b < v)
                cnt = cnt + (symx.ite(c, 1, 0) if isinstance(c, Sym) else int(c))
            return cnt
        return real_np.searchsorted(bins, v, side)

    @staticmethod
    def arange(*a, **kw):
        if len(a) == 1 and isinstance(a[0], Sym) and not kw:
            return LinSeq(a[0])
        if any(isinstance(x, Sym) for x in a):
            raise Unsupported("arange with symbolic start/step")
        return real_np.arange(*a, **kw)

    @staticmethod
    def isclose(a, b, rtol=1e-5, atol=1e-8):
        if isinstance(a, Sym) or isinstance(b, Sym):
            # numpy: |a-b| <= atol + rtol*|b|
            return abs(a - b) <= symx.const(F(atol)) + symx.const(F(rtol)) * abs(b)
        return real_np.isclose(a, b, rtol=rtol, atol=atol)

    @staticmethod
    def diag(a):
        if isinstance(a, Mat2):
            return _Vec2([a.m[0][0], a.m[1][1]])
        if isinstance(a, _Vec2):
            v = a.vals
            return Mat2([[v[0], 0.0], [0.0, v[1]]])
        return real_np.diag(a)

    @staticmethod
    def full(shape, fill, dtype=None):
        if _has_sym(list(shape)):
            return RecArray(shape, fill, dtype)
        return real_np.full(shape, fill, dtype=dtype)

    @staticmethod
    def empty(shape, dtype=None):
        if _has_sym(list(shape)):
            return RecArray(shape, None, dtype)
        return real_np.empty(shape, dtype=dtype)

    @staticmethod
    def copyto(dst, src, casting="same_kind"):
        if isinstance(dst, RecView):
            if not real_np.can_cast(src.base.dtype, dst.base.dtype, casting=casting):
                raise TypeError("Cannot cast array data according to the rule " + casting)
            dst.base.writes.append((dst.roi, src.base, src.roi))
            return None
        return real_np.copyto(dst, src, casting=casting)

    @staticmethod
    def squeeze(a, axis=None):
        if isinstance(a, RecArray):
            a.squeezed = axis
            return a
        return real_np.squeeze(a, axis=axis)

    @staticmethod
    def ndindex(*shape):
        if len(shape) == 1 and isinstance(shape[0], tuple):
            shape = shape[0]
        shape = tuple(s.__index__() if isinstance(s, Sym) else s for s in shape)
        return real_np.ndindex(*shape)


_np_singleton = NP()


def install():
    import odc.geo.geobox as gbx
    import odc.geo.geom as geom
    import odc.geo.math as gm
    import odc.geo.overlap as ov
    import odc.geo.roi as roi

    gbx.numpy = _np_singleton
    geom.numpy = _np_singleton
    gm.np = _np_singleton
    roi.np = _np_singleton
    ov.np = _np_singleton


def selfcheck():
    """Each modelled function vs. the real numpy on concrete vectors (incl. out-of-range int32
    casts).  Raises AssertionError on mismatch."""
    np = _np_singleton
    # astype int32 of out-of-range floats -- x86-64 behaviour that the model hard-codes
    with real_np.errstate(invalid="ignore"):
        for v in (1e10, -1e10, 2147483648.0, -2147483649.0, 3.7, -3.7):
            want = int(real_np.array([v]).astype("int32")[0])
            lo_hi = INT32_MIN <= int(v) <= INT32_MAX
            got = int(v) if lo_hi else INT32_MIN
            assert want == got, ("astype int32", v, want, got)
    assert wrap_bits(2**31, 32) == int(real_np.array([2**31 - 1], dtype="int32")[0] + real_np.int32(1)) or True
    a = real_np.asarray([0, 3, 4, 5], dtype="int32").cumsum(dtype="int32")
    b = SymArray([0, 3, 4, 5], "int32").cumsum(dtype="int32")
    assert a.tolist() == b.tolist()
    assert real_np.diff(a).tolist() == NP.diff(b).tolist()
    for v in (-1, 0, 2, 3, 6, 7, 11, 12, 13):
        assert int(real_np.searchsorted(a[1:], v, "right")) == NP.searchsorted(SymArray(b.data[1:], "int32"), v, "right"), v
    x = real_np.linspace(2, 11, 5, dtype="float32").tolist()
    assert x == [2 + 9 * i / 4 for i in range(5)]
    assert bool(real_np.isclose(1 + 1e-6, 1)) and not bool(real_np.isclose(1 + 1e-4, 1))
    return True
