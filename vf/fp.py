"""FP-exact mode (DESIGN 3.6): SymFP values over z3's floating-point theory (RNE), for the
helpers whose contract *is* about floats.  The same real functions run on SymFP through the same
engine (forking at comparisons); only add/sub/neg/abs/compare/round-to-integral kernels are
attempted -- multiplication/division at binary64 do not bit-blast within minutes here."""
from __future__ import annotations

import math

import z3

from . import symx
from .symx import Sym, SymBool, ctx

RNE = z3.RNE()
SORTS = {16: z3.Float16(), 32: z3.Float32(), 64: z3.Float64()}


class SymFP(Sym):
    __slots__ = ()
    sort = SORTS[64]

    def _lift(self, o):
        if isinstance(o, SymFP):
            return o.t
        if isinstance(o, bool):
            raise TypeError
        if isinstance(o, (int, float)):
            return z3.FPVal(float(o), self.t.sort())
        raise TypeError(type(o))

    def __add__(self, o):
        return SymFP(z3.fpAdd(RNE, self.t, self._lift(o)))

    __radd__ = __add__

    def __sub__(self, o):
        return SymFP(z3.fpSub(RNE, self.t, self._lift(o)))

    def __rsub__(self, o):
        return SymFP(z3.fpSub(RNE, self._lift(o), self.t))

    def __neg__(self):
        return SymFP(z3.fpNeg(self.t))

    def __abs__(self):
        return SymFP(z3.fpAbs(self.t))

    def __mul__(self, o):
        raise symx.Abort("FP multiplication is outside the FP-exact mode")

    __rmul__ = __truediv__ = __rtruediv__ = __mul__

    def __lt__(self, o):
        return SymBool(z3.fpLT(self.t, self._lift(o)))

    def __le__(self, o):
        return SymBool(z3.fpLEQ(self.t, self._lift(o)))

    def __gt__(self, o):
        return SymBool(z3.fpGT(self.t, self._lift(o)))

    def __ge__(self, o):
        return SymBool(z3.fpGEQ(self.t, self._lift(o)))

    def __eq__(self, o):
        return SymBool(z3.fpEQ(self.t, self._lift(o)))

    def __ne__(self, o):
        return SymBool(z3.Not(z3.fpEQ(self.t, self._lift(o))))

    __hash__ = None  # type: ignore[assignment]


class FPInt:
    """int(x) of an integral SymFP (maybe_int's return value): remembers the float it came from"""

    def __init__(self, src: SymFP):
        self.src = src


def FP(name, bits=64):
    c = ctx()
    if c.concrete:
        import struct

        v = c.model_vals[name]
        return float(v) if not isinstance(v, str) else float.fromhex(v) if v.startswith(("0x", "-0x")) else float(v)
    v = z3.FP(name, SORTS[bits])
    symx._register(name, v, "fp")
    return SymFP(v)


def fp_isfinite(x):
    return SymBool(z3.Not(z3.Or(z3.fpIsNaN(x.t), z3.fpIsInf(x.t))))


def fp_fmod(x, y):
    if not (y == 1 or y == 1.0):
        raise symx.Abort("only fmod(x, 1.0) is encoded exactly in FP mode")
    # C fmod(x, 1.0) is exact: x - trunc(x)
    return SymFP(z3.fpSub(RNE, x.t, z3.fpRoundToIntegral(z3.RTZ(), x.t)))


def is_integral(x: SymFP):
    return SymBool(z3.fpEQ(z3.fpRoundToIntegral(z3.RTZ(), x.t), x.t))


def install(mod):
    """make the math helpers of `mod` (already carrying the symx shims) SymFP-aware"""
    base_isfinite, base_fmod, base_int = mod.isfinite, mod.fmod, mod.int

    def isfinite(x):
        return fp_isfinite(x) if isinstance(x, SymFP) else base_isfinite(x)

    def fmod(x, y):
        return fp_fmod(x, y) if isinstance(x, SymFP) else base_fmod(x, y)

    class _M(type(base_int)):
        def __instancecheck__(cls, x):
            return isinstance(x, FPInt) or base_int.__instancecheck__(x)

        def __call__(cls, *a):
            if a and isinstance(a[0], SymFP):
                return FPInt(a[0])
            return base_int(*a)

    class fp_int(metaclass=_M):
        pass

    mod.isfinite, mod.fmod, mod.int = isfinite, fmod, fp_int


def model_float(m, v):
    x = m.eval(v, model_completion=True)
    return str(x)
