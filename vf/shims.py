"""Getting symbolic values through the real code: namespace shims (DESIGN 3.2).

Nothing under /repo is edited.  The harness sets attributes on the *imported module objects* so
that the global names the real functions look up (``int``, ``float``, ``isinstance``, ``min``,
``max``, ``round``, ``math``, ``floor`` ...) resolve to symbol-aware versions that fall through to
the real builtin for non-symbolic arguments.
"""
from __future__ import annotations

import ast
import builtins
import importlib
import inspect
import math
import sys

from . import symx
from .symx import SHIMS, MathShim, Sym

_installed = set()


class HarnessError(Exception):
    pass


_ALLOWED_VALUE_USE = {"map", "isinstance", "zip"}


def scan_module(mod, names):
    """Refuse to shim a builtin that the module uses other than (a) as a call, (b) as a class
    argument of isinstance(), (c) as the function argument of map(), or (d) in an annotation:
    anything else (``type(x) is int``, ``x.__class__ == float``, ``{int: ...}``) could silently
    change meaning under the shim."""
    try:
        src = inspect.getsource(mod)
    except (OSError, TypeError):
        return []
    tree = ast.parse(src)
    bad = []
    parents = {}
    for node in ast.walk(tree):
        for ch in ast.iter_child_nodes(node):
            parents[ch] = node

    def in_annotation(n):
        while n in parents:
            p = parents[n]
            if isinstance(p, ast.arg) and p.annotation is n:
                return True
            if isinstance(p, ast.AnnAssign) and p.annotation is n:
                return True
            if isinstance(p, (ast.FunctionDef, ast.AsyncFunctionDef)) and p.returns is n:
                return True
            # typing subscripts: Optional[int], Tuple[int, int], Union[...]
            if isinstance(p, ast.Subscript) and (p.slice is n or _inside(p.slice, n)):
                return True
            n = p
        return False

    def _inside(root, n):
        return any(x is n for x in ast.walk(root))

    for node in ast.walk(tree):
        if isinstance(node, ast.Name) and node.id in names and isinstance(node.ctx, ast.Load):
            p = parents.get(node)
            if isinstance(p, ast.Call) and p.func is node:
                continue
            if isinstance(p, ast.Call) and isinstance(p.func, ast.Name) and p.func.id in _ALLOWED_VALUE_USE:
                continue
            if isinstance(p, ast.Call) and isinstance(p.func, ast.Attribute) and p.func.attr == "map":
                continue  # XY.map(int): the shim class is callable like the builtin
            if isinstance(p, ast.Tuple):
                pp = parents.get(p)
                if isinstance(pp, ast.Call) and isinstance(pp.func, ast.Name) and pp.func.id == "isinstance":
                    continue
            if isinstance(p, ast.keyword) and p.arg in ("converter", "dtype"):
                continue
            if in_annotation(node):
                continue
            bad.append((node.id, node.lineno))
    return bad


def instrument(mod, names=None, math_attr=True, scan=True):
    if isinstance(mod, str):
        mod = importlib.import_module(mod)
    use = {k: v for k, v in SHIMS.items() if names is None or k in names}
    # only shadow names the module actually resolves to the builtin / math function
    todo = {}
    for k, v in use.items():
        cur = mod.__dict__.get(k, None)
        if cur is None:
            if hasattr(builtins, k):
                todo[k] = v
        elif cur is getattr(math, k, object()) or cur is getattr(builtins, k, object()):
            todo[k] = v
        elif cur is v:
            pass
    if scan:
        bad = scan_module(mod, {k for k in todo if hasattr(builtins, k) and k in ("int", "float")})
        if bad:
            raise HarnessError(f"{mod.__name__}: builtin used in a way the shim cannot honour: {bad}")
    for k, v in todo.items():
        setattr(mod, k, v)
    if math_attr and getattr(mod, "math", None) is math:
        mod.math = MathShim()
    _installed.add(mod.__name__)
    return mod


def patch_affine():
    """affine.Affine (attrs, ``converter=float`` on every field): install an __init__ that skips
    the conversion when a field is symbolic.  Everything else in Affine runs unmodified."""
    import affine
    from affine import Affine

    if getattr(Affine, "_vf_patched", False):
        return
    _orig_init = Affine.__init__

    def _init(self, a, b, c, d, e, f, g=0.0, h=0.0, i=1.0):
        vals = [a, b, c, d, e, f]
        if any(isinstance(v, (Sym, symx.F)) for v in vals):
            for k, v in zip("abcdef", vals):
                object.__setattr__(self, k, symx._s_float(v))
            object.__setattr__(self, "g", 0.0)
            object.__setattr__(self, "h", 0.0)
            object.__setattr__(self, "i", 1.0)
        else:
            _orig_init(self, a, b, c, d, e, f, g, h, i)

    Affine.__init__ = _init
    Affine._vf_patched = True
    instrument(affine, names=["isinstance", "abs"], math_attr=False, scan=False)

    # cos_sin_deg: (c, s) with c^2 + s^2 == 1 for a symbolic angle (contract stub)
    _orig_csd = affine.cos_sin_deg

    def cos_sin_deg(deg):
        if isinstance(deg, Sym):
            import z3

            c = symx.ctx()
            c.fresh_n += 1
            cc, ss = z3.Real(f"_cos{c.fresh_n}"), z3.Real(f"_sin{c.fresh_n}")
            c.add_axiom(cc * cc + ss * ss == 1)
            return symx.SymReal(cc), symx.SymReal(ss)
        return _orig_csd(deg)

    affine.cos_sin_deg = cos_sin_deg


CORE = [
    "odc.geo.types",
    "odc.geo.math",
    "odc.geo.roi",
    "odc.geo.geom",
    "odc.geo.geobox",
    "odc.geo.overlap",
    "odc.geo.gridspec",
]


def install_core(with_numpy=True):
    """Instrument the pure-Python core of odc.geo.  No-op in concrete (replay) mode."""
    if symx.concrete_mode() or _concrete_process():
        return
    patch_affine()
    for name in CORE:
        instrument(name)
    if with_numpy:
        from . import npmodel

        npmodel.install()


def _concrete_process():
    import os

    return os.environ.get("VF_CONCRETE") == "1"
