"""./check <ID> [--tier quick|thorough] [--replay file] [--only OB] [--jobs N]"""
from __future__ import annotations

import argparse
import json
import os
import sys
import warnings

warnings.filterwarnings("ignore")


def main(argv=None):
    ap = argparse.ArgumentParser()
    ap.add_argument("prop")
    ap.add_argument("--tier", default=os.environ.get("VERIF_TIER", "quick"), choices=["quick", "thorough"])
    ap.add_argument("--replay")
    ap.add_argument("--replay-internal")
    ap.add_argument("--only")
    ap.add_argument("--jobs", type=int, default=int(os.environ.get("VERIF_JOBS", "16")))
    a = ap.parse_args(argv)
    pid = a.prop.upper()
    from . import runner

    if a.replay_internal:
        out = runner.replay_internal(pid, a.replay_internal)
        print(json.dumps(out, default=str))
        return 0
    if a.replay:
        out = runner.replay_file(pid, a.replay)
        print(json.dumps(out, indent=1, default=str)[:4000])
        if out.get("reproduced"):
            print(f"VIOLATION property={pid} replay={a.replay}")
            return 1
        print("replay: did not reproduce")
        return 0
    seed = int(os.environ.get("VERIF_SEED", "0") or 0)
    return runner.run_property(pid, a.tier, seed, jobs=a.jobs, only=a.only)


if __name__ == "__main__":
    sys.exit(main())
