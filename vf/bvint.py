"""Integer queries with bit operators, re-encoded in wide bit-vectors.

The engine encodes Python's `|`, `&`, `^` on symbolic integers through Int2BV/BV2Int (symx._bitop).
z3 answers `unknown` on queries that mix those with integer arithmetic.  Such a query -- provided it
is integer-only, every integer variable has constant bounds among the top-level conjuncts, and
divisors are positive constants -- is re-encoded here over signed bit-vectors of WIDTH bits:

    Int variable            -> BitVec(WIDTH)
    + - * unary-            -> bvadd bvsub bvmul bvneg         (each with a no-overflow flag)
    div / mod by const d>0  -> floor division through bvsrem/bvsdiv
    Int2BV(t, n)            -> Extract(n-1, 0, T(t))           (two's complement: t mod 2^n)
    BV2Int(b)               -> ZeroExt(WIDTH-n, b)
    comparisons             -> signed comparisons

The re-encoding is exact for an integer model as long as no arithmetic node overflows WIDTH bits.
That is itself a query:  bounds(vars) /\\ \\/ overflow-flags  must be unsat (no path condition in it:
the truth of the path condition under a wrapped evaluation means nothing).  Only then is the
bit-vector verdict used; a sat model is handed back as integer values of the variables and confirmed
by the integer solver with the variables pinned (a ground query).  Anything else: None (the caller
keeps its `unknown`).
"""

import z3

WIDTH = 128


class Unsupported(Exception):
    pass


def has_bitops(terms):
    seen = set()
    stack = list(terms)
    while stack:
        e = stack.pop()
        i = e.get_id()
        if i in seen:
            continue
        seen.add(i)
        if z3.is_app(e):
            k = e.decl().kind()
            if k in (z3.Z3_OP_INT2BV, z3.Z3_OP_BV2INT):
                return True
            stack.extend(e.children())
    return False


class _Tr:
    def __init__(self):
        self.memo = {}
        self.flags = []
        self.vars = {}  # name -> (int const, bv const)

    def num(self, v):
        if not -(2 ** (WIDTH - 2)) < v < 2 ** (WIDTH - 2):
            raise Unsupported("numeral beyond the width")
        return z3.BitVecVal(v, WIDTH)

    def tr(self, e):
        i = e.get_id()
        r = self.memo.get(i)
        if r is None:
            r = self._tr(e)
            self.memo[i] = r
        return r

    def _tr(self, e):
        if z3.is_quantifier(e) or not z3.is_app(e):
            raise Unsupported("not an application")
        s = e.sort()
        k = e.decl().kind()
        ch = e.children()
        if z3.is_int_value(e):
            return self.num(e.as_long())
        if k == z3.Z3_OP_UNINTERPRETED and not ch:
            if s == z3.IntSort():
                nm = e.decl().name()
                v = z3.BitVec("bv!" + nm, WIDTH)
                self.vars[nm] = (e, v)
                return v
            if s == z3.BoolSort():
                return e
            raise Unsupported(f"variable of sort {s}")
        if s.kind() == z3.Z3_REAL_SORT or any(c.sort().kind() == z3.Z3_REAL_SORT for c in ch):
            raise Unsupported("real arithmetic")
        if k in (z3.Z3_OP_TRUE, z3.Z3_OP_FALSE):
            return e
        c = [self.tr(x) for x in ch]
        if k == z3.Z3_OP_AND:
            return z3.And(*c)
        if k == z3.Z3_OP_OR:
            return z3.Or(*c)
        if k == z3.Z3_OP_NOT:
            return z3.Not(c[0])
        if k == z3.Z3_OP_IMPLIES:
            return z3.Implies(c[0], c[1])
        if k == z3.Z3_OP_XOR:
            return z3.Xor(c[0], c[1])
        if k == z3.Z3_OP_ITE:
            return z3.If(c[0], c[1], c[2])
        if k in (z3.Z3_OP_EQ, z3.Z3_OP_IFF):
            return c[0] == c[1]
        if k == z3.Z3_OP_DISTINCT:
            return z3.Distinct(*c)
        if k == z3.Z3_OP_LE:
            return c[0] <= c[1]
        if k == z3.Z3_OP_LT:
            return c[0] < c[1]
        if k == z3.Z3_OP_GE:
            return c[0] >= c[1]
        if k == z3.Z3_OP_GT:
            return c[0] > c[1]
        if k == z3.Z3_OP_ADD:
            r = c[0]
            for x in c[1:]:
                self.flags.append(z3.Not(z3.And(z3.BVAddNoOverflow(r, x, True), z3.BVAddNoUnderflow(r, x))))
                r = r + x
            return r
        if k == z3.Z3_OP_SUB:
            r = c[0]
            for x in c[1:]:
                self.flags.append(z3.Not(z3.And(z3.BVSubNoOverflow(r, x), z3.BVSubNoUnderflow(r, x, True))))
                r = r - x
            return r
        if k == z3.Z3_OP_MUL:
            r = c[0]
            for x in c[1:]:
                self.flags.append(z3.Not(z3.And(z3.BVMulNoOverflow(r, x, True), z3.BVMulNoUnderflow(r, x))))
                r = r * x
            return r
        if k == z3.Z3_OP_UMINUS:
            self.flags.append(z3.Not(z3.BVSNegNoOverflow(c[0])))
            return -c[0]
        if k in (z3.Z3_OP_IDIV, z3.Z3_OP_MOD):
            if not z3.is_int_value(ch[1]) or ch[1].as_long() <= 0:
                raise Unsupported("division by a non-constant or non-positive divisor")
            a, d = c
            r = z3.SRem(a, d)
            mod = z3.If(r < 0, r + d, r)
            if k == z3.Z3_OP_MOD:
                return mod
            self.flags.append(z3.Not(z3.BVSubNoUnderflow(a, mod, True)))
            return (a - mod) / d  # exact signed division
        if k == z3.Z3_OP_INT2BV:
            n = e.params()[0]
            if n > WIDTH:
                raise Unsupported("Int2BV wider than the encoding")
            return z3.Extract(n - 1, 0, c[0])
        if k == z3.Z3_OP_BV2INT:
            n = ch[0].sort().size()
            if n >= WIDTH:
                raise Unsupported("BV2Int as wide as the encoding")
            return z3.ZeroExt(WIDTH - n, c[0])
        if s.kind() == z3.Z3_BV_SORT or (s == z3.BoolSort() and ch and ch[0].sort().kind() == z3.Z3_BV_SORT):
            # a bit-vector operator over (translated) bit-vector operands: same operator
            return e.decl()(*c)
        raise Unsupported(f"operator {e.decl().name()}")


def _const_bound(e):
    """x <= c, x >= c, c <= x ... with x an Int variable and c a numeral: True"""
    if not z3.is_app(e) or e.decl().kind() not in (z3.Z3_OP_LE, z3.Z3_OP_GE, z3.Z3_OP_LT, z3.Z3_OP_GT, z3.Z3_OP_EQ):
        return None
    a, b = e.children()
    for x, c in ((a, b), (b, a)):
        if z3.is_const(x) and x.decl().kind() == z3.Z3_OP_UNINTERPRETED and x.sort() == z3.IntSort() and z3.is_int_value(c):
            return x.decl().name()
    return None


def _conjuncts(terms):
    out = []
    stack = list(terms)
    while stack:
        e = stack.pop()
        if z3.is_app(e) and e.decl().kind() == z3.Z3_OP_AND:
            stack.extend(e.children())
        else:
            out.append(e)
    return out


_CHECKED = []


def _selfcheck():
    """The translator against Python's own integers on fixed inputs (once per process): y is defined
    by a term using every operator translated above; the bit-vector model must give Python's value."""
    x, y, z = z3.Int("sc_x"), z3.Int("sc_y"), z3.Int("sc_z")

    def bor(a, b):
        return z3.BV2Int(z3.Int2BV(a, 64) | z3.Int2BV(b, 64))

    def band(a, b):
        return z3.BV2Int(z3.Int2BV(a, 64) & z3.Int2BV(b, 64))

    def bxor(a, b):
        return z3.BV2Int(z3.Int2BV(a, 64) ^ z3.Int2BV(b, 64))

    t = bor(x, x / 8) + band(x, z) * 3 - bxor(x, z) % 7 + z3.If(x > z, -x, x - z) / 5 - (z - x) % 11
    for xv, zv in ((0, 0), (1, 2), (2**32 + 1, 12345), (2**62, 2**61 + 5), (987654321987, 2**40 - 1), (5, 2**63 - 1)):
        want = (xv | (xv // 8)) + (xv & zv) * 3 - (xv ^ zv) % 7 + ((-xv) if xv > zv else (xv - zv)) // 5 - (zv - xv) % 11
        got = decide([x == xv, z == zv, y == t, y >= -(2**70), y <= 2**70], 20000, _check=False)
        if got is None or got[0] != "sat" or got[1]["sc_y"] != want:
            raise RuntimeError(f"bvint self-check failed for x={xv} z={zv}: {got} vs {want}")
        got = decide([x == xv, z == zv, y == t, y >= -(2**70), y <= 2**70, y != want], 20000, _check=False)
        if got is None or got[0] != "unsat":
            raise RuntimeError(f"bvint self-check (negative) failed for x={xv} z={zv}: {got}")


def decide(terms, timeout_ms=60000, _check=True):
    """('sat', {name: int}) | ('unsat', None) | None when the re-encoding does not apply or is not
    shown exact."""
    if _check and not _CHECKED:
        _CHECKED.append(1)
        _selfcheck()
    try:
        T = _Tr()
        bv = [T.tr(e) for e in terms]
        lo_hi = {}
        bounds_bv = []
        for e in _conjuncts(terms):
            nm = _const_bound(e)
            if nm is not None:
                lo_hi.setdefault(nm, []).append(e)
                bounds_bv.append(T.tr(e))
        # every integer variable needs a lower and an upper constant bound
        for nm, (iv, _) in T.vars.items():
            s = z3.Solver()
            s.set("timeout", 2000)
            s.add(*lo_hi.get(nm, []))
            if str(s.check(z3.Or(iv >= 2 ** (WIDTH - 2), iv <= -(2 ** (WIDTH - 2))))) != "unsat":
                raise Unsupported(f"no constant bounds on {nm}")
        if T.flags:
            s = z3.Solver()
            s.set("timeout", timeout_ms)
            s.add(*bounds_bv)
            s.add(z3.Or(*T.flags))
            if str(s.check()) != "unsat":
                raise Unsupported("an arithmetic node may overflow the width")
        s = z3.Solver()
        s.set("timeout", timeout_ms)
        s.add(*bv)
        r = str(s.check())
        if r == "unsat":
            return "unsat", None
        if r != "sat":
            return None
        m = s.model()
        vals = {}
        for nm, (_, v) in T.vars.items():
            vals[nm] = m.eval(v, model_completion=True).as_signed_long()
        return "sat", vals
    except Unsupported:
        return None
    except z3.Z3Exception:
        return None
