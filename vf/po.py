"""Interleavings as SMT variables (DESIGN 3.3): partial-order encoding over per-thread symbolic
runs of the real thread bodies.

Each thread body is run symbolically on its own (symx), with every read of shared state returning
a *fresh symbol* and every shared access appended to an event log.  For N threads and each choice
of one path per thread, one SMT query over integer timestamps decides whether an interleaving
exists in which the reads-from relation, lock exclusion and the threads' path conditions hold and
the property is violated.  Thread bodies are loop-free, so the encoding is exhaustive for N
threads.  Memory model: sequential consistency at the granularity of one shared access.
"""
from __future__ import annotations

import itertools
import time
from typing import Any, Callable, List, Optional

import z3

from . import symx
from .symx import Ctx


class Ev:
    __slots__ = ("kind", "var", "val")

    def __init__(self, kind, var=None, val=None):
        self.kind, self.var, self.val = kind, var, val

    def __repr__(self):
        return f"{self.kind}({self.var})"


class Recorder:
    """current thread's event log + fresh symbol source"""

    def __init__(self):
        self.log: List[Ev] = []
        self.n = 0

    def fresh(self, name):
        self.n += 1
        return z3.Int(f"{name}_{self.n}")

    def add(self, kind, var=None, val=None):
        self.log.append(Ev(kind, var, val))


REC: Optional[Recorder] = None


def rec() -> Recorder:
    assert REC is not None
    return REC


class ThreadPath:
    def __init__(self, pc, events, outcome):
        self.pc, self.events, self.outcome = pc, events, outcome


def thread_paths(fn: Callable[[], Any], timeout_ms=10000, expected=()) -> List[ThreadPath]:
    """all symbolic paths of one thread body: (path condition over read values, events, outcome)"""
    global REC
    c = Ctx(timeout_ms)
    prev = Ctx.cur
    Ctx.cur = c
    c.pending.append([])
    out = []
    try:
        while c.pending:
            c.prefix = c.pending.pop()
            c.reset_path()
            REC = Recorder()
            try:
                fn()
                outcome = "ok"
            except symx.Abort as e:
                outcome = "abort:" + str(e)
            except expected as e:  # documented refusals
                outcome = "ok"
            except Exception as e:  # noqa: BLE001
                outcome = "exception:" + type(e).__name__
            out.append(ThreadPath(list(c.pc), list(REC.log), outcome))
    finally:
        c.reset_path()
        Ctx.cur = prev
        REC = None
    return out


def _collect(t, acc):
    if z3.is_const(t) and t.decl().kind() == z3.Z3_OP_UNINTERPRETED:
        acc.add(t)
    for ch in t.children():
        _collect(ch, acc)


def check_interleavings(threads: List[List[ThreadPath]], initial: dict, after: Optional[List[tuple]] = None,
                        timeout_ms=20000):
    """threads[i] = list of paths of thread i.  initial: var -> initial value (int).  after:
    (i, j) pairs meaning thread j starts after thread i has finished.  Returns
    dict(combos, sat=[...], unknown=n, solver_s, queries)."""
    t0 = time.time()
    S = z3.Solver()
    S.set("timeout", timeout_ms)
    res = dict(combos=0, sat=[], unknown=0, queries=0, aborted_paths=0)
    for combo in itertools.product(*[range(len(p)) for p in threads]):
        paths = [threads[i][k] for i, k in enumerate(combo)]
        if any(p.outcome.startswith("abort") for p in paths):
            res["aborted_paths"] += 1
            continue
        res["combos"] += 1
        S.push()
        events = []  # (thread, idx, kind, var, val, ts)
        first_last = {}
        for th, p in enumerate(paths):
            syms = set()
            for q in p.pc:
                _collect(q, syms)
            for e in p.events:
                if e.val is not None and z3.is_expr(e.val):
                    _collect(e.val, syms)
            sub = [(s_, z3.Int(f"{s_}__t{th}")) for s_ in syms]
            for q in p.pc:
                S.add(z3.substitute(q, *sub) if sub else q)
            prev = None
            for i, e in enumerate(p.events):
                ts = z3.Int(f"ts_{th}_{i}")
                if prev is not None:
                    S.add(prev < ts)
                prev = ts
                val = z3.substitute(e.val, *sub) if (e.val is not None and z3.is_expr(e.val) and sub) else e.val
                events.append((th, i, e.kind, e.var, val, ts))
            if p.events:
                first_last[th] = (z3.Int(f"ts_{th}_0"), z3.Int(f"ts_{th}_{len(p.events) - 1}"))
        if events:
            S.add(z3.Distinct(*[e[5] for e in events]) if len(events) > 1 else z3.BoolVal(True))
            for e in events:
                S.add(e[5] >= 0)
        for (i, j) in after or []:
            if i in first_last and j in first_last:
                S.add(first_last[i][1] < first_last[j][0])
        # reads-from, per variable; thread-local variables are named with the thread id
        for r in [e for e in events if e[2] == "R"]:
            writes = [e for e in events if e[2] == "W" and e[3] == r[3]]
            init = initial.get(r[3], initial.get(r[3].split("@")[0] if isinstance(r[3], str) else r[3], 0))
            opts = [z3.And(*[w_[5] > r[5] for w_ in writes], r[4] == init) if writes else (r[4] == init)]
            for w_ in writes:
                last = z3.And(w_[5] < r[5], *[z3.Or(o[5] < w_[5], o[5] > r[5]) for o in writes if o is not w_])
                opts.append(z3.And(last, r[4] == w_[4]))
            S.add(z3.Or(*opts))
        # fresh ids pairwise distinct and non-zero
        creates = [e for e in events if e[2] == "CREATE"]
        for k, c_ in enumerate(creates):
            S.add(c_[4] == 100 + k)
        # critical sections of the same lock do not overlap
        secs = {}
        for e in events:
            if e[2] in ("ACQ", "REL"):
                secs.setdefault((e[3], e[0]), []).append(e)
        locks = {k[0] for k in secs}
        for lk in locks:
            ths = [k[1] for k in secs if k[0] == lk]
            for a, b in itertools.combinations(ths, 2):
                sa, sb = secs[(lk, a)], secs[(lk, b)]
                # pair up ACQ/REL (a thread that dies inside never releases: open-ended section)
                a0, a1 = sa[0][5], (sa[1][5] if len(sa) > 1 else None)
                b0, b1 = sb[0][5], (sb[1][5] if len(sb) > 1 else None)
                alts = []
                if a1 is not None:
                    alts.append(a1 < b0)
                if b1 is not None:
                    alts.append(b1 < a0)
                S.add(z3.Or(*alts) if alts else z3.BoolVal(False))
        # negated property
        outcomes = [p.outcome for p in paths]
        uses = [e for e in events if e[2] in ("PART", "COMPLETE")]
        viol = z3.BoolVal(any(o != "ok" for o in outcomes) or len(creates) > 1)
        for p_, q_ in itertools.combinations(uses, 2):
            viol = z3.Or(viol, p_[4] != q_[4])
        for u in uses:
            viol = z3.Or(viol, u[4] == 0)  # part uploaded / completed without an upload id
            # ... or under an id that no upload initiated here carries (left over from an earlier upload)
            viol = z3.Or(viol, z3.And(*[u[4] != c_[4] for c_ in creates]) if creates else z3.BoolVal(True))
        S.add(viol)
        res["queries"] += 1
        r = S.check()
        if r == z3.sat:
            m = S.model()
            order = sorted(events, key=lambda e: m.eval(e[5], model_completion=True).as_long())
            res["sat"].append(dict(combo=list(combo), outcomes=outcomes, creates=len(creates),
                                   schedule=[[e[0], e[2], str(e[3])] for e in order]))
        elif r == z3.unknown:
            res["unknown"] += 1
        S.pop()
    res["solver_s"] = time.time() - t0
    return res


# ---- replay with real threads -------------------------------------------------------------------------
class Turnstile:
    """lets real threads perform their instrumented operations in a prescribed global order"""

    def __init__(self, order, timeout=5.0):
        import threading

        self.order = list(order)
        self.pos = 0
        self.cv = threading.Condition()
        self.timeout = timeout
        self.diverged = False

    def step(self, tid, effect=None):
        with self.cv:
            ok = self.cv.wait_for(lambda: self.diverged or self.pos >= len(self.order) or self.order[self.pos] == tid, timeout=self.timeout)
            if not ok:
                self.diverged = True
                self.cv.notify_all()
            try:
                return effect() if effect is not None else None
            finally:
                if self.pos < len(self.order) and self.order[self.pos] == tid:
                    self.pos += 1
                self.cv.notify_all()
