"""CrossHair contract twins for C04/C05 integer kernels (second engine, thorough tier)."""
from odc.geo.cog._shared import adjust_blocksize, num_overviews  # noqa: I001
from odc.geo.roi import Tiles


def _twin_tiles_locate(NY: int, NX: int, ny: int, nx: int, py: int, px: int) -> bool:
    """
    pre: 1 <= ny <= 8 and 1 <= nx <= 8 and 1 <= NY <= 40 and 1 <= NX <= 40 and 0 <= py < NY and 0 <= px < NX
    post: _
    """
    t = Tiles((NY, NX), (ny, nx))
    r, c = t.locate((py, px))
    sy, sx = t[r, c]
    return sy.start <= py < sy.stop and sx.start <= px < sx.stop and 0 <= r < t.shape.y and 0 <= c < t.shape.x


def _twin_tiles_region(NY: int, NX: int, ny: int, nx: int, r: int, c: int) -> bool:
    """
    pre: 1 <= ny <= 8 and 1 <= nx <= 8 and 1 <= NY <= 40 and 1 <= NX <= 40
    pre: 0 <= r < (NY + ny - 1) // ny and 0 <= c < (NX + nx - 1) // nx
    post: _
    """
    t = Tiles((NY, NX), (ny, nx))
    sy, sx = t[r, c]
    ts = t.tile_shape((r, c))
    ok = sy.start == r * ny and sy.stop == min((r + 1) * ny, NY) and sx.start == c * nx and sx.stop == min((c + 1) * nx, NX)
    ok = ok and ts.y == sy.stop - sy.start and ts.x == sx.stop - sx.start
    sy2, sx2 = t[r - t.shape.y, c - t.shape.x]
    return ok and (sy2, sx2) == (sy, sx)


def _twin_blocksize(block: int, dim: int) -> bool:
    """
    pre: 1 <= block <= 4096 and 0 <= dim <= 100000
    post: _
    """
    r = adjust_blocksize(block, dim)
    ok = r % 16 == 0 and r >= 16
    if 0 < dim < block:
        return ok and r >= dim and r - dim < 16
    return ok and r >= block and r - block < 16


def _twin_num_overviews(block: int, dim: int) -> bool:
    """
    pre: 1 <= block <= 512 and 0 <= dim <= 4096
    post: _
    """
    c = num_overviews(block, dim)
    return c >= 0 and (dim >> c) <= block and (c == 0 or (dim >> (c - 1)) > block)
