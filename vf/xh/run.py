"""run CrossHair on the contract twins and turn its report into an obligation result"""
from __future__ import annotations

import os
import re
import subprocess
import sys
import time

HERE = os.path.dirname(os.path.abspath(__file__))


def run_twins(param, tier):
    t0 = time.time()
    timeout = int(param.get("per_condition_timeout", 15))
    fname = param.get("module", "twins") + ".py"
    cmd = [sys.executable, "-m", "crosshair", "check", "--report_all", f"--per_condition_timeout={timeout}", os.path.join(HERE, fname)]
    p = subprocess.run(cmd, capture_output=True, text=True, timeout=1800, cwd=os.path.dirname(os.path.dirname(HERE)))
    out = p.stdout + p.stderr
    confirmed, other, viol = [], [], []
    src = open(os.path.join(HERE, fname)).read().splitlines()

    def fn_at(line):
        for i in range(min(line, len(src)) - 1, -1, -1):
            m = re.match(r"def (\w+)\(", src[i])
            if m:
                return m.group(1)
        return "?"

    for ln in out.splitlines():
        m = re.match(r".*twins\w*\.py:(\d+): (info|error): (.*)", ln)
        if not m:
            continue
        line, kind, msg = int(m.group(1)), m.group(2), m.group(3)
        name = fn_at(line)
        if kind == "info" and msg.startswith("Confirmed over all paths"):
            confirmed.append(name)
        elif kind == "error":
            call = re.search(r"when calling (\w+)\((.*)\)", msg)
            viol.append(dict(label=f"crosshair counterexample: {msg[:200]}", models=[{"call": call.group(0)[13:] if call else msg}], kind="crosshair"))
        else:
            other.append((name, msg[:60]))
    n = len(confirmed) + len(other) + len(viol)
    return dict(paths=n, nontrivial_paths=len(confirmed), violations=viol, inconclusive=[], queries=n, solver_s=time.time() - t0, unsat=len(confirmed), sat=len(viol), unknown=len(other),
                atoms_proved=len(confirmed), atoms_trivial=0, wall_s=time.time() - t0, exhausted=True,
                samples=[{"path_condition": [], "witness": {"confirmed_over_all_paths": confirmed, "not_confirmed_(ignored)": [o[0] for o in other]}, "atoms_on_path": n}], unreached=[], known_hits=[])


def replay_twin(param, model):
    """call the twin with the values CrossHair reported; reproduced iff it returns False / raises"""
    import importlib

    tw = importlib.import_module("vf.xh." + param.get("module", "twins"))
    call = model.get("call", "")
    m = re.match(r"(\w+)\((.*)\)", call)
    if not m or not hasattr(tw, m.group(1)):
        return {"reproduced": False, "note": "could not parse the counterexample"}
    try:
        r = eval(f"tw.{m.group(1)}({m.group(2)})", {"tw": tw})  # noqa: S307
    except Exception as e:  # noqa: BLE001
        return {"reproduced": True, "exception": repr(e), "model": model}
    ok = r if isinstance(r, bool) else True
    if m.group(1) == "_twin_align":
        x = eval(f"dict({m.group(2)})")  # noqa: S307
        lo, up = r
        ok = lo % x["a"] == 0 and lo <= x["x"] < lo + x["a"] and up % x["a"] == 0 and up - x["a"] < x["x"] <= up
    return {"reproduced": not ok, "model": model}
