"""CrossHair contract twins (second engine, thorough tier; DESIGN 3.7/6): private functions over
plain ints whose PEP316 postcondition states an obligation about the REAL odc.geo function they
call.  CrossHair searches for a counterexample; 'Confirmed over all paths' is recorded, anything
else is ignored, a counterexample is replayed by calling the twin with the reported values."""
from typing import Tuple

from odc.geo.math import align_down, align_up
from odc.geo.roi import (roi_intersect, roi_normalise, roi_pad, scaled_down_roi, scaled_up_roi,
                         slice_intersect3)


def _twin_align(x: int, a: int) -> Tuple[int, int]:
    """
    pre: 1 <= a <= 64
    post: _[0] % a == 0 and _[0] <= x < _[0] + a and _[1] % a == 0 and _[1] - a < x <= _[1]
    """
    return align_down(x, a), align_up(x, a)


def _twin_intersect3(a0: int, a1: int, b0: int, b1: int) -> bool:
    """
    pre: 0 <= a0 <= a1 and 0 <= b0 <= b1
    post: _
    """
    a_, b_, ab = slice_intersect3(slice(a0, a1), slice(b0, b1))
    lo, hi = max(a0, b0), min(a1, b1)
    n = max(0, hi - lo)
    ok = (a_.stop - a_.start == n) and (b_.stop - b_.start == n) and (ab.stop - ab.start == n)
    ok = ok and 0 <= a_.start and a_.stop <= a1 - a0 and 0 <= b_.start and b_.stop <= b1 - b0
    ok = ok and (n == 0 or (a0 + a_.start == lo and b0 + b_.start == lo and ab.start == lo))
    return ok


def _twin_intersect(a0: int, a1: int, b0: int, b1: int, e: int) -> bool:
    """
    pre: 0 <= a0 <= a1 and 0 <= b0 <= b1
    post: _
    """
    r = roi_intersect(slice(a0, a1), slice(b0, b1))
    return (r.start <= e < r.stop) == ((a0 <= e < a1) and (b0 <= e < b1))


def _twin_normalise(n: int, start: int, stop: int) -> bool:
    """
    pre: 0 <= n <= 6 and -9 <= start <= 9 and -9 <= stop <= 9
    post: _
    """
    r = roi_normalise(slice(start, stop), n)
    xs = list(range(n))
    return xs[start:stop] == xs[r.start : r.stop]


def _twin_pad(n: int, a: int, b: int, pad: int) -> bool:
    """
    pre: 0 <= a <= b <= n and 0 <= pad
    post: _
    """
    r = roi_pad(slice(a, b), pad, n)
    return r.start == max(0, a - pad) and r.stop == min(n, b + pad)


def _twin_scaled(a: int, b: int, k: int) -> bool:
    """
    pre: 0 <= a <= b and 1 <= k <= 16
    post: _
    """
    (d, _x) = scaled_down_roi((slice(a, b), slice(a, b)), k)
    (u, _y) = scaled_up_roi((d, d), k)
    return u.start <= a and b <= u.stop and a - u.start < k and u.stop - b < k
